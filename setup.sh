#!/bin/bash
# setup_cmd: builds the instrumenter and pre-builds the harness against the
# current /repo tree (warms GOCACHE). Offline; nothing is fetched.
set -e
export GOFLAGS=-mod=mod GOPROXY=off GOSUMDB=off GOTOOLCHAIN=local
cd /verif
mkdir -p bin evidence replays
(cd vinst && go build -o ../bin/vinst .)
bin/check BUILD
echo "setup ok"
