#!/bin/bash
# tools/try_mutant.sh <property-id> <patch.diff> [more check ids...]
# Scratch worktree of /repo: apply the patch, build, run the repository's own test suite (must pass), then run the
# check(s) (quick tier; SKIP_SUITE=1 skips the suite for a re-trial of a change which passed it before) against that worktree (VERIF_REPO) - /repo itself is not touched. The worktree is removed.
export GOFLAGS=-mod=mod GOPROXY=off GOSUMDB=off GOTOOLCHAIN=local
ID=$1; PATCH=$(readlink -f "$2"); shift 2
CHECKS="$ID $*"
W=/tmp/mutv/$ID.$$
mkdir -p /tmp/mutv
git -C /repo worktree add -q --detach "$W" HEAD || exit 2
cleanup() { git -C /repo worktree remove --force "$W" 2>/dev/null; }
( cd "$W" && (git apply "$PATCH" 2>/dev/null || git apply -3 "$PATCH") ) || { echo "PATCH DOES NOT APPLY"; cleanup; exit 3; }
( cd "$W" && go build ./... ) || { echo "MUTANT DOES NOT BUILD"; cleanup; exit 3; }
[ -n "$SKIP_SUITE" ] || T=$(cd "$W" && go test -vet=off -count=1 ./... 2>&1 | grep -v "no test files" | grep -v "^ok" | head -5)
if [ -n "$T" ]; then echo "EXISTING TESTS FAIL WITH THE MUTANT:"; echo "$T"; cleanup; exit 4; fi
echo "mutant builds, existing suite passes"
rc=0
E=$(mktemp -d /dev/shm/verif-try.XXXX)
for c in $CHECKS; do
  out=$(cd ${VERIF_HOME:-/verif} && VERIF_REPO="$W" VERIF_EVIDENCE_DIR=$E timeout 1500 bin/check $c --tier quick 2>&1)
  code=$?
  echo "== check $c exit=$code"
  echo "$out" | grep -E "signature:|^C[0-9]+ quick|harness" | cut -c1-260 | head -8
  [ $code -eq 1 ] && rc=1
done
rm -rf $E; cleanup
[ $rc -eq 1 ] && echo "DETECTED" || echo "NOT DETECTED"
