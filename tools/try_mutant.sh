#!/bin/bash
# tools/try_mutant.sh <property-id> <patch.diff> [more check ids...]
# 1. scratch worktree: apply the patch, build, run the repository's own test suite (must pass)
# 2. apply the patch to /repo, run the check(s) (quick tier), undo the patch
export GOFLAGS=-mod=mod GOPROXY=off GOSUMDB=off GOTOOLCHAIN=local
ID=$1; PATCH=$(readlink -f "$2"); shift 2
CHECKS="$ID $*"
W=/tmp/mutv/$ID.$$
git -C /repo worktree add -q --detach "$W" HEAD || exit 2
( cd "$W" && (git apply "$PATCH" 2>/dev/null || git apply -3 "$PATCH") ) || { echo "PATCH DOES NOT APPLY"; git -C /repo worktree remove --force "$W"; exit 3; }
( cd "$W" && go build ./... ) || { echo "MUTANT DOES NOT BUILD"; git -C /repo worktree remove --force "$W"; exit 3; }
T=$(cd "$W" && go test -vet=off -count=1 ./... 2>&1 | grep -v "no test files" | grep -v "^ok" | head -5)
git -C /repo worktree remove --force "$W"
if [ -n "$T" ]; then echo "EXISTING TESTS FAIL WITH THE MUTANT:"; echo "$T"; exit 4; fi
echo "mutant builds, existing suite passes"
cd /repo && (git apply "$PATCH" 2>/dev/null || git apply -3 "$PATCH") || { echo "cannot apply to /repo"; exit 3; }
rc=0
for c in $CHECKS; do
  out=$(cd /verif && timeout 1500 bin/check $c --tier quick 2>&1)
  code=$?
  echo "== check $c exit=$code"
  echo "$out" | grep -E "signature:|^C[0-9]+ quick|harness" | cut -c1-260 | head -8
  [ $code -eq 1 ] && rc=1
done
git -C /repo checkout -- . ; git -C /repo status --short | head -3
[ $rc -eq 1 ] && echo "DETECTED" || echo "NOT DETECTED"
