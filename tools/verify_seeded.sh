#!/bin/bash
# tools/verify_seeded.sh [ids...] : runs every seeded change (or the given ones) against the check(s) recorded in its
# meta.json, 4 at a time, each in its own scratch worktree; prints one line per change.
cd ${VERIF_HOME:-/verif}
ids=${@:-$(ls seeded)}
run() {
  id=$1
  checks=$(python3 -c "import json;m=json.load(open('seeded/$id/meta.json'));print(' '.join(m['final']['detected_by']))")
  out=$(tools/try_mutant.sh $checks < /dev/null 2>&1)
  :
}
export -f run
for id in $ids; do
  checks=$(python3 -c "import json;m=json.load(open('seeded/$id/meta.json'));d=m['final']['detected_by'];print(d[0], 'seeded/$id/patch.diff', ' '.join(d[1:]))")
  echo "$id|$checks"
done | xargs -P 4 -I{} bash -c 'l="{}"; id=${l%%|*}; args=${l#*|}; r=$(tools/try_mutant.sh $args 2>&1 | tail -1); echo "$id $r"'
