#!/bin/bash
# tools/verify_seeded.sh [ids...] : runs every seeded change (or the given ones) against the check(s) named in its
# meta.json (final.detected_by), 4 at a time, each in its own scratch worktree of /repo; records exit codes and
# violation signatures in the meta.json and prints one line per change. SKIP_SUITE=1 skips the repository's own suite.
cd ${VERIF_HOME:-/verif}
mkdir -p /tmp/mutv
one() {
  sid=$1
  args=$(python3 -c "import json;m=json.load(open('seeded/$sid/meta.json'));d=m['final']['detected_by'];print(d[0], 'seeded/$sid/patch.diff', ' '.join(d[1:]))")
  out=$(tools/try_mutant.sh $args 2>&1)
  echo "$out" > /tmp/mutv/v.$sid.log
  python3 - "$sid" <<'PY'
import json,sys,re
sid=sys.argv[1]
out=open(f'/tmp/mutv/v.{sid}.log').read()
p=f'seeded/{sid}/meta.json'
m=json.load(open(p))
sigs=sorted(set(re.findall(r'signature: (.*)',out)))
per={}
for l in out.split('\n'):
    mm=re.match(r'== check (C\d+) exit=(\d+)',l)
    if mm: per[mm.group(1)]=int(mm.group(2))
last=out.strip().split('\n')[-1]
m['final']['detected']= last=='DETECTED'
m['final']['check_exit_codes']=per
m['final']['signatures']=[s[:200] for s in sigs][:8]
json.dump(m,open(p,'w'),indent=1)
print(sid, last, per)
PY
}
export -f one
ids=${@:-$(ls seeded)}
for id in $ids; do echo $id; done | xargs -P ${VERIFY_PAR:-4} -I{} bash -c 'one {}'
echo "#### VERIFY DONE"
