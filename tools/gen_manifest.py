#!/usr/bin/env python3
"""Regenerates /verif/MANIFEST.json from the table below (kept here so that the manifest stays valid and consistent)."""
import json, sys

ALL = ["C%02d" % i for i in range(1, 21)]

# id -> dict(level, text, note, technique, design, engine, thorough=True)
CHECKS = {
 "C15": dict(level="model_checking",
  text="Discrete-event exploration of the REAL ticker goroutines under the virtual clock up to 6 x update_interval for 263 (quick) / 6690 (thorough) configurations: instances (1-3, own work_dirs) x interval mixes x phase offsets {0, 1s, I/4, I/2-1s, I/2+1s} x download duration {0, 5s; thorough also I/3} x outcome scripts over {refused, bad signature, garbage}* ; ok (5 quick / 10 thorough) x signature mode x fetch mode x source {crl_files, crl_urls, CDP}, plus a handshake naming a new distribution point 2 / 7 minutes after a tick, new distribution points before every tick, and a crl_file replacement whose modification time is older; thorough takes the full product for two and three instances too. Oracles with B = 2I + download x instances + 5s: (a) consecutive fetch attempts of every known location at most B apart (starvation), (b) a certificate revoked in a CRL obtainable since p is rejected after p+B, (c) configured CRLs are in force when Provision returns.",
  note="Timers due at the same instant fire in registration order (not permuted). Liveness is checked up to the horizon only.",
  technique="explicit exploration of timer-driven histories of the implementation under a virtual clock (bounded-horizon liveness as a safety check)",
  design="DESIGN.md §4 C15", engine="vsched virtual clock + real ticker goroutines"),
 "C17": dict(level="exploration",
  text="Entry counts N enumerated exhaustively in [0,256] and N = 2^k up to 2^15 (quick) / 2^18 (thorough), DER and PEM, through the real streaming reader with a live-heap invariant evaluated in intermediate states (every 64th entry: live(k) <= live(first) + 1 MiB); URL download with a lazily produced body and crl_file copy of 1 / 16 / 64 MiB (512 MiB thorough) with total allocation <= 4 MiB; whole path download -> parse -> LevelDB -> lookup with 2^19 (2^21 thorough) entries with live heap <= first + 24 MiB at 16 intermediate states and <= 20 MiB growth over 32768 lookups spread over the key space; a consumer which refuses every entry from the 1000th on; heap footprint (high-water mark of the heap obtained from the OS, so transient buffers count) of reading a 2^20-entry CRL in a fresh process <= 32 MiB for ordinary serials, PEM, and a generated CRL which contains no 0x0A octet before its signature; refresh path of a disk-backed validator in a fresh process for 2^18 and 2^20 entries: growth of the heap obtained from the OS and bytes allocated between consecutive effect points outside the per-entry loop must not depend on the size.",
  note="Weakest claim: a resource bound for ALL N cannot be established by exploration; what is decided is absence of per-entry retention (>= ~50 B/entry on the disk path, any on the reader path) within the bound. The 10^6+ scale is extrapolated.",
  technique="bounded enumeration of the entry count with a heap invariant checked in intermediate states of the streaming loop",
  design="DESIGN.md §4 C17, §7", engine="heap-invariant monitor"),
 "C20": dict(level="exploration",
  text="(1) 20 hostile location strings (path traversal, encoded separators, NUL/newline, 5000 chars, unicode, case variants, query, userinfo ...) alone and as ordered CDP pairs on both backends in a sandbox parent directory: every path passed to the os shim must lie inside work_dir, the tree outside is snapshotted (names, sizes, digests) and must not change, work_dir entries are only 64-hex ids / temp names, distinct locations get distinct stores. (2) k = 1..5 Provision/Cleanup cycles x backend x with/without configured CRLs x work_dir spelling (canonical, trailing slash, trailing /., ./ segment) under the virtual clock: every Provision succeeds, no repository goroutine survives Cleanup, no fetch after Cleanup when the clock advances 3 intervals, the work_dir registry is empty, no database handle is open, no residue. (3) startup sweep with 8 foreign names around the temp pattern, in work_dirs named plainly and with pattern metacharacters (crl[1], a*b?c, re(x)+.$, back\\slash): only crl_*_tmp entries disappear. (3b) life cycles whose distribution point never loads (garbage, down, background fetch pending), Cleanup performed while a refresh is downloading (nothing of the finished refresh holds the work_dir), and exclusive registration (A live, B rejected and cleaned up, C still rejected, D accepted after A's Cleanup). (4) BFS over load / refresh histories with accepted and rejected documents (the C11 alphabet) to depth 4 (quick) / 6 (thorough): no temporary artefact after any completed event, no live store deleted.",
  note="Foreign entries that do match crl_*_tmp are not judged. LevelDB-internal file names are not inspected (only that they stay under the store directory).",
  technique="bounded-exhaustive enumeration of location strings and life-cycle histories with file-system effect logging",
  design="DESIGN.md §4 C20", engine="vos effect log + sandbox tree snapshots + vsched"),
 "C12": dict(level="fault_enumeration",
  text="Crash-point enumeration with real process death: for each disk-backed history (quick: first load accepted / rejected, refresh accepted / rejected; thorough adds truncated first load, fetch failure, two refreshes, rejected-then-accepted refresh, a second distribution point) a child process runs it and SIGKILLs itself at effect point k, for EVERY k (every os / LevelDB shim call of the history, plus after-effect points of rename / removeall); a second child restarts a fresh strict validator over the crashed work_dir with the origin down and reports the verdict vector of 6 probes and the directory listing. Every other crash image lives in a work_dir whose name contains pattern metacharacters; the restarted process provisions another validator instance first. Second level (crash during recovery): for every such image and EVERY effect point j of the restart's Provision (startup sweep, opening stores) the restarting process dies too and a third process restarts. Oracle: loaded only with exactly the vector of a complete accepted CRL of that history, no crl_*_tmp and no stray entry after Provision, no store directory removed.",
  note="Crash = process death (completed writes survive, nothing torn), as the property states. goleveldb's internal file operations are not individually crash points (only its API calls).",
  technique="exhaustive crash-point enumeration (fault injection at every effect point, SIGKILL + restart) on the implementation",
  design="DESIGN.md §4 C12, §3 E7", engine="effect-point shims (vos/vleveldb) + child processes"),
 "C18": dict(level="model_checking",
  text="Lock-step explicit-state exploration of MapStore, LevelDbStore and a reference model (Go map + structs): all operation sequences (every insert goes through one issuer variable whose content changes, as the CRL reader does) over a 23-operation alphabet (start, 12 inserts, ext-meta, signer, locations, replace-with 3 pre-filled stores, close+reopen) to depth 3 (quick) / 5 (thorough), deduplicated on the model state; after every operation ALL getters (6 lookups incl. returned entry, meta, ext-meta, signer, locations, IsEmpty; error-vs-value shape) of both backends are compared with the model. Plus a value-shape round-trip sweep (non-ASCII / multi-valued / empty names, zero / negative / 2^159 serials, critical and empty extensions, UTC and Generalized dates, location shapes incl. unsorted and repeated distribution points).",
  note="Times restricted to what a parsed CRL can contain (update times before 2050). One known finding: MapStore.IsEmpty (pinned by the repository's own test).",
  technique="explicit-state model checking: lock-step BFS over operation sequences against a reference model",
  design="DESIGN.md §4 C18", engine="history explorer (fw.BFS)"),
 "C01": dict(level="exploration",
  text="Every listed serial of every scenario is probed with its own certificate through the real caddy module (reader -> store -> repository -> VerifyClientCertificate): A: all configurations source(3) x backend(2) x mode(4) x OCSP answer(3) x encoding with two list shapes; B: all list shapes N(1,2,3,5,40,300) x serial form(12) x entry extensions(3) x date form(2) with two configurations; cross-location cases (two similar crl_urls, configured file vs own CDP, own CDP unavailable, crl_urls and crl_files together), issuers named in 9 shapes (attribute orders, multi-valued RDN, domainComponent, email + UID) and history cells 'accepted list, then a refresh obtains an error page / garbage / a bad signature'; thorough adds a 100000-entry CRL on both backends with every position probed. Vacuity guard: an unlisted certificate must be accepted first.",
  note="Bounded shape alphabet; the 10^6 scale of the statement is extrapolated from the per-entry loop being the same code for every entry.",
  technique="bounded-exhaustive enumeration of (configuration, list shape) scenarios with every listed position probed on the implementation",
  design="DESIGN.md §4 C01", engine="top-level world (caddy module)"),
 "C03": dict(level="model_checking",
  text="The complete truth table mode(6) x OCSP outcome(5: no AIA, good, revoked, unreachable, reachable but unusable answer) x aia_strict(2) x CRL outcome(6: none known, listed, not listed, CDP unavailable, CDP unavailable + listed in a configured file, listed in a configured crl_url) x cdp_strict(2) x backend(2) x chain shape(3) = 4320 cells, each a fresh Provision -> VerifyClientCertificate -> Cleanup on the real caddy module with scripted OCSP/CRL origins; oracle: reject <=> enabled mechanism reports revoked or (strict) unavailable; side-effect monitors (disabled / ocsp_only never touch CRL origin or work_dir and need no crl_config, crl_only never contacts OCSP); unset == prefer_ocsp == prefer_crl cell by cell.",
  note="Finite table enumerated completely (exhaustive is literal). Empty verifiedChains not judged.",
  technique="exhaustive enumeration of a finite configuration/outcome table on the implementation",
  design="DESIGN.md §4 C03", engine="top-level world (caddy module)"),
 "C19": dict(level="exploration",
  text="Every configuration tuple over 14 option dimensions (incl. invalid values and misspelt keys at the 4 nesting levels) from: all singles, all pairs, the full product of valid mode x storage x signature mode x fetch mode x cdp_strict crossed with every other option (quick) / with the full product of the others (thorough), rendered as Caddyfile and as JSON, each loaded for real (UnmarshalCaddyfile / StrictUnmarshalJSON + Provision + Cleanup) and compared: both syntaxes equal, effective configuration (parsed fields, list options with two elements, and the store backend the provisioned repository really uses) equal to the documented meaning and defaults, invalid tuples rejected, valid tuples provision - also right after a rejected configuration on the same work_dir was cleaned up.",
  note="Configured CRLs are signed by the harness CA; under verify without the trusted certificate loading may legitimately fail (then only syntax agreement is judged).",
  technique="bounded-exhaustive configuration enumeration in both syntaxes against the documented meaning",
  design="DESIGN.md §4 C19", engine="top-level world (caddy module)"),
 "C11": dict(level="model_checking",
  text="(1) Explicit-state BFS over histories {serve down | bad-signature{r} | parse-failure-after-entries{r} | unimplemented-critical-extension{r} | good{a} | good{}; probe-all; tick; background fetch completes; restart} to depth 5 (quick) / 12 (thorough) for fetch mode x backend, with a reference model of the list in force; oracle: a probe is reported revoked only if the list in force lists it (entries of rejected or superseded lists never revoke); every history - merged or not - ends with all probes judged. (2) Exhaustive neighbourhood: one CRL of issuer A listing 7 serials (incl. >64-bit, 20-byte and a negative one), every arithmetic/byte/decimal neighbour serial probed under issuer A and under 7 other issuers (different DN, DN + '_<digits>' suffix, other case, extra RDN, same attributes in another order, repeated CN), both backends. The accepted lists carry no cRLNumber.",
  note="Up to 64-bit FNV key collisions (excluded by the property). Canonical key includes store and work_dir digests.",
  technique="explicit-state model checking over event histories against a reference model + exhaustive probe neighbourhood on the implementation",
  design="DESIGN.md §4 C11", engine="history explorer (fw.BFS)"),
 "C16": dict(level="model_checking",
  text="Exhaustive matrix signature mode (unset, verify, verify_log, none) x signer (resolvable, unknown, wrong signature) x intake path (provision-time crl_file, provision-time crl_url, first CDP fetch active, first CDP fetch background, periodic refresh, refresh after restart, configured crl_file / crl_url re-provisioned on the same work_dir after a run under mode none, trusted-certificate file replaced between two runs) x backend x trusted signers {as needed, plus an unrelated CA}: 376 cells; every refresh path refreshes twice, each a short history on the real caddy module (Provision -> strict handshakes -> publish v2 -> tick on the virtual clock -> handshakes -> restart with origin down -> handshakes); oracle: the version in force at every probe equals what the policy demands; Provision must succeed whenever the mode accepts the configured CRL.",
  note="Finite table, enumerated completely. The real ticker goroutine is driven by the virtual clock.",
  technique="exhaustive configuration x history enumeration (finite state table) on the implementation under a virtual clock",
  design="DESIGN.md §4 C16", engine="top-level world (caddy module) + vsched"),
 "C10": dict(level="model_checking",
  text="Explicit-state BFS over event histories {handshake(listed|clean), set-server(url, down|garbage|bad-signature|good), refresh tick (virtual clock), background-fetch completes (held thread released), restart} to depth 4 (quick) / 6 (thorough) for all 192 configurations CDP set(8: http, https, ldap, ldap+http, two http, file, a 3-character URI, a 2-character URI + http) x fetch mode(2) x signature mode(3) x backend(2) x strict(2), on the real CRLRevocationChecker. After every handshake the verdict is compared with a reference model of 'a CRL for this distribution-point set is in force': strict accepts only then, lenient never denies an unlisted certificate. Plus a single-fault enumeration over the first load (an error injected at each file / database effect point, both backends) followed by two handshakes of an unlisted certificate. Canonical state key includes store content and work_dir digests (left-over data is state); every history - merged or not - ends with both handshakes judged after the key was taken.",
  note="All served CRL variants list the same serials so that only in-force-ness and listed-ness enter the oracle; which of several URLs is asked first is mirrored, not judged.",
  technique="explicit-state model checking (BFS over event histories with canonical state keys) of the implementation against a reference model, background threads as explicit events",
  design="DESIGN.md §4 C10", engine="history explorer (fw.BFS) + vsched held threads + virtual clock"),
 "C08": dict(level="model_checking",
  text="Two halves on the real code, both backends. (1) Schedule exploration: all interleavings (preemption bound 2 quick / 3 thorough) of a refresh (ticker path and config path) with 1-2 reader threads doing 2-4 lookups of oldOnly/newOnly/common/neither probes; oracle on the step-stamped call/return history: never an error, common always revoked, neither never, and a single switch point (no OLD answer starting after a NEW answer returned). (2) Explicit-state BFS over refresh histories (2 successful versions + 20 failure kinds: refused, HTTP error page, garbage, empty, 7 truncations, bad signature, unknown signer, injected staging-store faults at create/locations/start/insert#k/extmeta/sigcert) to depth 2 (quick) / 3 (thorough), each in 4 variants (ticker path, config path with a client chain, ticker path with an unrelated CA configured as trusted signer, ticker path with lists that carry no crlExtensions and a re-keyed CA certificate configured as trusted signer); after every event all probes must equal the vector of the last accepted version and no temp artefacts may remain.",
  note="Faults in the directory swap itself are judged under C09/C12. The staging faults are injected through a wrapper around Repository.Factory (exported field).",
  technique="stateless schedule exploration with preemption bounding + explicit-state BFS over fault/event histories, both on the implementation",
  design="DESIGN.md §4 C08", engine="vsched DFS + fw.BFS"),
 "C09": dict(level="model_checking",
  text="Exhaustive single-fault enumeration at lookup time (database handle closed, injected Db.Get I/O error, stored record replaced by empty / 1 byte / every truncation / flipped tag / other type) on both backends for listed and unlisted probes, each alone and with further healthy CRLs in the repository whose identifiers sort before and after the faulty one, the lookup repeated with the fault still present; physical damage: every byte of every table file of a persisted store damaged in a copy of the work_dir, validator restarted, listed certificate presented (quick: xor 0xff, thorough: every bit); plus schedule exploration of handshake || Cleanup and handshake || refresh-whose-directory-swap-fails (fault injected at the os.Rename effect point). Oracle: a lookup hit by a storage failure never answers 'not revoked' and never panics.",
  note="A lookup starting after Cleanup returned is not judged. One known finding (entry dropped after a failed swap) is listed in known_findings.jsonl.",
  technique="exhaustive fault-point enumeration + stateless schedule exploration with fault injection on the implementation",
  design="DESIGN.md §4 C09", engine="vsched DFS + effect-point fault injection"),
 "C02": dict(level="exploration",
  text="All responder lists of length 0..3 (quick, 1464 lists) / 0..4 (thorough, 16105 lists) over 11 behaviours (good, revoked, unknown, HTTP 500 + garbage, connection refused, non-OCSP body, ldap:// URL, https answering good, a good answer signed by an unauthorised certificate, an authentic good answer about another serial, an authentic revoked answer of about 6 KiB) x aia_strict x default cache duration {0, 10m} x nextUpdate {absent, +1h} x chain shape (same / other key type, with / without AKI, issuer certificate not among the chains), each a 3-event history (all responders down, lookup; responders as listed, lookup; all down, lookup) on the real OCSPRevocationChecker with a scripted transport, compared with a boring reference model (first authentic answer in list order decides; strict rule; cache rule).",
  note="OCSP status 'unknown' and strict-mode denials that the reference would accept are not judged (the statement is one-directional there). Mode composition is C03's business.",
  technique="exhaustive enumeration of environment behaviours (responder lists x flags) with 2-event histories against a reference model",
  design="DESIGN.md §4 C02", engine="configuration/behaviour enumerator"),
 "C14": dict(level="model_checking",
  text="Explicit-state BFS over event histories {lookup(c1|c1'|c2, V1|V2), advance(L/2|L+1s|L-1s), responder flips to revoked, responder down/up, Cleanup(V2)} on the real checker + cache2go under a shared virtual clock, for 6 cache configurations, to depth 5 (quick) / 8 (thorough); states deduplicated by a canonical key; plus issuer-pair histories for names which look alike once rendered (TeletexString octets that are not valid UTF-8) and two instances of the caddy module with different cache durations; every history - merged into a known state or not - ends with a judged lookup of every certificate; invariants evaluated on every transition against a reference model: a hit only for the same (encoded issuer name, serial) - the two issuers' names differ on the wire only and collide under lossy renderings -, never older than its lifetime whatever the read pattern, never with zero lifetime, never right after a failed query.",
  note="Cache hit is observed as 'no transport request during the lookup'. The canonical key buckets ages relative to L (a coarser key would merge states with different futures; the buckets keep <L/2, <=L, >L and last-read apart).",
  technique="explicit-state model checking (BFS over event histories with canonical state keys) directly on the implementation under a virtual clock",
  design="DESIGN.md §4 C14", engine="history explorer (fw.BFS)"),
 "C04": dict(level="exploration",
  text="Exhaustive matrix signature algorithm (10 supported + RSA-PSS + Ed25519 + unknown) x signer (14 kinds incl. a trusted signer whose name renders like the issuer's, an end-entity alone in its chain naming itself, sibling CA with identical DN, the end-entity's own key, CA without cRLSign, the CA above the issuing CA, another CA configured as trusted signer) x AKI form (8, incl. issuer+serial with a URI / dNSName GeneralName) x intake path (first load, refresh, refresh after a handshake presented the signer) x good/bad signature; 47 further algorithm identifiers of the PKI world (legacy digests, DSA, PSS, EdDSA, SHA-3, RIPEMD, BSI plain ECDSA, GOST, SM2, OIW aliases) with an EC and an RSA signer; plus EVERY single-bit flip of tbsCertList|signatureAlgorithm|signatureValue of an EC and an RSA seed (first load) and every flip inside the signed content presented after the genuine document was loaded and refreshed once, each driven through the real Repository (AddCRL / UpdateCRL, strict lookup as the in-force probe). Oracle (soundness direction): in force => authentic by construction.",
  note="Entitlement reference is computed from how each case was built, independent of the implementation; completeness (authentic => accepted) is counted, not judged.",
  technique="bounded-exhaustive input enumeration (signer/algorithm/AKI matrix + complete single-bit-flip neighbourhood) on the real intake path",
  design="DESIGN.md §4 C04", engine="shape enumerator + 1-point neighbourhood"),
 "C05": dict(level="exploration",
  text="Exhaustive matrix signer (16 kinds: issuer, delegated responders with OCSPSigning / any / clientAuth / no EKU, with and without embedded certificate, the client's own certificate incl. clients named like their issuer, strangers, sibling CA and its responder) x serial (this/other) x status (good/revoked/unknown) plus OCSP error statuses plus two-step histories (a client of a same-named sibling CA is looked up first on the same checker; the bytes of an answer about one certificate replayed for another), responders of another CA configured as trusted responder certificates, plus EVERY single-bit flip of authentic good and revoked responses, each through the real OCSPRevocationChecker with aia_strict on; two-step history per case (call, responder down, call) observes both 'decided the verdict' and 'was cached'. Oracle: used or cached => authentic.",
  note="Authenticity by construction; for bit-flipped responses by an independent x/crypto/ocsp verification against the issuer for this serial.",
  technique="bounded-exhaustive input enumeration (signer/serial/status matrix + complete single-bit-flip neighbourhood) with a 2-event history per case",
  design="DESIGN.md §4 C05", engine="shape enumerator + 1-point neighbourhood"),
 "C06": dict(level="exploration",
  text="Bounded-exhaustive shape enumeration of generated CRLs through the real StreamingCRLFileReader with a recording processor, compared field by field (callbacks, order, digest, signature bits, extensions) with a whole-document encoding/asn1 reference decoder; full product of the core shape dimensions plus one list above 16 MiB (four length octets) (incl. critical issuingDistributionPoint / issuerAltName / freshestCRL / authorityInfoAccess / delta / private extensions, which must be rejected), one-at-a-time crossing of the rest (incl. lists whose entries alternate between having and not having extensions, and update times at the edges of the UTCTime range: 1950, 1951, 1999, 2000, 2049), an alignment sweep that moves every element boundary across every offset of the 4 KiB buffered-reader window (and PEM line / base64 chunk windows), for an EC and an RSA-2048 signature, and a short-read exploration (every read of the file answers with fewer bytes than asked at one / two chosen points). Right level: the property quantifies over inputs; the space of shapes within the bounds is enumerated completely, not sampled.",
  note="Reference decoder = encoding/asn1 + encoding/pem (trusted). Shapes outside the stated alphabet (e.g. 4-length-byte documents in quick) are not covered.",
  technique="bounded-exhaustive input-shape enumeration against a reference decoder (small-scope exploration of the parser's input space)",
  design="DESIGN.md §4 C06", engine="shape enumerator"),
 "C07": dict(level="exploration",
  text="Exhaustive enumeration of hostile inputs around valid seeds: every truncation, every single-bit flip / hostile byte substitution, and a token DFS that at every TLV boundary (all nesting levels) tries every tag x length-form token (all long forms 0x81..0x8f) both replacing the header and as a lazily extended continuation, plus a PEM framing alphabet, 47 unimplemented signature algorithm identifiers (outer / inner / both, with / without NULL parameters), CRL issuer names with every attribute value re-typed (through the chain matcher) and hostile AKI/SKI/GeneralName/RDN bytes for the chain matcher; monitors: panic, allocation delta, process death (fatal error) and hang, in rlimit-ed worker processes.",
  note="Allocation bound 1 MiB + 2048 x input length; seeds and alphabets as listed in the evidence; depth-2 continuations only over a sub-alphabet.",
  technique="bounded-exhaustive exploration of the parser's decision tree under an adversarial byte environment (lazy token DFS + complete 1-point neighbourhoods) with totality/allocation monitors",
  design="DESIGN.md §4 C07", engine="token DFS / neighbourhood enumerator"),
 "C13": dict(level="model_checking",
  text="Stateless model checking of the real code: every schedule of 2-5 thread scenarios (handshakes, refresh, background fetch, cleanup, config update, two instances; both backends) with at most 2 (quick) / 3 (thorough) preemptions under a cooperative scheduler; oracles: no deadlock, no unrecovered panic, no happens-before data race on instrumented repository state (vector-clock detector evaluated on every explored execution), verdict vector in the set produced by coarse-grained sequential orders. sync.Pool is modelled deterministically (Get returns the object Put last, with a scheduling point after Put). Scenarios carry post-conditions evaluated at rest where the property needs them (new CRL in force after a background refresh, no database handle open after Cleanup). Complement outside the exhaustive claim: the same kinds of scenario bodies run free on the uninstrumented code built with -race (10 scenarios, about 40 000 lookups) so that Go's race detector sees every access of the executed paths. Right level because the property quantifies over interleavings.",
  note="Sequentially consistent interleavings at lock/spawn/channel/sleep points; third-party internals (goleveldb, net/http, zap) trusted; map iteration order fixed by the instrumenter; bounded scenarios and preemption bound as reported in the evidence.",
  technique="stateless schedule exploration (DFS, iterative preemption bounding) on the instrumented implementation + in-explorer vector-clock race detection",
  design="DESIGN.md §4 C13, §3 E1/E2", engine="vsched"),
}

NOT_YET = "check not built yet in this session (work in progress, see DESIGN.md §4); not claimed until a sound driver exists"

def main():
    checks = []
    for pid in ALL:
        c = CHECKS.get(pid)
        if not c: continue
        e = {
          "property_id": pid,
          "quick_cmd": "bin/check %s --tier quick" % pid,
          "thorough_cmd": "bin/check %s --tier thorough" % pid,
          "evidence_file": "/verif/evidence/%s.json" % pid,
          "replay_cmd_template": "bin/check %s --replay {path}" % pid,
          "engine": c["engine"],
          "level_claimed": {"category": c["level"], "text": c["text"], "design_ref": c["design"]},
          "level_note": c["note"],
          "technique": c["technique"],
        }
        checks.append(e)
    na = [{"property_id": p, "reason": NA.get(p, NOT_YET)} for p in ALL if p not in CHECKS]
    m = {
      "version": 1,
      "setup_cmd": "./setup.sh",
      "hooks": {
        "guard": "verif",
        "enable": "no source hooks in /repo: bin/check runs bin/vinst on /repo's working tree and builds the harness with `go build -tags verif -overlay <generated overlay.json>` (import shims for sync/time/os/leveldb, go/select rewrites, access hooks, generated zz_verif_export.go files)",
        "baseline_off_cmd": "cd /repo && GOFLAGS=-mod=mod GOPROXY=off GOSUMDB=off GOTOOLCHAIN=local go test -vet=off -count=1 ./...",
        "source_commits": [],
        "add_only": True,
      },
      "engines": [
        {"name": "vinst", "path": "vinst/", "serves_properties": ALL, "kind_free_text": "type-directed source instrumenter producing a go build overlay of /repo's current tree"},
        {"name": "vsched", "path": "h/rt/vsched/", "serves_properties": ALL, "kind_free_text": "cooperative scheduler, virtual clock, effect points, vector-clock race detector; DFS explorer with preemption bounding in h/fw"},
        {"name": "world", "path": "h/world/", "serves_properties": ALL, "kind_free_text": "closed environment: PKI, CRL builder, OCSP responder, scripted http transport"},
      ],
      "checks": checks,
      "not_applicable": na,
      "notes": "All checks run the real repository code (instrumented through an overlay built from /repo's working tree on every invocation). known_findings.jsonl lists recorded and fixed defects.",
    }
    json.dump(m, open("/verif/MANIFEST.json", "w"), indent=1)
    print("checks:", [c["property_id"] for c in checks], "not_applicable:", len(na))

NA = {}
if __name__ == "__main__":
    main()
