#!/bin/bash
# tools/trial_round.sh <round-dir> <id>...  : for every <round-dir>/<id>/MUTANT{1,2}.diff run tools/try_mutant.sh with the
# property's own check and its sibling checks; prints a condensed record. (SKIP_SUITE=1 is honoured.)
R=$1; shift
declare -A SIB=( [C01]="C08 C11 C20 C15" [C02]="C14 C05 C03 C13" [C03]="C02 C01 C10" [C04]="C16 C08" [C05]="C02 C13" [C06]="C07" [C07]="C06" [C08]="C13 C09 C11" [C09]="C13 C08" [C10]="C16 C12 C01" [C11]="C18 C08 C04" [C12]="C20 C10 C09" [C13]="C08 C09" [C14]="C02 C13" [C15]="C16 C08" [C16]="C08 C15 C04" [C17]="" [C18]="C11 C01" [C19]="C03 C16" [C20]="C12 C10" )
for id in "$@"; do
  for i in 1 2; do
    f=$R/$id/MUTANT$i.diff
    [ -f $f ] || { echo "#### $id MUTANT$i missing"; continue; }
    echo "#### $id MUTANT$i"
    ${VERIF_HOME:-/verif}/tools/try_mutant.sh $id $f ${SIB[$id]} 2>&1 | grep -E "== check|signature|DETECTED|EXISTING|DOES NOT|harness" | cut -c1-220 | head -24
  done
done
echo "#### TRIALS DONE"
