#!/bin/bash
# tools/run_demo.sh <mutdir> <i>  : replays demo<i>/README.md of a seeded change in a fresh scratch worktree of /repo
# and reports whether the demonstration passes without the change and fails with it.
export GOFLAGS=-mod=mod GOPROXY=off GOSUMDB=off GOTOOLCHAIN=local
M=$(readlink -f "$1"); I=$2
W=/tmp/mutv/demo.$$; rm -rf $W
git -C /repo worktree add -q --detach $W HEAD || exit 2
cp -r $M/demo$I $W/ ; cp $M/MUTANT$I.diff $W/
cd $W
applied=0; okclean=""; failmut=""
while IFS= read -r line; do
  l=$(echo "$line" | sed -e 's/^[[:space:]>$`(]*//' -e 's/`$//' -e 's/)[[:space:]]*$//' -e 's/^ulimit[^;]*;[[:space:]]*//' -e 's/^timeout [0-9]* //')
  case "$l" in
    "git apply -R"*|"git apply --reverse"*|"git checkout"*|"git stash"*) git checkout -q -- . 2>/dev/null; applied=0 ;;
    "git apply"*) (git apply MUTANT$I.diff 2>/dev/null || git apply -3 MUTANT$I.diff) && applied=1 || echo "  patch does not apply" ;;
    "cp "*|"rm "*|"mkdir "*|"mv "*) eval "$l" 2>/dev/null ;;
    *"go test"*|*"go run"*|*"run.sh"*)
      cmd=$(echo "$l" | sed -e 's/[[:space:]]*2>&1.*$//' -e 's/[[:space:]]*|.*$//')
      out=$(eval "timeout 600 $cmd" 2>&1); rc=$?
      echo "  [applied=$applied] $cmd -> exit $rc"
      if [ $applied -eq 0 ]; then [ $rc -eq 0 ] && okclean=${okclean}P || okclean=${okclean}F; else [ $rc -ne 0 ] && failmut=${failmut}F || failmut=${failmut}P; fi ;;
  esac
done < <(grep -E '^[[:space:]>$`(]*(cp |rm |mv |mkdir |git apply|git checkout|git stash|go test|go run|ulimit.*go |timeout.*go |\./demo[0-9]/run.sh)' demo$I/README.md | sed -E -e 's#/tmp/mut2?/C[0-9]+#'$W'#g')
cd /; git -C /repo worktree remove --force $W
echo "  clean-run results: ${okclean:-none}   mutated-run results: ${failmut:-none}"
case "$okclean" in *F*|"") echo "DEMO NOT CONFIRMED (clean run)"; exit 1;; esac
case "$failmut" in *F*) echo "DEMO CONFIRMED"; exit 0;; *) echo "DEMO NOT CONFIRMED (mutated run did not fail)"; exit 1;; esac
