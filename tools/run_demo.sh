#!/bin/bash
# tools/run_demo.sh <mutdir> <i>  : replays the shell block(s) of demo<i>/README.md of a seeded change in a fresh
# scratch worktree of /repo and reports whether the demonstration passes without the change and fails with it.
# Every "go test" / "go run" / run.sh line is timed out at 600 s and its exit status recorded together with whether the
# change was applied at that point.
export GOFLAGS=-mod=mod GOPROXY=off GOSUMDB=off GOTOOLCHAIN=local
M=$(readlink -f "$1"); I=$2
W=/tmp/mutv/demo.$$; rm -rf $W
git -C /repo worktree add -q --detach $W HEAD || exit 2
cp -r $M/demo$I $W/ ; cp $M/MUTANT$I.diff $W/ 2>/dev/null || cp $M/patch.diff $W/MUTANT$I.diff
[ -d $W/demo$I ] || { mkdir -p $W/demo$I; cp -r $M/demo/. $W/demo$I/; }
cd $W
python3 - "$W" "$I" > $W/.demo_script.sh <<'PY'
import re,sys
W,I=sys.argv[1],sys.argv[2]
txt=open(f"{W}/demo{I}/README.md").read()
blocks=re.findall(r"```(?:sh|bash|shell|console)?\n(.*?)```",txt,re.S)
lines=[]
for b in blocks:
    cur=""
    for l in b.split("\n"):
        l=l.rstrip()
        if l.endswith("\\"):
            cur+=l[:-1]+" "; continue
        lines.append(cur+l); cur=""
def strip_comment(l):
    q=None
    for i,ch in enumerate(l):
        if q:
            if ch==q: q=None
        elif ch in "\"'": q=ch
        elif ch=="#" and (i==0 or l[i-1].isspace()): return l[:i]
    return l
print("applied=0")
for l in lines:
    l=re.sub(r"/tmp/mut[0-9]*/C[0-9]+",W,l)
    l=re.sub(r"^\s*[$>]\s+","",l)
    s=strip_comment(l).strip()
    if not s or s.startswith("#"): continue
    if re.match(r"git (apply (-R|--reverse)|checkout|stash|restore)",s):
        print("git checkout -q -- . ; applied=0")
    elif s.startswith("git apply"):
        print(f"(git apply MUTANT{I}.diff 2>/dev/null || git apply -3 MUTANT{I}.diff) && applied=1")
    elif re.search(r"\bgo (test|run|vet)\b|run\.sh",s):
        s2=re.sub(r"timeout \d+ ","timeout 600 ",s)
        print(f"( set -o pipefail; {s2} ) > .demo_out.txt 2>&1; rc=$?; echo \"RESULT applied=$applied rc=$rc :: {s[:100].replace(chr(34),'')}\"")
    elif re.match(r"(cp|rm|mv|mkdir|export|cd|chmod|ulimit|git worktree|git status|git diff)\b",s):
        if s.startswith("cd ") and not s.startswith("cd "+W): 
            if s.startswith("cd /"): continue
        if s.startswith("git worktree"): continue
        print(s)
PY
out=$(bash $W/.demo_script.sh 2>&1 | grep "^RESULT")
echo "$out" | sed 's/^/  /'
okclean=$(echo "$out" | grep "applied=0" | sed -E 's/.*rc=([0-9]+).*/\1/' | tr '\n' ' ')
failmut=$(echo "$out" | grep "applied=1" | sed -E 's/.*rc=([0-9]+).*/\1/' | tr '\n' ' ')
[ -n "$KEEP_DEMO" ] && cp $W/.demo_script.sh /tmp/mutv/last_demo_script.sh; cd /; git -C /repo worktree remove --force $W
echo "  clean-run exit codes: ${okclean:-none}   mutated-run exit codes: ${failmut:-none}"
[ -n "$okclean" ] || { echo "DEMO NOT CONFIRMED (no clean run found)"; exit 1; }
for c in $okclean; do [ "$c" = 0 ] || { echo "DEMO NOT CONFIRMED (clean run fails)"; exit 1; }; done
[ -n "$failmut" ] || { echo "DEMO NOT CONFIRMED (no mutated run found)"; exit 1; }
for c in $failmut; do [ "$c" != 0 ] && { echo "DEMO CONFIRMED"; exit 0; }; done
echo "DEMO NOT CONFIRMED (mutated run did not fail)"; exit 1
