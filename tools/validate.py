#!/opt/veriftools/pyvenv/bin/python
import json, sys, glob, jsonschema
m = json.load(open('/verif/MANIFEST.json'))
jsonschema.validate(m, json.load(open('/root/.vp/MANIFEST.schema.json')))
print('manifest valid;', len(m['checks']), 'checks')
es = json.load(open('/root/.vp/EVIDENCE.schema.json'))
for c in m['checks']:
    f = c['evidence_file']
    try:
        e = json.load(open(f))
        jsonschema.validate(e, es)
        assert e['level'] == c['level_claimed']['category'], (e['level'], c['level_claimed']['category'])
        print(' ', c['property_id'], 'evidence valid', e['tier'], 'wall', round(e['wall_s'], 1))
    except Exception as ex:
        print(' ', c['property_id'], 'EVIDENCE PROBLEM:', str(ex)[:200])
