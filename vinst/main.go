// vinst: source-to-source instrumenter. It rewrites the non-test Go files of a
// module tree (as they are on disk right now) into a build directory and
// emits a `go build -overlay` file that substitutes them; the tree itself is
// never written.
//
// Rewrites: import swap (sync/time/os/leveldb -> shims), `go` statements,
// receive-only select / receive statements, close(), and - type directed -
// read/write hooks on fields of repository structs and on package-level
// variables for the in-explorer happens-before race detector.
package main

import (
	"bytes"
	"crypto/sha256"
	"encoding/hex"
	"encoding/json"
	"flag"
	"fmt"
	"go/ast"
	"go/printer"
	"go/token"
	"go/types"
	"os"
	"path/filepath"
	"sort"
	"strconv"
	"strings"

	"golang.org/x/tools/go/ast/astutil"
	"golang.org/x/tools/go/packages"
)

var swaps = map[string]struct{ path, name string }{
	"sync": {"verif/h/rt/vsync", "sync"},
	"time": {"verif/h/rt/vtime", "time"},
	"os":   {"verif/h/rt/vos", "os"},
	"context": {"verif/h/rt/vcontext", "context"},
	"golang.org/x/sync/errgroup":     {"verif/h/rt/verrgroup", "errgroup"},
	"golang.org/x/sync/singleflight": {"verif/h/rt/vsingleflight", "singleflight"},
	"github.com/syndtr/goleveldb/leveldb": {"verif/h/rt/vleveldb", "leveldb"},
}

const schedPath = "verif/h/rt/vsched"

type stats struct {
	GlobalResets int `json:"files_with_package_level_state_reset"`
	Files            int      `json:"files"`
	ImportSwaps      int      `json:"import_swaps"`
	GoStmts          int      `json:"go_stmts"`
	Selects          int      `json:"selects"`
	Recvs            int      `json:"recvs"`
	Sends            int      `json:"sends"`
	Closes           int      `json:"closes"`
	MapRanges        int      `json:"map_ranges"`
	ReadHooks        int      `json:"read_hooks"`
	WriteHooks       int      `json:"write_hooks"`
	Uninstrumented   []string `json:"uninstrumented_ops"`
	Packages         []string `json:"packages"`
	SourceDigest     string   `json:"source_digest"`
}

func main() {
	root := flag.String("root", "/repo", "module root to instrument")
	out := flag.String("out", "", "output directory")
	modPrefix := flag.String("prefix", "github.com/gr33nbl00d/caddy-revocation-validator", "import path prefix of packages whose state gets access hooks")
	hooks := flag.Bool("hooks", true, "insert R/W access hooks")
	exportsDir := flag.String("exports", "", "directory with per-package zz_verif_export.go templates (mirrors the package tree)")
	copyMode := flag.Bool("copy", false, "write a complete instrumented copy of the tree (for `replace`) instead of an overlay")
	flag.Parse()
	if *out == "" {
		fmt.Fprintln(os.Stderr, "vinst: -out required")
		os.Exit(2)
	}
	if err := run(*root, *out, *modPrefix, *hooks, *exportsDir, *copyMode); err != nil {
		fmt.Fprintln(os.Stderr, "vinst:", err)
		os.Exit(2)
	}
}

type inst struct {
	fset      *token.FileSet
	info      *types.Info
	pkg       *types.Package
	prefix    string
	hooks     bool
	st        *stats
	sites     *[]string
	needSched bool
	curFunc   string
	fileBase  string
	rangeTypes map[*ast.RangeStmt]types.Type
}

func run(root, out, prefix string, hooks bool, exportsDir string, copyMode bool) error {
	root, _ = filepath.Abs(root)
	cfg := &packages.Config{
		Mode: packages.NeedName | packages.NeedFiles | packages.NeedCompiledGoFiles | packages.NeedSyntax |
			packages.NeedTypes | packages.NeedTypesInfo | packages.NeedImports | packages.NeedModule,
		Dir:   root,
		Tests: false,
		Env:   append(os.Environ(), "GOFLAGS=-mod=mod", "GOPROXY=off", "GOSUMDB=off", "GOTOOLCHAIN=local"),
	}
	pkgs, err := packages.Load(cfg, "./...")
	if err != nil {
		return err
	}
	var st stats
	var sites []string
	overlay := map[string]string{}
	h := sha256.New()
	sort.Slice(pkgs, func(i, j int) bool { return pkgs[i].PkgPath < pkgs[j].PkgPath })
	for _, p := range pkgs {
		if len(p.Errors) > 0 {
			return fmt.Errorf("package %s does not type-check: %v", p.PkgPath, p.Errors[0])
		}
		if len(p.Syntax) == 0 {
			continue
		}
		st.Packages = append(st.Packages, p.PkgPath)
		base := len(sites)
		var pkgSites []string
		for i, f := range p.Syntax {
			fn := p.CompiledGoFiles[i]
			src, _ := os.ReadFile(fn)
			h.Write([]byte(fn))
			h.Write(src)
			in := &inst{fset: p.Fset, info: p.TypesInfo, pkg: p.Types, prefix: prefix, hooks: hooks, st: &st, sites: &pkgSites, fileBase: filepath.Base(fn)}
			in.siteBase(base)
			in.file(f)
			f.Comments = nil
			// package-level variables: a generated init registers a function which puts them back to their initial
			// values, so that every execution of the explorer starts from the state a fresh process has - whatever
			// package-level state the tree under test keeps (the harness does not have to know the variables by name)
			reset := globalsReset(p.Fset, f)
			if reset != "" && !in.needSched {
				addImport(f, "vsched", schedPath)
			}
			var buf bytes.Buffer
			if err := printer.Fprint(&buf, p.Fset, f); err != nil {
				return err
			}
			if reset != "" {
				rel, _ := filepath.Rel(root, fn)
				fmt.Fprintf(&buf, "\nfunc init() {\n\tvsched.RegisterGlobalReset(%q, func() {\n%s\t})\n}\n", rel, reset)
				st.GlobalResets++
			}
			rel, _ := filepath.Rel(root, fn)
			dst := filepath.Join(out, rel)
			os.MkdirAll(filepath.Dir(dst), 0755)
			if err := os.WriteFile(dst, buf.Bytes(), 0644); err != nil {
				return err
			}
			overlay[fn] = dst
			st.Files++
		}
		sites = append(sites, pkgSites...)
		// per-package generated file: site table + (optional) export template
		if len(p.CompiledGoFiles) > 0 {
			dir := filepath.Dir(p.CompiledGoFiles[0])
			rel, _ := filepath.Rel(root, dir)
			if len(pkgSites) > 0 {
				var sb strings.Builder
				fmt.Fprintf(&sb, "package %s\n\nimport vschedSites %q\n\nfunc init() {\n\tvschedSites.RegisterSitesAt(%d, []string{\n", p.Name, schedPath, base)
				for _, s := range pkgSites {
					fmt.Fprintf(&sb, "\t\t%q,\n", s)
				}
				sb.WriteString("\t})\n}\n")
				dst := filepath.Join(out, rel, "zz_verif_sites.go")
				os.MkdirAll(filepath.Dir(dst), 0755)
				os.WriteFile(dst, []byte(sb.String()), 0644)
				overlay[filepath.Join(dir, "zz_verif_sites.go")] = dst
			}
			if exportsDir != "" {
				tmpl := filepath.Join(exportsDir, rel, "zz_verif_export.go")
				if b, err := os.ReadFile(tmpl); err == nil {
					dst := filepath.Join(out, rel, "zz_verif_export.go")
					os.MkdirAll(filepath.Dir(dst), 0755)
					os.WriteFile(dst, b, 0644)
					overlay[filepath.Join(dir, "zz_verif_export.go")] = dst
				}
			}
		}
	}
	st.SourceDigest = hex.EncodeToString(h.Sum(nil))
	if copyMode {
		// complete the copy with go.mod etc.
		for _, name := range []string{"go.mod", "go.sum", "LICENSE.txt"} {
			if b, err := os.ReadFile(filepath.Join(root, name)); err == nil {
				os.WriteFile(filepath.Join(out, name), b, 0644)
			}
		}
	}
	ov, _ := json.MarshalIndent(map[string]interface{}{"Replace": overlay}, "", " ")
	if err := os.WriteFile(filepath.Join(out, "overlay.json"), ov, 0644); err != nil {
		return err
	}
	sb, _ := json.MarshalIndent(st, "", " ")
	return os.WriteFile(filepath.Join(out, "vinst_stats.json"), sb, 0644)
}

var siteBaseN int

func (in *inst) siteBase(b int) { siteBaseN = b }

// globalsReset renders the assignments which give the file's package-level variables their initial values again.
func globalsReset(fset *token.FileSet, f *ast.File) string {
	var sb strings.Builder
	render := func(n ast.Node) string {
		var b bytes.Buffer
		printer.Fprint(&b, fset, n)
		return b.String()
	}
	for _, d := range f.Decls {
		gd, ok := d.(*ast.GenDecl)
		if !ok || gd.Tok != token.VAR {
			continue
		}
		for _, sp := range gd.Specs {
			vs := sp.(*ast.ValueSpec)
			var names []string
			blank := false
			for _, n := range vs.Names {
				if n.Name == "_" {
					blank = true
				}
				names = append(names, n.Name)
			}
			switch {
			case blank && len(vs.Names) == 1:
				// nothing to reset
			case len(vs.Values) == 0:
				for _, n := range vs.Names {
					if n.Name != "_" {
						fmt.Fprintf(&sb, "\t\t%s = *new(%s)\n", n.Name, render(vs.Type))
					}
				}
			default:
				var vals []string
				for _, v := range vs.Values {
					vals = append(vals, render(v))
				}
				fmt.Fprintf(&sb, "\t\t%s = %s\n", strings.Join(names, ", "), strings.Join(vals, ", "))
			}
		}
	}
	return sb.String()
}

func (in *inst) site(field string, pos token.Pos) int {
	p := in.fset.Position(pos)
	name := fmt.Sprintf("%s.%s|%s|%s:%d", in.pkg.Name(), in.curFunc, field, in.fileBase, p.Line)
	*in.sites = append(*in.sites, name)
	return siteBaseN + len(*in.sites) - 1
}

func (in *inst) file(f *ast.File) {
	// 1. import swap
	for _, imp := range f.Imports {
		p, _ := strconv.Unquote(imp.Path.Value)
		if sw, ok := swaps[p]; ok {
			imp.Path.Value = strconv.Quote(sw.path)
			if imp.Name == nil {
				imp.Name = ast.NewIdent(sw.name)
			}
			in.st.ImportSwaps++
		}
	}
	// 2. statements and expressions, function by function (for site names)
	for _, d := range f.Decls {
		fd, ok := d.(*ast.FuncDecl)
		if !ok {
			in.curFunc = "init"
			in.rewrite(d)
			continue
		}
		in.curFunc = fd.Name.Name
		if fd.Recv != nil && len(fd.Recv.List) > 0 {
			in.curFunc = recvName(fd.Recv.List[0].Type) + "." + fd.Name.Name
		}
		in.rewrite(fd)
	}
	if in.needSched {
		addImport(f, "vsched", schedPath)
	}
}

func recvName(e ast.Expr) string {
	switch t := e.(type) {
	case *ast.StarExpr:
		return recvName(t.X)
	case *ast.Ident:
		return t.Name
	case *ast.IndexExpr:
		return recvName(t.X)
	}
	return "?"
}

func addImport(f *ast.File, name, path string) {
	spec := &ast.ImportSpec{Name: ast.NewIdent(name), Path: &ast.BasicLit{Kind: token.STRING, Value: strconv.Quote(path)}}
	for _, d := range f.Decls {
		if gd, ok := d.(*ast.GenDecl); ok && gd.Tok == token.IMPORT {
			gd.Specs = append(gd.Specs, spec)
			if !gd.Lparen.IsValid() {
				gd.Lparen = gd.Pos()
				gd.Rparen = gd.End()
			}
			f.Imports = append(f.Imports, spec)
			return
		}
	}
	gd := &ast.GenDecl{Tok: token.IMPORT, Specs: []ast.Spec{spec}}
	f.Decls = append([]ast.Decl{gd}, f.Decls...)
	f.Imports = append(f.Imports, spec)
}

func sched(fn string) ast.Expr {
	return &ast.SelectorExpr{X: ast.NewIdent("vsched"), Sel: ast.NewIdent(fn)}
}

func (in *inst) rewrite(root ast.Node) {
	if in.rangeTypes == nil {
		in.rangeTypes = map[*ast.RangeStmt]types.Type{}
	}
	ast.Inspect(root, func(n ast.Node) bool {
		switch s := n.(type) {
		case *ast.RangeStmt:
			if t := in.info.TypeOf(s.X); t != nil {
				in.rangeTypes[s] = t
			}
		case *ast.AssignStmt:
			for _, l := range s.Lhs {
				if ix, ok := l.(*ast.IndexExpr); ok {
					writtenIndex[ix] = true
				}
			}
		case *ast.IncDecStmt:
			if ix, ok := s.X.(*ast.IndexExpr); ok {
				writtenIndex[ix] = true
			}
		}
		return true
	})
	astutil.Apply(root, func(c *astutil.Cursor) bool {
		// pre-order: decide access hooks while parents are still original
		switch n := c.Node().(type) {
		case *ast.SelectorExpr, *ast.Ident:
			if in.hooks {
				if e, ok := n.(ast.Expr); ok {
					if repl := in.accessHook(e, c); repl != nil {
						c.Replace(repl)
						return false // do not descend into the replaced subtree's own selector again
					}
				}
			}
		}
		return true
	}, func(c *astutil.Cursor) bool {
		switch n := c.Node().(type) {
		case *ast.GoStmt:
			c.Replace(in.goStmt(n))
		case *ast.SelectStmt:
			if r := in.selectStmt(n); r != nil {
				c.Replace(r)
			}
		case *ast.ExprStmt:
			if u, ok := n.X.(*ast.UnaryExpr); ok && u.Op == token.ARROW {
				in.needSched = true
				in.st.Recvs++
				n.X = &ast.CallExpr{Fun: sched("Select"), Args: []ast.Expr{ast.NewIdent("false"), u.X}}
			}
		case *ast.UnaryExpr:
			if n.Op == token.ARROW {
				if _, isStmt := c.Parent().(*ast.ExprStmt); !isStmt {
					// a receive whose value is used: `v := <-ch`, `v, ok := <-ch`, `f(<-ch)`
					in.needSched = true
					in.st.Recvs++
					fn := "Recv1"
					switch p := c.Parent().(type) {
					case *ast.AssignStmt:
						if len(p.Lhs) == 2 && len(p.Rhs) == 1 {
							fn = "Recv2"
						}
					case *ast.ValueSpec:
						if len(p.Names) == 2 && len(p.Values) == 1 {
							fn = "Recv2"
						}
					}
					c.Replace(&ast.CallExpr{Fun: sched(fn), Args: []ast.Expr{n.X}})
				}
			}
		case *ast.SendStmt:
			in.needSched = true
			in.st.Sends++
			c.Replace(&ast.ExprStmt{X: &ast.CallExpr{Fun: sched("SendT"), Args: []ast.Expr{n.Chan, n.Value}}})
		case *ast.RangeStmt:
			if t := in.rangeTypes[n]; t != nil {
				if _, ok := t.Underlying().(*types.Chan); ok {
					// for x := range ch {B}  =>  for { x, vrangeOk := vsched.Recv2(ch); if !vrangeOk {break}; B }
					in.needSched = true
					in.st.Recvs++
					var lhs ast.Expr = ast.NewIdent("_")
					tok := token.DEFINE
					if n.Key != nil {
						lhs = n.Key
						if n.Tok == token.ASSIGN {
							tok = token.ASSIGN
						}
					}
					okId := ast.NewIdent("vrangeOk")
					var recv ast.Stmt
					if tok == token.ASSIGN {
						recv = &ast.BlockStmt{List: []ast.Stmt{
							&ast.DeclStmt{Decl: &ast.GenDecl{Tok: token.VAR, Specs: []ast.Spec{&ast.ValueSpec{Names: []*ast.Ident{okId}, Type: ast.NewIdent("bool")}}}},
						}}
					}
					call := &ast.CallExpr{Fun: sched("Recv2"), Args: []ast.Expr{n.X}}
					var pre []ast.Stmt
					if recv != nil {
						pre = append(pre, recv.(*ast.BlockStmt).List...)
						pre = append(pre, &ast.AssignStmt{Lhs: []ast.Expr{lhs, okId}, Tok: token.ASSIGN, Rhs: []ast.Expr{call}})
					} else {
						pre = append(pre, &ast.AssignStmt{Lhs: []ast.Expr{lhs, okId}, Tok: token.DEFINE, Rhs: []ast.Expr{call}})
					}
					pre = append(pre, &ast.IfStmt{Cond: &ast.UnaryExpr{Op: token.NOT, X: okId}, Body: &ast.BlockStmt{List: []ast.Stmt{&ast.BranchStmt{Tok: token.BREAK}}}})
					c.Replace(&ast.ForStmt{Body: &ast.BlockStmt{List: append(pre, n.Body.List...)}})
					return true
				}
				if _, ok := t.Underlying().(*types.Map); ok {
					in.rangeMap(n)
				}
			}
		case *ast.CallExpr:
			if id, ok := n.Fun.(*ast.Ident); ok && id.Name == "close" && len(n.Args) == 1 {
				if _, isBuiltin := in.info.Uses[id].(*types.Builtin); isBuiltin {
					in.needSched = true
					in.st.Closes++
					n.Fun = sched("Close")
				}
			}
		}
		return true
	})
}

// rangeMap makes map iteration order deterministic (sorted by the printed
// key): `for k, v := range m {B}` => `for _, k := range vsched.RangeKeys(m) {
// v, ok := m[k]; if !ok {continue}; B }`. Any order is a legal Go execution.
func (in *inst) rangeMap(r *ast.RangeStmt) {
	if r.Tok != token.DEFINE && r.Key != nil {
		in.st.Uninstrumented = append(in.st.Uninstrumented, "range-map-assign@"+in.fset.Position(r.Pos()).String())
		return
	}
	in.needSched = true
	in.st.MapRanges++
	m := r.X
	key := ast.NewIdent("vrangeKey")
	if id, ok := r.Key.(*ast.Ident); ok && id.Name != "_" {
		key = id
	}
	okId := ast.NewIdent("vrangeOk")
	var val ast.Expr = ast.NewIdent("_")
	if id, ok := r.Value.(*ast.Ident); ok && id.Name != "_" {
		val = id
	}
	fetch := &ast.AssignStmt{Lhs: []ast.Expr{val, okId}, Tok: token.DEFINE, Rhs: []ast.Expr{&ast.IndexExpr{X: m, Index: key}}}
	skip := &ast.IfStmt{Cond: &ast.UnaryExpr{Op: token.NOT, X: okId}, Body: &ast.BlockStmt{List: []ast.Stmt{&ast.BranchStmt{Tok: token.CONTINUE}}}}
	r.Body.List = append([]ast.Stmt{fetch, skip}, r.Body.List...)
	r.Key = ast.NewIdent("_")
	r.Value = key
	r.Tok = token.DEFINE
	r.X = &ast.CallExpr{Fun: sched("RangeKeys"), Args: []ast.Expr{m}}
}

// goStmt: `go f(a, b)` => { a0 := a; vsched.Go(func() { f(a0, b) }) } with
// temporaries only for non-constant, non-trivial arguments.
func (in *inst) goStmt(g *ast.GoStmt) ast.Stmt {
	in.needSched = true
	in.st.GoStmts++
	call := g.Call
	var pre []ast.Stmt
	for i, a := range call.Args {
		if tv, ok := in.info.Types[a]; ok && tv.Value != nil {
			continue // constant
		}
		if id, ok := a.(*ast.Ident); ok && (id.Name == "nil" || id.Name == "true" || id.Name == "false") {
			continue
		}
		if call.Ellipsis.IsValid() && i == len(call.Args)-1 {
			// keep variadic spread argument in a temporary as well
		}
		tmp := ast.NewIdent(fmt.Sprintf("vgoArg%d", i))
		pre = append(pre, &ast.AssignStmt{Lhs: []ast.Expr{tmp}, Tok: token.DEFINE, Rhs: []ast.Expr{a}})
		call.Args[i] = tmp
	}
	// receiver / function value: evaluate now when it is not a plain identifier chain or func literal
	fn := &ast.FuncLit{Type: &ast.FuncType{Params: &ast.FieldList{}}, Body: &ast.BlockStmt{List: []ast.Stmt{&ast.ExprStmt{X: call}}}}
	spawn := &ast.ExprStmt{X: &ast.CallExpr{Fun: sched("Go"), Args: []ast.Expr{fn}}}
	if len(pre) == 0 {
		return spawn
	}
	return &ast.BlockStmt{List: append(pre, spawn)}
}

// selectStmt rewrites a select into a switch over vsched.Select. Cases: plain receives `case <-ch:`, receives which
// keep the value `case v := <-ch:` / `case v, ok := <-ch:`, sends `case ch <- x:`, and default. (The operands have
// been rewritten by the time the select is visited: a receive statement is a vsched.Select call, a receive expression
// a vsched.Recv1 / Recv2 call, a send statement a vsched.SendT call.)
func (in *inst) selectStmt(s *ast.SelectStmt) ast.Stmt {
	var chans []ast.Expr
	hasDefault := false
	needVals := false
	type cl struct {
		idx  int
		body []ast.Stmt
	}
	isSched := func(e ast.Expr, name string) (*ast.CallExpr, bool) {
		call, ok := e.(*ast.CallExpr)
		if !ok {
			return nil, false
		}
		sel, ok := call.Fun.(*ast.SelectorExpr)
		if !ok {
			return nil, false
		}
		x, ok := sel.X.(*ast.Ident)
		return call, ok && x.Name == "vsched" && sel.Sel.Name == name
	}
	var clauses []cl
	for _, st := range s.Body.List {
		cc := st.(*ast.CommClause)
		if cc.Comm == nil {
			hasDefault = true
			clauses = append(clauses, cl{-1, cc.Body})
			continue
		}
		body := cc.Body
		var arg ast.Expr
		switch comm := cc.Comm.(type) {
		case *ast.ExprStmt:
			switch x := comm.X.(type) {
			case *ast.UnaryExpr:
				if x.Op != token.ARROW {
					return nil
				}
				arg = x.X
			case *ast.CallExpr:
				if call, ok := isSched(x, "Select"); ok && len(call.Args) == 2 {
					// already rewritten receive statement: vsched.Select(false, ch)
					arg = call.Args[1]
					in.st.Recvs--
				} else if call, ok := isSched(x, "SendT"); ok && len(call.Args) == 2 {
					arg = &ast.CompositeLit{Type: sched("SendCase"), Elts: []ast.Expr{
						&ast.KeyValueExpr{Key: ast.NewIdent("Ch"), Value: call.Args[0]},
						&ast.KeyValueExpr{Key: ast.NewIdent("V"), Value: call.Args[1]}}}
					in.st.Sends--
				} else {
					in.st.Uninstrumented = append(in.st.Uninstrumented, "select-case@"+in.fset.Position(cc.Pos()).String())
					return nil
				}
			default:
				in.st.Uninstrumented = append(in.st.Uninstrumented, "select-case@"+in.fset.Position(cc.Pos()).String())
				return nil
			}
		case *ast.AssignStmt:
			// case v := <-ch  /  case v, ok := <-ch   (the receive is a vsched.Recv1 / Recv2 call by now)
			if len(comm.Rhs) != 1 {
				return nil
			}
			call, ok := isSched(comm.Rhs[0], "Recv1")
			if !ok {
				call, ok = isSched(comm.Rhs[0], "Recv2")
			}
			if !ok || len(call.Args) != 1 {
				in.st.Uninstrumented = append(in.st.Uninstrumented, "select-case@"+in.fset.Position(cc.Pos()).String())
				return nil
			}
			in.st.Recvs--
			arg = call.Args[0]
			needVals = true
			var pre []ast.Stmt
			val := &ast.CallExpr{Fun: sched("ValOf"), Args: []ast.Expr{call.Args[0], ast.NewIdent("vselVal")}}
			pre = append(pre, &ast.AssignStmt{Lhs: []ast.Expr{ast.NewIdent("_")}, Tok: token.ASSIGN, Rhs: []ast.Expr{ast.NewIdent("vselOk")}})
			pre = append(pre, &ast.AssignStmt{Lhs: []ast.Expr{comm.Lhs[0]}, Tok: comm.Tok, Rhs: []ast.Expr{val}})
			if id, ok := comm.Lhs[0].(*ast.Ident); ok && comm.Tok == token.DEFINE && id.Name != "_" {
				pre = append(pre, &ast.AssignStmt{Lhs: []ast.Expr{ast.NewIdent("_")}, Tok: token.ASSIGN, Rhs: []ast.Expr{ast.NewIdent(id.Name)}})
			}
			if len(comm.Lhs) == 2 {
				pre = append(pre, &ast.AssignStmt{Lhs: []ast.Expr{comm.Lhs[1]}, Tok: comm.Tok, Rhs: []ast.Expr{ast.NewIdent("vselOk")}})
				if id, ok := comm.Lhs[1].(*ast.Ident); ok && comm.Tok == token.DEFINE && id.Name != "_" {
					pre = append(pre, &ast.AssignStmt{Lhs: []ast.Expr{ast.NewIdent("_")}, Tok: token.ASSIGN, Rhs: []ast.Expr{ast.NewIdent(id.Name)}})
				}
			}
			body = append(pre, body...)
		default:
			in.st.Uninstrumented = append(in.st.Uninstrumented, "select-case@"+in.fset.Position(cc.Pos()).String())
			return nil
		}
		clauses = append(clauses, cl{len(chans), body})
		chans = append(chans, arg)
	}
	in.needSched = true
	in.st.Selects++
	def := "false"
	if hasDefault {
		def = "true"
	}
	args := append([]ast.Expr{ast.NewIdent(def)}, chans...)
	idx := ast.NewIdent("vselIdx")
	lhs := []ast.Expr{idx, ast.NewIdent("_"), ast.NewIdent("_")}
	if needVals {
		lhs = []ast.Expr{idx, ast.NewIdent("vselVal"), ast.NewIdent("vselOk")}
	}
	assign := &ast.AssignStmt{Lhs: lhs, Tok: token.DEFINE, Rhs: []ast.Expr{&ast.CallExpr{Fun: sched("Select"), Args: args}}}
	sw := &ast.SwitchStmt{Init: assign, Tag: idx, Body: &ast.BlockStmt{}}
	// a select is a terminating statement when all its cases are; the switch is one when it also has a default clause
	for _, c := range clauses {
		if c.idx == -1 {
			sw.Body.List = append(sw.Body.List, &ast.CaseClause{List: nil, Body: c.body})
			continue
		}
		sw.Body.List = append(sw.Body.List, &ast.CaseClause{
			List: []ast.Expr{&ast.BasicLit{Kind: token.INT, Value: strconv.Itoa(c.idx)}},
			Body: c.body,
		})
	}
	if !hasDefault {
		sw.Body.List = append(sw.Body.List, &ast.CaseClause{List: nil, Body: []ast.Stmt{&ast.ExprStmt{X: &ast.CallExpr{Fun: ast.NewIdent("panic"),
			Args: []ast.Expr{&ast.BasicLit{Kind: token.STRING, Value: `"vsched: select returned no case"`}}}}}})
	}
	// break inside a select case leaves the select; inside the switch it leaves the switch: same meaning.
	return sw
}

// ---------------------------------------------------------------- access hooks

func (in *inst) ours(pkg *types.Package) bool {
	return pkg != nil && (pkg.Path() == in.prefix || strings.HasPrefix(pkg.Path(), in.prefix+"/"))
}

// accessHook returns a replacement for expression e (a selector or identifier
// denoting shared state) or nil.
func (in *inst) accessHook(e ast.Expr, c *astutil.Cursor) ast.Expr {
	var name string
	switch x := e.(type) {
	case *ast.SelectorExpr:
		sel := in.info.Selections[x]
		if sel == nil || sel.Kind() != types.FieldVal {
			return nil
		}
		v, ok := sel.Obj().(*types.Var)
		if !ok || !v.IsField() || !in.ours(v.Pkg()) {
			return nil
		}
		if len(sel.Index()) != 1 {
			return nil // promoted through embedding: leave alone
		}
		name = typeName(sel.Recv()) + "." + v.Name()
	case *ast.Ident:
		// package-level variable of one of our packages (use, not definition)
		obj := in.info.Uses[x]
		v, ok := obj.(*types.Var)
		if !ok || v.IsField() || !in.ours(v.Pkg()) || v.Parent() != v.Pkg().Scope() {
			return nil
		}
		// the Sel part of a qualified identifier pkg.Var is visited as Ident too: handle at the selector level instead
		if p, ok := c.Parent().(*ast.SelectorExpr); ok && p.Sel == x {
			return nil
		}
		name = v.Pkg().Name() + "." + v.Name()
	default:
		return nil
	}
	tv, ok := in.info.Types[e]
	if !ok || !tv.Addressable() {
		return nil
	}
	typ := tv.Type
	write := false
	switch p := c.Parent().(type) {
	case *ast.AssignStmt:
		for _, l := range p.Lhs {
			if l == e {
				write = true
			}
		}
		if write && p.Tok == token.DEFINE {
			return nil
		}
	case *ast.IncDecStmt:
		if p.X == e {
			write = true
		}
	case *ast.UnaryExpr:
		if p.Op == token.AND {
			return nil // address taken: no access here
		}
	case *ast.SelectorExpr:
		if p.X == e && isValueAggregate(typ) {
			if ps := in.info.Selections[p]; ps != nil {
				if ps.Kind() == types.FieldVal {
					return nil // value-typed struct followed by a further field selection: hook only the leaf
				}
				if fn, ok := ps.Obj().(*types.Func); ok {
					if sig, ok := fn.Type().(*types.Signature); ok && sig.Recv() != nil {
						if _, isPtr := sig.Recv().Type().(*types.Pointer); isPtr {
							return nil // pointer-receiver method on an addressable value: address taken, no access here
						}
					}
				}
			}
		}
	case *ast.IndexExpr:
		if p.X == e {
			if _, isMap := typ.Underlying().(*types.Map); isMap {
				// m[k] = v / m[k]++ : write to the map
				switch gp := c.Parent().(type) {
				case *ast.IndexExpr:
					_ = gp
				}
				if in.indexIsWritten(p) {
					write = true
				}
			} else if _, isArr := typ.Underlying().(*types.Array); isArr {
				return nil
			}
		}
	case *ast.CallExpr:
		// delete(m, k)
		if id, ok := p.Fun.(*ast.Ident); ok && id.Name == "delete" && len(p.Args) > 0 && p.Args[0] == e {
			write = true
		}
	case *ast.RangeStmt:
		if p.Key == e || p.Value == e {
			write = true
		}
	case *ast.KeyValueExpr:
		if p.Key == e {
			return nil
		}
	}
	in.needSched = true
	fn := "R"
	if write {
		fn = "W"
		in.st.WriteHooks++
	} else {
		in.st.ReadHooks++
	}
	site := in.site(name, e.Pos())
	call := &ast.CallExpr{Fun: sched(fn), Args: []ast.Expr{
		&ast.UnaryExpr{Op: token.AND, X: e},
		&ast.BasicLit{Kind: token.INT, Value: strconv.Itoa(site)},
	}}
	// the inner expression may itself contain hookable selectors (x.a.b where a is a pointer): instrument them
	if s, ok := e.(*ast.SelectorExpr); ok {
		s.X = in.rewriteInner(s.X)
	}
	return &ast.ParenExpr{X: &ast.StarExpr{X: call}}
}

// rewriteInner instruments the operand of an already hooked selector. A
// value-typed aggregate in the middle of a chain (a.b in a.b.c with b a struct
// value) is not an access of its own: only its own operand is processed.
func (in *inst) rewriteInner(x ast.Expr) ast.Expr {
	if tv, ok := in.info.Types[x]; ok && tv.Type != nil && isValueAggregate(tv.Type) {
		switch s := x.(type) {
		case *ast.SelectorExpr:
			if sel := in.info.Selections[s]; sel != nil && sel.Kind() == types.FieldVal {
				s.X = in.rewriteInner(s.X)
				return s
			}
		case *ast.Ident:
			return s
		}
	}
	return in.rewriteExpr(x)
}

func (in *inst) rewriteExpr(e ast.Expr) ast.Expr {
	holder := &ast.ParenExpr{X: e}
	in.rewrite(holder)
	return holder.X
}

// indexIsWritten reports whether the index expression is the target of an
// assignment / inc-dec (needs a look at the enclosing statement, which the
// cursor does not give us two levels up: record from a pre-pass).
var writtenIndex = map[*ast.IndexExpr]bool{}

func (in *inst) indexIsWritten(ix *ast.IndexExpr) bool { return writtenIndex[ix] }

func isValueAggregate(t types.Type) bool {
	switch t.Underlying().(type) {
	case *types.Struct, *types.Array:
		return true
	}
	return false
}

func typeName(t types.Type) string {
	for {
		if p, ok := t.(*types.Pointer); ok {
			t = p.Elem()
			continue
		}
		break
	}
	if n, ok := t.(*types.Named); ok {
		return n.Obj().Name()
	}
	return t.String()
}
