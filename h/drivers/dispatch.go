package drivers

import (
	"fmt"
	"os"
)

type entry func(tier string, args []string) int

var registry = map[string]entry{
	"C13":   RunC13,
	"BUILD": func(string, []string) int { return 0 },
}

var replayers = map[string]func(path string) int{}

func Dispatch(id, tier, replay string, args []string) int {
	if replay != "" {
		if r, ok := replayers[id]; ok {
			return r(replay)
		}
		fmt.Fprintf(os.Stderr, "no replayer for %s\n", id)
		return 2
	}
	f, ok := registry[id]
	if !ok {
		fmt.Fprintf(os.Stderr, "unknown property %s\n", id)
		return 2
	}
	return f(tier, args)
}
