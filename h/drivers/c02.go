package drivers

import (
	"bytes"
	"crypto/sha1"
	"crypto/x509"
	"crypto/x509/pkix"
	"encoding/asn1"
	"fmt"
	"math/big"
	"net/http"
	"strings"
	"time"

	xocsp "golang.org/x/crypto/ocsp"

	"verif/h/fw"
	"verif/h/rt/vsched"
	"verif/h/world"
)

var c02Behaviours = []string{"good", "revoked", "unknown", "http500", "refused", "html", "ldap", "https-good", "forged-good", "good-for-other-serial", "revoked-large",
	// an authentic "revoked" whose revocationTime lies 10 minutes ahead of the validator's clock (responder clock ahead,
	// post-dated revocation); a responder URL whose scheme is written in capitals (legal; the http client follows it)
	"revoked-post-dated", "revoked-scheme-in-capitals",
	// the responder named in the certificate has moved: it answers 307 / 308 and the authentic answer comes from the new address
	"revoked-via-307", "revoked-via-308",
	// a responder which takes 90 seconds (by the validator's clock) and then sends an error page: no answer, the next
	// responder is asked - however long this one took
	"slow-error-page"}

type c02Case struct {
	List     []int // behaviour index per responder position
	Strict   bool
	CacheDur time.Duration
	NextUpd  bool // nextUpdate = +1h
	Chain    int  // 0 same key type + AKI, 1 same type no AKI, 2 other key type + AKI, 3 other key type no AKI, 4 issuer certificate not among the chains
}

var c02ChainNames = []string{"same-keytype+AKI", "same-keytype-noAKI", "other-keytype+AKI", "other-keytype-noAKI", "issuer-not-in-chain", "two-candidates-by-name-wrong-one-first"}

func (c c02Case) String() string {
	var l []string
	for _, b := range c.List {
		l = append(l, c02Behaviours[b])
	}
	return fmt.Sprintf("responders=[%s] strict=%v cache=%v nextUpdate=%v chain=%s", strings.Join(l, ","), c.Strict, c.CacheDur, c.NextUpd, c02ChainNames[c.Chain])
}

func c02URL(i int, b int) string {
	switch c02Behaviours[b] {
	case "ldap":
		return fmt.Sprintf("ldap://dir.test/ocsp%d", i)
	case "https-good":
		return fmt.Sprintf("https://ocsp.test/s%d", i)
	case "revoked-scheme-in-capitals":
		return fmt.Sprintf("HTTP://ocsp.test/OCSP/Issuing-CA/S%d", i)
	}
	// (path and query of a responder address are case sensitive)
	return fmt.Sprintf("http://ocsp.test/OCSP/Issuing-CA/S%d?Key=Value", i)
}

// c02Route: the URL as the origin sees it (the http client lower-cases the scheme)
func c02Route(i int, b int) string {
	u := c02URL(i, b)
	if strings.HasPrefix(u, "HTTP://") {
		return "http://" + u[7:]
	}
	return u
}

// c02Ref is the boring reference: the first authentic answer in list order
// decides; none: strict && >=1 http(s) responder => deny, else accept.
// Returns verdict ("OK","REVOKED","ERR","ANY" for status unknown), whether an
// authentic answer exists and its status.
func c02Ref(c c02Case) (verdict string, answered bool) {
	httpN := 0
	for _, b := range c.List {
		switch c02Behaviours[b] {
		case "ldap":
			continue
		}
		httpN++
		switch c02Behaviours[b] {
		case "good", "https-good":
			return "OK", true
		case "revoked", "revoked-large", "revoked-post-dated", "revoked-scheme-in-capitals", "revoked-via-307", "revoked-via-308":
			return "REVOKED", true
		case "unknown":
			return "ANY", true
		}
	}
	if c.Strict && httpN > 0 {
		return "ERR", false
	}
	return "OK", false
}

func (c c02Case) lifetime() time.Duration {
	if c.NextUpd {
		return time.Hour + 15*time.Minute
	}
	return c.CacheDur
}

type c02Cast struct {
	p     *world.PKI
	leafs map[string]*world.Ident
}

func (k *c02Cast) leaf(c c02Case) (*world.Ident, *world.Ident) {
	var urls []string
	for i, b := range c.List {
		urls = append(urls, c02URL(i, b))
	}
	key := fmt.Sprintf("%v|%d", urls, c.Chain)
	ca := k.p.CA // EC issuing CA
	if l, ok := k.leafs[key]; ok {
		return l, ca
	}
	o := world.CertOpt{CN: "c02 client", Serial: big.NewInt(777), KeyKind: "ec", KeyIdx: 5, OCSP: urls}
	if c.Chain == 2 || c.Chain == 3 {
		o.KeyKind, o.KeyIdx = "rsa", 1
	}
	if c.Chain == 1 || c.Chain == 3 || c.Chain == 5 {
		o.NoAKI = true
	}
	l := world.Issue(ca, o)
	if o.NoAKI {
		l = world.WithoutExtension(l, ca, world.OIDAKI)
		if len(l.Cert.AuthorityKeyId) != 0 {
			panic("AKI still present")
		}
	}
	k.leafs[key] = l
	return l, ca
}

func (k *c02Cast) bulkyResponder(ca *world.Ident) *world.Ident {
	return world.Issue(ca, world.CertOpt{CN: "c02 delegated responder with a bulky certificate", Serial: big.NewInt(779), KeyKind: "ec", KeyIdx: 7,
		ExtKeyUsage: []x509.ExtKeyUsage{x509.ExtKeyUsageOCSPSigning}, ExtraExt: []pkix.Extension{world.UnknownExt(false, 5000)}})
}

func (k *c02Cast) unauthorised(ca *world.Ident) *world.Ident {
	return world.Issue(ca, world.CertOpt{CN: "c02 not a responder", Serial: big.NewInt(778), KeyKind: "ec", KeyIdx: 7})
}

func (k *c02Cast) run(c c02Case) (v0, v1, v2 Verdict, hits1, hits2 int) {
	leaf, ca := k.leaf(c)
	chain := world.Chain(leaf, ca, k.p.Root)
	if c.Chain == 4 {
		// no certificate of the presented chains is the issuer: no answer can be authenticated
		chain = world.Chain(leaf, k.p.OtherCA)
	}
	if c.Chain == 5 {
		// two verified chains (a re-keyed CA: same name, other key), the certificate has no authority key identifier: both
		// CA certificates are issuer candidates, the one which did not sign comes first. What the first candidate's
		// request yields says nothing about the second one's.
		chain = append(world.Chain(leaf, k.p.Sibling, k.p.Root), world.Chain(leaf, ca, k.p.Root)...)
	}
	seqWorld(func() {
		w := NewOW(c.Strict, c.CacheDur, nil, nil)
		// the responder of the CA knows which issuer it answers for: a request which names another issuer key gets the
		// OCSP error response "unauthorized" (RFC 6960 2.3), whatever the serial number
		var spki struct {
			Alg pkix.AlgorithmIdentifier
			Key asn1.BitString
		}
		asn1.Unmarshal(ca.Cert.RawSubjectPublicKeyInfo, &spki)
		caKeyHash := sha1.Sum(spki.Key.RightAlign())
		serve := func(url, label string, body []byte) {
			w.Net.Routes[url] = &world.Behaviour{Label: label, Fn: func(req *http.Request, reqBody []byte) (int, []byte, error) {
				if r, err := xocsp.ParseRequest(reqBody); err == nil && !bytes.Equal(r.IssuerKeyHash, caKeyHash[:]) {
					return 200, xocsp.UnauthorizedErrorResponse, nil
				}
				return 200, body, nil
			}}
		}
		// prelude: the same checker first sees a client of the re-keyed CA (same name as the issuer, other key) and gets
		// an authentic answer for it: whatever it learnt about "the issuer of that name" does not apply to this certificate
		const sibURL = "http://ocsp.test/rekeyed"
		sl := world.Issue(k.p.Sibling, world.CertOpt{CN: "c02 client of the re-keyed CA", Serial: big.NewInt(7770), KeyKind: "ec", KeyIdx: 5, OCSP: []string{sibURL}})
		w.Net.Serve(sibURL, "rekeyed-good", world.BuildOCSP(world.OCSPAnswer{Status: xocsp.Good, Serial: sl.Cert.SerialNumber, Issuer: k.p.Sibling, Signer: k.p.Sibling, ThisUpdate: vsched.Epoch.Add(-time.Minute)}))
		if v := w.Lookup(sl, world.Chain(sl, k.p.Sibling, k.p.Root)); v.String() != "OK" {
			panic("c02 prelude: " + v.String() + " " + v.Err)
		}
		// event 0: the certificate is presented while every responder is down (nothing of this may be remembered)
		for i, b := range c.List {
			w.Net.Down(c02Route(i, b))
		}
		v0 = w.Lookup(leaf, chain)
		w.Net.ResetHits()
		for i, b := range c.List {
			url := c02Route(i, b)
			ans := world.OCSPAnswer{Serial: leaf.Cert.SerialNumber, Issuer: ca, Signer: ca, ThisUpdate: vsched.Epoch.Add(-time.Minute)}
			if c.NextUpd {
				ans.NextUpdate = vsched.Epoch.Add(time.Hour)
			}
			switch c02Behaviours[b] {
			case "good", "https-good":
				ans.Status = xocsp.Good
				serve(url, "good", world.BuildOCSP(ans))
			case "revoked", "revoked-scheme-in-capitals":
				ans.Status = xocsp.Revoked
				serve(url, "revoked", world.BuildOCSP(ans))
			case "revoked-via-307", "revoked-via-308":
				ans.Status = xocsp.Revoked
				moved := fmt.Sprintf("http://ocsp-new.test/Responder%d", i)
				code := 307
				if c02Behaviours[b] == "revoked-via-308" {
					code = 308
				}
				w.Net.Routes[url] = &world.Behaviour{Label: "moved", Redirect: code, RedirectTo: moved}
				serve(moved, "revoked-at-new-address", world.BuildOCSP(ans))
			case "revoked-post-dated":
				ans.Status, ans.RevokedAt = xocsp.Revoked, vsched.Epoch.Add(10*time.Minute)
				serve(url, "revoked-post-dated", world.BuildOCSP(ans))
			case "unknown":
				ans.Status = xocsp.Unknown
				serve(url, "unknown", world.BuildOCSP(ans))
			case "http500":
				w.Net.Routes[url] = &world.Behaviour{Label: "http500", Status: 500, Body: []byte("internal server error \x00\x01\x02")}
			case "refused":
				w.Net.Down(url)
			case "html":
				w.Net.Serve(url, "html", []byte("<html><body>It works!</body></html>"))
			case "slow-error-page":
				w.Net.Routes[url] = &world.Behaviour{Label: "slow-error-page", Delay: 90 * time.Second, Status: 504, Body: []byte("<html><body>504 gateway timeout</body></html>")}
			case "forged-good":
				// a well-formed "good" for this serial, signed by a certificate the CA issued WITHOUT OCSP-signing authorisation
				ans.Status = xocsp.Good
				ans.Signer, ans.EmbedCert = k.unauthorised(ca), true
				w.Net.Serve(url, "forged-good", world.BuildOCSP(ans))
			case "revoked-large":
				// an authentic answer of about 6 KiB: signed by a delegated responder (OCSPSigning) whose embedded certificate
				// carries a bulky extension
				ans.Status = xocsp.Revoked
				ans.Signer, ans.EmbedCert = k.bulkyResponder(ca), true
				serve(url, "revoked-large", world.BuildOCSP(ans))
			case "good-for-other-serial":
				// an authentic, issuer-signed "good" - about a sibling certificate: no answer for the presented one
				ans.Status, ans.Serial = xocsp.Good, big.NewInt(778899)
				serve(url, "good-for-other-serial", world.BuildOCSP(ans))
			case "ldap":
				w.Net.Serve(url, "ldap", []byte("should never be asked"))
			}
		}
		v1 = w.Lookup(leaf, chain)
		hits1 = len(w.Net.Hits)
		for i, b := range c.List {
			w.Net.Down(c02Route(i, b))
		}
		w.Net.ResetHits()
		v2 = w.Lookup(leaf, chain)
		hits2 = len(w.Net.Hits)
		w.Chk.Cleanup()
	})
	return
}

// RunC02 is the entry point of the C02 check.
func RunC02(tier string, args []string) int {
	chk := fw.NewCheck("C02", tier, "exploration")
	chk.Assumptions = []string{
		"every case is the history: lookup with all responders down; responders behave as listed, lookup; all down again, lookup. Reference model: first authentic answer in AIA list order among http(s) responders decides; none => strict denies iff at least one http(s) responder is named; OCSP status 'unknown' is not judged (the statement leaves it open)",
		"second call with all responders down: either the cached first verdict (only if the reference lifetime is > 0) or the unavailability rule",
	}
	k := &c02Cast{p: world.Std(), leafs: map[string]*world.Ident{}}
	evals := 0
	outcomes := fw.NewDistinct()
	nontrivial := 0
	var samples []string
	judge := func(c c02Case) {
		evals++
		want, answered := c02Ref(c)
		v0, v1, v2, h1, h2 := k.run(c)
		got1, got2 := v1.String(), v2.String()
		outcomes.Add(fmt.Sprintf("ref=%s got=%s/%s", want, got1, got2))
		if len(c.List) > 0 {
			nontrivial++
		}
		if len(samples) < 3 && len(c.List) == 3 && evals%977 == 0 {
			samples = append(samples, fmt.Sprintf("%s => %s then %s (hits %d/%d)", c, got1, got2, h1, h2))
		}
		feat := func() string {
			// minimal features: deciding behaviour, strictness, chain shape
			first := "none"
			for _, b := range c.List {
				n := c02Behaviours[b]
				if n == "ldap" {
					continue
				}
				if n == "good" || n == "revoked" || n == "unknown" || n == "https-good" || n == "revoked-large" {
					first = n
					break
				}
			}
			return fmt.Sprintf("decider=%s strict=%v chain=%s", first, c.Strict, c02ChainNames[c.Chain])
		}
		if c.Chain == 4 {
			// without an issuer certificate nothing can be authenticated: strict (with an http(s) responder named) must
			// deny; the lenient outcome is left open by the statement (this is not responder unavailability)
			answered = false
			httpN := 0
			for _, b := range c.List {
				if c02Behaviours[b] != "ldap" {
					httpN++
				}
			}
			if c.Strict && httpN > 0 {
				want = "ERR"
			} else {
				want = "FREE"
			}
		}
		if v0.Panic != "" || v1.Panic != "" || v2.Panic != "" {
			chk.Violation("C02|panic|"+normaliseNumbers(firstLines(v0.Panic+v1.Panic+v2.Panic, 1)), "panic: "+v0.Panic+v1.Panic+v2.Panic+" ["+c.String()+"]", c)
			return
		}
		if want != "FREE" {
			// event 0 (all responders down): strict with an http(s) responder named denies, otherwise accepts
			httpN := 0
			for _, b := range c.List {
				if c02Behaviours[b] != "ldap" {
					httpN++
				}
			}
			w0 := "OK"
			if c.Strict && httpN > 0 {
				w0 = "ERR"
			}
			if got0 := v0.String(); got0 != w0 {
				chk.Violation("C02|call0|want="+w0+" got="+got0+"|"+feat(), fmt.Sprintf("lookup with every responder down: reference says %s, implementation %s (%s) [%s]", w0, got0, v0.Err, c), c)
				return
			}
		}
		// strict mode is specified one-directionally ("accepted only if ..."): a denial where the reference would
		// accept (or deny for another reason) is not a violation of the statement
		if c.Strict && got1 == "ERR" && want != "ANY" {
			want = "ERR"
		}
		if want == "FREE" {
			return
		}
		if want != "ANY" && got1 != want {
			chk.Violation("C02|call1|want="+want+" got="+got1+"|"+feat(), fmt.Sprintf("first lookup: reference says %s, implementation %s (%s) [%s]; transport hits %d", want, got1, v1.Err, c, h1), c)
			return
		}
		// second call, responders down
		unavailable := "OK"
		httpN := 0
		for _, b := range c.List {
			if c02Behaviours[b] != "ldap" {
				httpN++
			}
		}
		if c.Strict && httpN > 0 {
			unavailable = "ERR"
		}
		okSecond := got2 == unavailable
		if answered && c.lifetime() > 0 && got2 == got1 {
			okSecond = true
		}
		if want == "ANY" && (got2 == "OK" || got2 == "REVOKED" || got2 == unavailable) {
			okSecond = true
			if c.lifetime() == 0 && got2 != unavailable {
				okSecond = false
			}
		}
		if !okSecond {
			chk.Violation("C02|call2|first="+got1+" second="+got2+" unavailable-rule="+unavailable+fmt.Sprintf(" lifetime>0=%v", c.lifetime() > 0)+"|"+feat(),
				fmt.Sprintf("second lookup with all responders down returned %s (%s); allowed: %s%s [%s]", got2, v2.Err, unavailable, map[bool]string{true: " or the cached " + got1, false: ""}[answered && c.lifetime() > 0], c), c)
		}
	}
	nb := len(c02Behaviours)
	var lists [][]int
	lists = append(lists, []int{})
	for a := 0; a < nb; a++ {
		lists = append(lists, []int{a})
		for b := 0; b < nb; b++ {
			lists = append(lists, []int{a, b})
			for d := 0; d < nb; d++ {
				lists = append(lists, []int{a, b, d})
			}
		}
	}
	if tier == "thorough" {
		// lists of four responders (over the behaviours but the slow one, which the lists of up to three cover)
		nb := nb - 1
		if c02Behaviours[nb] != "slow-error-page" {
			panic("c02: the slow behaviour is expected to be the last one")
		}
		for a := 0; a < nb; a++ {
			for b := 0; b < nb; b++ {
				for d := 0; d < nb; d++ {
					for e := 0; e < nb; e++ {
						lists = append(lists, []int{a, b, d, e})
					}
				}
			}
		}
	}
	chains := []int{0, 1, 2, 3, 4, 5}
	nextUpds := []bool{false, true}
	if tier != "thorough" {
		chains = []int{0, 3, 4, 5}
		nextUpds = []bool{false}
	}
	for _, l := range lists {
		for _, strict := range []bool{true, false} {
			for _, dur := range []time.Duration{0, 10 * time.Minute} {
				for _, nu := range nextUpds {
					for _, ch := range chains {
						judge(c02Case{List: l, Strict: strict, CacheDur: dur, NextUpd: nu, Chain: ch})
					}
				}
			}
		}
	}
	if len(samples) == 0 {
		samples = []string{c02Case{List: []int{4, 1, 0}, Strict: true}.String()}
	}
	// all schedules (<= 2 preemptions) of two lookups on one checker next to the Cleanup of another: the revoked
	// certificate is reported revoked whatever the other lookup does with its own answer
	srep := exploreInProcess(chk, "C02", findScenario("s8-ocsp-lookups-vs-cleanup"), 2)
	fmt.Printf("  S %-40s execs=%d per-bound=%v outcomes=%v\n", srep.Scenario, srep.Executions, srep.PerBound, srep.Outcomes)
	srep2 := exploreInProcess(chk, "C02", ocspTwoPoliciesScenario("C02"), 2)
	fmt.Printf("  S %-40s execs=%d per-bound=%v outcomes=%v\n", srep2.Scenario, srep2.Executions, srep2.PerBound, srep2.Outcomes)
	cov := fw.Coverage{
		"schedule_scenario_2": srep2,
		"schedule_scenario":   srep,
		"evaluations":         evals,
		"distinct_nontrivial": nontrivial,
		"rule":                "all responder lists of length 0..3 (quick, 2380 lists) / 0..4 (thorough, 30941 lists) over 15 behaviours; every case starts with the lookup of a client of the re-keyed CA on the same checker; x aia_strict(2) x default cache duration {0,10m} x nextUpdate {absent,+1h} (thorough) x chain shape (4 quick / 6 thorough, incl. a chain which does not contain the issuer and two chains whose CA certificates share a name); each case is a history on a fresh checker: all responders down, lookup; responders as listed, lookup; all down, lookup. Non-trivial = at least one responder named.",
		"samples":             samples,
		"outcome_classes":     outcomes.Counts(),
		"exhaustive":          true,
	}
	return chk.Finish(cov)
}

func init() { registry["C02"] = RunC02 }

var _ x509.Certificate
