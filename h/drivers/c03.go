package drivers

import (
	"crypto/x509"
	"fmt"
	"math/big"
	"os"
	"path/filepath"
	"strings"
	"time"

	xocsp "golang.org/x/crypto/ocsp"

	"github.com/caddyserver/caddy/v2/caddyconfig/caddyfile"
	revocation "github.com/gr33nbl00d/caddy-revocation-validator"
	"github.com/gr33nbl00d/caddy-revocation-validator/config"

	"verif/h/fw"
	"verif/h/rt/vsched"
	"verif/h/world"
)

// C03: mode composition truth table on the real caddy module.

var c03Modes = []string{"", "prefer_ocsp", "prefer_crl", "ocsp_only", "crl_only", "disabled"}

// "revoked-by-second-responder-after-a-slow-first": the certificate names two responders; the first takes 90 seconds (by
// the validator's clock) and then sends an error page, the second says revoked at once
var c03OCSP = []string{"no-aia", "good", "revoked", "unavailable", "unusable-answer", "revoked-by-second-responder-after-a-slow-first"}
var c03CRL = []string{"none-known", "listed", "not-listed", "cdp-unavailable", "cdp-unavailable+listed-in-configured-file", "listed-in-configured-url"}
var c03Chains = []string{"leaf-ca", "leaf-sub-root", "two-chains"}

type c03Cell struct {
	Mode      string
	OCSP      string
	AIAStrict bool
	CRL       string
	CDPStrict bool
	Disk      bool
	Chain     string
	// Origin of the configuration: "" = the configuration structs are filled in directly (what JSON does),
	// "caddyfile" / "caddyfile-other-order" = the same settings written as Caddyfile text (options of every block in
	// the documented / in the reverse order) and loaded through UnmarshalCaddyfile
	Origin string
}

func (c c03Cell) String() string {
	m := c.Mode
	if m == "" {
		m = "(unset)"
	}
	o := ""
	if c.Origin != "" {
		o = " origin=" + c.Origin
	}
	return fmt.Sprintf("mode=%s ocsp=%s aia_strict=%v crl=%s cdp_strict=%v backend=%s chain=%s%s", m, c.OCSP, c.AIAStrict, c.CRL, c.CDPStrict, be(c.Disk), c.Chain, o)
}

const (
	c03OCSPURL = "http://ocsp.test/c03"
	c03CRLURL  = "http://crl.test/c03.crl"
	c03CfgURL  = "http://crl.test/c03-configured.crl"
)

type c03Cast struct {
	p     *world.PKI
	sub   *world.Ident // intermediate CA under p.CA for the 3-level chain
	leafs map[string]*world.Ident
}

func newC03Cast() *c03Cast {
	p := world.Std()
	c := &c03Cast{p: p, leafs: map[string]*world.Ident{}}
	c.sub = world.Issue(p.CA, world.CertOpt{CN: "verif sub CA", IsCA: true, KeyKind: "ec", KeyIdx: 6, Serial: big.NewInt(91)})
	return c
}

// issuer of the leaf for a chain shape
func (c *c03Cast) issuer(chain string) *world.Ident {
	if chain == "leaf-sub-root" {
		return c.sub
	}
	return c.p.CA
}

func (c *c03Cast) leaf(cell c03Cell) *world.Ident {
	var ocspURLs, cdp []string
	if cell.OCSP != "no-aia" {
		ocspURLs = []string{c03OCSPURL}
	}
	if cell.OCSP == "revoked-by-second-responder-after-a-slow-first" {
		ocspURLs = []string{c03OCSPURL + "-slow", c03OCSPURL}
	}
	if cell.CRL != "none-known" && cell.CRL != "listed-in-configured-url" {
		cdp = []string{c03CRLURL}
	}
	key := fmt.Sprintf("%v|%v|%s", ocspURLs, cdp, cell.Chain)
	if l, ok := c.leafs[key]; ok {
		return l
	}
	l := world.Issue(c.issuer(cell.Chain), world.CertOpt{CN: "c03 client", Serial: big.NewInt(401), KeyKind: "ec", KeyIdx: 5, OCSP: ocspURLs, CDP: cdp})
	c.leafs[key] = l
	return l
}

func (c *c03Cast) chains(cell c03Cell, leaf *world.Ident) [][]*x509.Certificate {
	switch cell.Chain {
	case "leaf-sub-root":
		return world.Chain(leaf, c.sub, c.p.CA, c.p.Root)
	case "two-chains":
		a := world.Chain(leaf, c.p.CA, c.p.Root)
		// second path: the same CA certificate reached through a cross root (same certs, other order is not possible; use CA directly as anchor)
		b := world.Chain(leaf, c.p.CA)
		return append(a, b...)
	}
	return world.Chain(leaf, c.p.CA)
}

type c03Obs struct {
	ProvisionErr string
	Verdict      Verdict
	OCSPHits     int
	CRLHits      int
	DirEntries   int
	CleanupErr   string
}

func (c *c03Cast) run(cell c03Cell) (o c03Obs) {
	seqWorld(func() {
		net := world.NewNet()
		leaf := c.leaf(cell)
		iss := c.issuer(cell.Chain)
		switch cell.OCSP {
		case "good", "revoked", "revoked-by-second-responder-after-a-slow-first":
			st := xocsp.Good
			if cell.OCSP != "good" {
				st = xocsp.Revoked
			}
			if cell.OCSP == "revoked-by-second-responder-after-a-slow-first" {
				net.Routes[c03OCSPURL+"-slow"] = &world.Behaviour{Label: "slow-error-page", Delay: 90 * time.Second, Status: 504, Body: []byte("<html><body>504 gateway timeout</body></html>")}
			}
			net.Serve(c03OCSPURL, cell.OCSP, world.BuildOCSP(world.OCSPAnswer{Status: st, Serial: leaf.Cert.SerialNumber, Issuer: iss, Signer: iss, ThisUpdate: vsched.Epoch.Add(-time.Minute)}))
		case "unusable-answer":
			// the responder is reachable and answers 200, but nothing that can be authenticated
			net.Serve(c03OCSPURL, "html", []byte("<html><body>maintenance</body></html>"))
		default:
			net.Down(c03OCSPURL)
		}
		switch cell.CRL {
		case "listed":
			net.Serve(c03CRLURL, "listed", world.SimpleCRL(iss, 1, 401, 450).DER())
		case "not-listed":
			net.Serve(c03CRLURL, "not-listed", world.SimpleCRL(iss, 1, 450).DER())
		default:
			net.Down(c03CRLURL)
		}
		files := FreshDir("c03f")
		defer os.RemoveAll(files)
		storage := "memory"
		if cell.Disk {
			storage = "disk"
		}
		dir := FreshDir("c03")
		defer os.RemoveAll(dir)
		opt := TWOpt{Mode: cell.Mode, Net: net,
			OCSP: &config.OCSPConfig{OCSPAIAStrict: cell.AIAStrict},
			CRL:  &config.CRLConfig{WorkDir: dir, StorageType: storage, CDPConfig: &config.CDPConfig{CRLCDPStrict: cell.CDPStrict}},
		}
		if cell.CRL == "cdp-unavailable+listed-in-configured-file" {
			f := filepath.Join(files, "configured.crl")
			os.WriteFile(f, world.SimpleCRL(iss, 1, 401).DER(), 0644)
			opt.CRL.CRLFiles = []string{f}
			opt.CRL.TrustedSignatureCertsFiles = []string{WritePEM(files, "iss.pem", iss.Cert)}
		}
		if cell.CRL == "listed-in-configured-url" {
			net.Serve(c03CfgURL, "configured", world.SimpleCRL(iss, 1, 401).DER())
			opt.CRL.CRLUrls = []string{c03CfgURL}
			opt.CRL.TrustedSignatureCertsFiles = []string{WritePEM(files, "iss.pem", iss.Cert)}
		}
		if (cell.Mode == "disabled" || cell.Mode == "ocsp_only") && cell.CRL != "cdp-unavailable+listed-in-configured-file" && cell.CRL != "listed-in-configured-url" {
			opt.CRL = nil // these modes must work without any crl_config
		}
		w := NewTW(opt)
		if cell.Origin != "" {
			text := c03Caddyfile(opt, cell.Origin == "caddyfile-other-order")
			v := &revocation.CertRevocationValidator{}
			if err := v.UnmarshalCaddyfile(caddyfile.NewTestDispenser(text)); err != nil {
				o.ProvisionErr = "UnmarshalCaddyfile: " + err.Error() + "\n" + text
				return
			}
			w.V = v
		}
		if err := w.Provision(); err != nil {
			o.ProvisionErr = err.Error()
			return
		}
		vsched.Drain()
		o.Verdict = w.Handshake(c.chains(cell, leaf))
		vsched.Drain()
		o.OCSPHits = net.HitsFor(c03OCSPURL)
		o.CRLHits = net.HitsFor(c03CRLURL) + net.HitsFor(c03CfgURL)
		ents, _ := os.ReadDir(dir)
		o.DirEntries = len(ents)
		if err := w.Cleanup(); err != nil {
			o.CleanupErr = err.Error()
		}
	})
	return
}

// c03Caddyfile writes the settings of opt as Caddyfile text.
func c03Caddyfile(opt TWOpt, reverse bool) string {
	block := func(indent string, lines []string) string {
		if reverse {
			for i, j := 0, len(lines)-1; i < j; i, j = i+1, j-1 {
				lines[i], lines[j] = lines[j], lines[i]
			}
		}
		var sb strings.Builder
		for _, l := range lines {
			for _, ll := range strings.Split(l, "\n") {
				sb.WriteString(indent + ll + "\n")
			}
		}
		return sb.String()
	}
	var top []string
	if opt.Mode != "" {
		top = append(top, "mode "+opt.Mode)
	}
	if c := opt.CRL; c != nil {
		ls := []string{"work_dir " + c.WorkDir, "storage_type " + c.StorageType}
		for _, f := range c.CRLFiles {
			ls = append(ls, "crl_file "+f)
		}
		for _, u := range c.CRLUrls {
			ls = append(ls, "crl_url "+u)
		}
		for _, f := range c.TrustedSignatureCertsFiles {
			ls = append(ls, "trusted_signature_cert_file "+f)
		}
		if c.CDPConfig != nil {
			cd := []string{"crl_fetch_mode fetch_actively", fmt.Sprintf("crl_cdp_strict %v", c.CDPConfig.CRLCDPStrict)}
			ls = append(ls, "cdp_config {\n"+block("\t", cd)+"}")
		}
		top = append(top, "crl_config {\n"+block("\t", ls)+"}")
	}
	if oc := opt.OCSP; oc != nil {
		top = append(top, "ocsp_config {\n"+block("\t", []string{fmt.Sprintf("ocsp_aia_strict %v", oc.OCSPAIAStrict)})+"}")
	}
	return "revocation {\n" + block("\t", top) + "}\n"
}

func c03Expect(cell c03Cell) (reject bool, ocspOn, crlOn bool) {
	mode := cell.Mode
	if mode == "" {
		mode = "prefer_ocsp"
	}
	ocspOn = mode == "prefer_ocsp" || mode == "prefer_crl" || mode == "ocsp_only"
	crlOn = mode == "prefer_ocsp" || mode == "prefer_crl" || mode == "crl_only"
	ocspBad := cell.OCSP == "revoked" || cell.OCSP == "revoked-by-second-responder-after-a-slow-first" || ((cell.OCSP == "unavailable" || cell.OCSP == "unusable-answer") && cell.AIAStrict)
	crlBad := cell.CRL == "listed" || cell.CRL == "cdp-unavailable+listed-in-configured-file" || cell.CRL == "listed-in-configured-url" || (cell.CRL == "cdp-unavailable" && cell.CDPStrict)
	reject = (ocspOn && ocspBad) || (crlOn && crlBad)
	return
}

// c03ChainOrigins: every chain shape with the configuration filled in directly, and the first chain shape with the
// configuration written as Caddyfile text (two option orders).
func c03ChainOrigins() [][2]string {
	var out [][2]string
	for _, ch := range c03Chains {
		out = append(out, [2]string{ch, ""})
	}
	out = append(out, [2]string{c03Chains[0], "caddyfile"}, [2]string{c03Chains[0], "caddyfile-other-order"})
	return out
}

// RunC03 is the entry point of the C03 check.
func RunC03(tier string, args []string) int {
	chk := fw.NewCheck("C03", tier, "model_checking")
	chk.Assumptions = []string{
		"finite truth table enumerated completely: mode(6) x OCSP outcome(6: no AIA, good, revoked, unreachable, reachable but unusable answer, revoked by the second responder after a first one which takes 90 s) x aia_strict(2) x CRL outcome(6: none known, listed, not listed, CDP unavailable, CDP unavailable + listed in a configured file, listed in a configured crl_url) x cdp_strict(2) x backend(2) x (chain shape(3) with the configuration structs filled in directly + the first chain shape with the same settings loaded from Caddyfile text in two option orders) = 8640 cells; each cell = fresh Provision -> one VerifyClientCertificate -> Cleanup on the real caddy module",
		"oracle: reject <=> (OCSP enabled and (revoked or, under aia_strict, no authentic answer)) or (CRL enabled and (listed or strict-unavailable)); side-effect monitors on the scripted origin and the work_dir",
		"empty verifiedChains are not judged (the TLS stack never passes them in require-and-verify mode)",
	}
	SilenceStderr()
	c := newC03Cast()
	cells := 0
	outcomes := fw.NewDistinct()
	table := map[string]string{}
	var samples []interface{}
	for _, mode := range c03Modes {
		for _, oc := range c03OCSP {
			for _, as := range []bool{false, true} {
				for _, cr := range c03CRL {
					for _, cs := range []bool{false, true} {
						for _, disk := range []bool{false, true} {
							for _, chor := range c03ChainOrigins() {
								ch := chor[0]
								cell := c03Cell{mode, oc, as, cr, cs, disk, ch, chor[1]}
								o := c.run(cell)
								cells++
								reject, ocspOn, crlOn := c03Expect(cell)
								got := o.Verdict.Rejected()
								modeName := mode
								if modeName == "" {
									modeName = "unset"
								}
								sig := fmt.Sprintf("mode=%s ocsp=%s aia_strict=%v crl=%s cdp_strict=%v", modeName, oc, as, cr, cs)
								outcomes.Add(fmt.Sprintf("%v/%v", reject, got))
								table[strings.Replace(cell.String(), "mode="+map[bool]string{true: "(unset)", false: mode}[mode == ""], "mode=*", 1)+"|"+modeName] = o.Verdict.String()
								if len(samples) < 4 && cells%997 == 0 {
									samples = append(samples, map[string]interface{}{"cell": cell.String(), "expected_reject": reject, "verdict": o.Verdict.String(), "ocsp_hits": o.OCSPHits, "crl_hits": o.CRLHits})
								}
								switch {
								case o.ProvisionErr != "":
									chk.Violation("C03|provision-error|"+sig, fmt.Sprintf("cell %s: Provision failed: %s", cell, o.ProvisionErr), cell)
									continue
								case o.Verdict.Panic != "":
									chk.Violation("C03|panic|"+sig, fmt.Sprintf("cell %s: panic: %s", cell, o.Verdict.Panic), cell)
									continue
								case got != reject:
									dir := "accepted-must-reject"
									if got {
										dir = "rejected-must-accept"
									}
									chk.Violation("C03|"+dir+"|"+sig, fmt.Sprintf("cell %s: handshake %s (%s %s), the truth table demands reject=%v", cell, o.Verdict, o.Verdict.Err, "", reject), cell)
								}
								if o.CleanupErr != "" {
									chk.Violation("C03|cleanup-error|mode="+modeName, fmt.Sprintf("cell %s: Cleanup failed: %s", cell, o.CleanupErr), cell)
								}
								// side-effect monitors
								if !ocspOn && o.OCSPHits > 0 {
									chk.Violation("C03|ocsp-contacted-though-disabled|mode="+modeName, fmt.Sprintf("cell %s: %d OCSP requests although the mode disables OCSP", cell, o.OCSPHits), cell)
								}
								if !crlOn && (o.CRLHits > 0 || o.DirEntries > 0) {
									chk.Violation("C03|crl-touched-though-disabled|mode="+modeName, fmt.Sprintf("cell %s: %d CRL fetches, %d work_dir entries although the mode disables CRL checking", cell, o.CRLHits, o.DirEntries), cell)
								}
							}
						}
					}
				}
			}
		}
	}
	// unset == prefer_ocsp and prefer_crl == prefer_ocsp, cell by cell
	for k, v := range table {
		if !strings.HasSuffix(k, "|prefer_ocsp") {
			continue
		}
		base := strings.TrimSuffix(k, "|prefer_ocsp")
		for _, other := range []string{"unset", "prefer_crl"} {
			if ov, ok := table[base+"|"+other]; ok && ov != v {
				chk.Violation("C03|mode-equivalence|"+other, fmt.Sprintf("mode %s differs from prefer_ocsp in cell %s: %s vs %s", other, base, ov, v), nil)
			}
		}
	}
	cov := fw.Coverage{
		"states":                        cells,
		"transitions":                   cells,
		"traces_validated_against_impl": cells,
		"cells":                         cells,
		"distinct_outcomes":             outcomes.Counts(),
		"samples":                       samples,
		"exhaustive":                    true,
	}
	return chk.Finish(cov)
}

func init() { registry["C03"] = RunC03 }
