package drivers

import (
	"crypto"
	"crypto/x509"
	"crypto/x509/pkix"
	"encoding/asn1"
	"fmt"
	"math/big"
	"os"
	"strings"
	"time"

	"go.uber.org/zap"

	"github.com/gr33nbl00d/caddy-revocation-validator/config"
	"github.com/gr33nbl00d/caddy-revocation-validator/core"
	"github.com/gr33nbl00d/caddy-revocation-validator/crl"
	"github.com/gr33nbl00d/caddy-revocation-validator/crl/crlrepository"
	"github.com/gr33nbl00d/caddy-revocation-validator/crl/crlstore"

	"verif/h/fw"
	"verif/h/rt/vsched"
	"verif/h/world"
)

// seqWorld runs body as the only driver thread of a fresh world with the
// deterministic default scheduler (spawned threads run when the driver drains).
func seqWorld(body func()) *vsched.Result {
	return vsched.Run(vsched.Config{Chooser: vsched.SeqChooser{}, NoRace: true, NoExplore: true}, func() {
		ResetGlobals()
		body()
	})
}

// RW is a repository-level world (no ticker): Repository + scripted origin.
type RW struct {
	Net  *world.Net
	Dir  string
	Cfg  *config.CRLConfig
	Repo *crlrepository.Repository
}

func NewRW(o CWOpt) *RW {
	cw := NewCW(o)
	st := crlstore.Map
	if o.Disk {
		st = crlstore.LevelDB
	}
	err, repo := crlrepository.NewCRLRepository(zap.NewNop(), cw.Cfg, st)
	if err != nil {
		panic(err)
	}
	return &RW{Net: cw.Net, Dir: cw.Dir, Cfg: cw.Cfg, Repo: repo}
}

func (w *RW) Close() {
	defer func() { recover() }()
	w.Repo.Close()
	os.RemoveAll(w.Dir)
}

func (w *RW) IsRevoked(cert *x509.Certificate, loc *core.CRLLocations) (v Verdict) {
	defer func() {
		if r := recover(); r != nil {
			v = Verdict{Panic: fmt.Sprint(r)}
		}
	}()
	st, err := w.Repo.IsRevoked(cert, loc)
	return mkVerdict(st, err)
}

// ---------------------------------------------------------------- C04 cast

type c04Signer struct {
	Name     string
	Entitled bool
	// build returns the issuing CA of the probe leaf, the chain presented, the
	// trusted signer list and the identity that signs the CRL.
	Make func(kind string) (issuer *world.Ident, chainExtra []*world.Ident, trusted []*x509.Certificate, signer *world.Ident)
}

func c04CA(kind string) *world.Ident {
	if kind == "rsa" {
		return world.Std().CARSA
	}
	return world.Std().CA
}

func c04Signers() []c04Signer {
	p := world.Std()
	kidx := func(kind string, i int) int { return i }
	_ = kidx
	return []c04Signer{
		{"issuing-CA", true, func(kind string) (*world.Ident, []*world.Ident, []*x509.Certificate, *world.Ident) {
			ca := c04CA(kind)
			return ca, []*world.Ident{ca, p.Root}, nil, ca
		}},
		{"trusted-signer", true, func(kind string) (*world.Ident, []*world.Ident, []*x509.Certificate, *world.Ident) {
			// the issuing CA is not in the presented chain; its certificate is configured as trusted signer
			ca := c04CA(kind)
			return ca, []*world.Ident{p.Root}, []*x509.Certificate{ca.Cert}, ca
		}},
		{"CA-without-keyusage", true, func(kind string) (*world.Ident, []*world.Ident, []*x509.Certificate, *world.Ident) {
			ca := world.Issue(p.Root, world.CertOpt{CN: "ca no ku " + kind, IsCA: true, KeyKind: kind, KeyIdx: 6, Serial: big.NewInt(31), NoKeyUsage: true})
			return ca, []*world.Ident{ca, p.Root}, nil, ca
		}},
		{"sibling-CA-same-DN", false, func(kind string) (*world.Ident, []*world.Ident, []*x509.Certificate, *world.Ident) {
			ca := c04CA(kind)
			sib := world.Issue(p.Root, world.CertOpt{Subject: &ca.Cert.Subject, IsCA: true, KeyKind: kind, KeyIdx: 7, Serial: big.NewInt(32)})
			return ca, []*world.Ident{ca, p.Root}, nil, sib
		}},
		{"end-entity-own-key", false, func(kind string) (*world.Ident, []*world.Ident, []*x509.Certificate, *world.Ident) {
			ca := c04CA(kind)
			return ca, []*world.Ident{ca, p.Root}, nil, nil // signer = the leaf itself, filled by the caller
		}},
		{"end-entity-own-key-no-keyusage-no-basicconstraints", false, func(kind string) (*world.Ident, []*world.Ident, []*x509.Certificate, *world.Ident) {
			ca := c04CA(kind)
			return ca, []*world.Ident{ca, p.Root}, nil, nil // signer = the leaf itself (a leaf without keyUsage and basicConstraints)
		}},
		{"end-entity-without-keyusage-alone-in-its-chain-names-itself", false, func(kind string) (*world.Ident, []*world.Ident, []*x509.Certificate, *world.Ident) {
			// the client certificate is the only certificate of the presented chain (a pinned trust anchor) and signs a
			// CRL issued in its own name: an end-entity is never a CRL signer
			ca := c04CA(kind)
			return ca, nil, nil, nil
		}},
		{"end-entity-named-like-its-CA", false, func(kind string) (*world.Ident, []*world.Ident, []*x509.Certificate, *world.Ident) {
			// the client certificate carries the distinguished name of its issuing CA: by name both are candidates, one of
			// them is entitled - the signature has to be the entitled one's
			ca := c04CA(kind)
			return ca, []*world.Ident{ca, p.Root}, nil, nil // signer = the leaf itself
		}},
		{"certificate-signing-certificate-of-a-split-CA-without-cRLSign", false, func(kind string) (*world.Ident, []*world.Ident, []*x509.Certificate, *world.Ident) {
			// a CA with two certificates of the same name: one for signing certificates (keyCertSign only, in the chain), one
			// for signing CRLs (cRLSign, configured as trusted signer). The CRL is signed with the certificate-signing key.
			certCA := world.Issue(p.Root, world.CertOpt{CN: "split CA " + kind, IsCA: true, KeyKind: kind, KeyIdx: 6, Serial: big.NewInt(41), KeyUsage: x509.KeyUsageCertSign})
			crlCA := world.Issue(p.Root, world.CertOpt{Subject: &certCA.Cert.Subject, IsCA: true, KeyKind: kind, KeyIdx: 7, Serial: big.NewInt(42), KeyUsage: x509.KeyUsageCRLSign})
			return certCA, []*world.Ident{certCA, p.Root}, []*x509.Certificate{crlCA.Cert}, certCA
		}},
		{"end-entity-no-keyusage-no-basicconstraints-alone-in-its-chain-names-itself", false, func(kind string) (*world.Ident, []*world.Ident, []*x509.Certificate, *world.Ident) {
			// as above, and the client certificate says nothing about itself (no keyUsage, no basicConstraints): it still is
			// no CA certificate above the end-entity and no configured trusted signer
			ca := c04CA(kind)
			return ca, nil, nil, nil
		}},
		{"trusted-signer-without-SKI-signs-in-the-issuers-name", false, func(kind string) (*world.Ident, []*world.Ident, []*x509.Certificate, *world.Ident) {
			// a configured trusted signer with another name and without subject key identifier (a legacy certificate) signs
			// a CRL in the issuing CA's name: it matches neither the CRL's issuer name nor the key the CRL's authority key
			// identifier names (where the CRL names the signer's own - absent - key identifier nothing identifies it either)
			ca := c04CA(kind)
			legacy := world.Issue(nil, world.CertOpt{CN: "legacy crl signer " + kind, IsCA: true, KeyKind: kind, KeyIdx: 4, Serial: big.NewInt(43)})
			legacy = world.WithoutExtension(legacy, legacy, world.OIDSKI)
			return ca, []*world.Ident{ca, p.Root}, []*x509.Certificate{legacy.Cert}, legacy
		}},
		{"unrelated-key", false, func(kind string) (*world.Ident, []*world.Ident, []*x509.Certificate, *world.Ident) {
			ca := c04CA(kind)
			un := world.Issue(nil, world.CertOpt{CN: "unrelated " + kind, IsCA: true, KeyKind: kind, KeyIdx: 4, Serial: big.NewInt(33)})
			return ca, []*world.Ident{ca, p.Root}, nil, un
		}},
		{"CA-keyusage-without-cRLSign", false, func(kind string) (*world.Ident, []*world.Ident, []*x509.Certificate, *world.Ident) {
			ca := world.Issue(p.Root, world.CertOpt{CN: "ca no crlsign " + kind, IsCA: true, KeyKind: kind, KeyIdx: 6, Serial: big.NewInt(34), KeyUsage: x509.KeyUsageCertSign | x509.KeyUsageDigitalSignature})
			return ca, []*world.Ident{ca, p.Root}, nil, ca
		}},
		{"upper-CA-of-the-chain", true, func(kind string) (*world.Ident, []*world.Ident, []*x509.Certificate, *world.Ident) {
			// another CA of the presented chain (the one above the issuing CA, entitled to sign CRLs of its own) signs a CRL in the issuing CA's
			// name: entitled only if the CRL's authority key identifier really identifies it
			upper := world.Issue(p.Root, world.CertOpt{CN: "upper CA " + kind, IsCA: true, KeyKind: kind, KeyIdx: 6, Serial: big.NewInt(35)})
			sub := world.Issue(upper, world.CertOpt{CN: "sub CA " + kind, IsCA: true, KeyKind: kind, KeyIdx: 7, Serial: big.NewInt(36)})
			return sub, []*world.Ident{sub, upper, p.Root}, nil, upper
		}},
		{"other-CA-configured-as-trusted-signer", true, func(kind string) (*world.Ident, []*world.Ident, []*x509.Certificate, *world.Ident) {
			// a configured trusted signer with another name signs a CRL in the issuing CA's name
			ca := c04CA(kind)
			oc := world.Issue(nil, world.CertOpt{CN: "other trusted CA " + kind, IsCA: true, KeyKind: kind, KeyIdx: 4, Serial: big.NewInt(37)})
			return ca, []*world.Ident{ca, p.Root}, []*x509.Certificate{oc.Cert}, oc
		}},
		{"trusted-signer-whose-name-renders-like-the-issuers", true, func(kind string) (*world.Ident, []*world.Ident, []*x509.Certificate, *world.Ident) {
			// a configured trusted signer whose distinguished name is another one on the wire (an extra leading CN) but
			// renders like the issuing CA's under pkix.Name: entitled only where the CRL's key identifier names it
			ca := c04CA(kind)
			var seq pkix.RDNSequence
			asn1.Unmarshal(ca.Cert.RawSubject, &seq)
			like := append(pkix.RDNSequence{{{Type: []int{2, 5, 4, 3}, Value: "partner CRL signer"}}}, seq...)
			raw, _ := asn1.Marshal(like)
			ts := world.Issue(nil, world.CertOpt{CN: "lookalike " + kind, RawSubject: raw, IsCA: true, KeyKind: kind, KeyIdx: 4, Serial: big.NewInt(38)})
			return ca, []*world.Ident{ca, p.Root}, []*x509.Certificate{ts.Cert}, ts
		}},
		{"stranger-configured-nowhere-in-chain-only", false, func(kind string) (*world.Ident, []*world.Ident, []*x509.Certificate, *world.Ident) {
			// another CA of the same chain (the root) signs the issuing CA's CRL: not the issuer named by the CRL
			ca := c04CA(kind)
			return ca, []*world.Ident{ca, p.Root}, nil, p.OtherCA
		}},
	}
}

var c04AKIForms = []string{"absent", "keyId", "issuer+serial", "keyId+issuer+serial", "keyId=end-entity-SKI", "keyId=signer-SKI", "uri-issuer+signer-serial", "dns-issuer+signer-serial"}

type c04Case struct {
	Alg    world.SigAlg
	Signer int
	AKI    int
	Path   string // first-load | refresh
	BadSig bool
	Flip   int // bit index into the document, -1 none
	// Forge: the signature is the signer's, but over a digest of zero length / over the digest of nothing
	Forge string
}

func (c c04Case) String() string {
	s := fmt.Sprintf("alg=%s signer=%s aki=%s path=%s", c.Alg.Name, c04Signers()[c.Signer].Name, c04AKIForms[c.AKI], c.Path)
	if c.BadSig {
		s += " badsig"
	}
	if c.Forge != "" {
		s += " signature-over-" + c.Forge
	}
	if c.Flip >= 0 {
		s += fmt.Sprintf(" flip=%d", c.Flip)
	}
	return s
}

const c04URL = "http://crl.test/c04.crl"

// c04Doc builds the candidate CRL (listing serial 101) and the cast.
func c04Doc(c c04Case) (doc []byte, leaf *world.Ident, chain [][]*x509.Certificate, trusted []*x509.Certificate, expectEntitled bool, issuer *world.Ident) {
	sg := c04Signers()[c.Signer]
	kind := c.Alg.KeyKind
	if kind == "" {
		kind = "ec"
	}
	issuer, extra, trusted, signer := sg.Make(kind)
	lo := world.CertOpt{CN: "c04 client", Serial: big.NewInt(101), KeyKind: kind, KeyIdx: 5, CDP: []string{c04URL}}
	if strings.Contains(sg.Name, "no-keyusage-no-basicconstraints") {
		lo.NoKeyUsage, lo.NoBC = true, true
	}
	if strings.Contains(sg.Name, "names-itself") {
		lo.NoKeyUsage = true // basicConstraints cA=FALSE is all that says "not a CRL signer"
	}
	if strings.Contains(sg.Name, "named-like-its-CA") {
		lo.CN, lo.Subject = "", &issuer.Cert.Subject
	}
	leaf = world.Issue(issuer, lo)
	if signer == nil {
		signer = leaf
	}
	crlIssuer := issuer
	if strings.Contains(sg.Name, "names-itself") {
		crlIssuer = leaf
	}
	ids := append([]*world.Ident{leaf}, extra...)
	chain = world.Chain(ids...)
	spec := &world.CRLSpec{
		Version:    2,
		Alg:        c.Alg,
		IssuerRaw:  crlIssuer.Cert.RawSubject,
		ThisUpdate: vsched.Epoch.Add(-time.Hour),
		NextUpdate: vsched.Epoch.Add(24 * time.Hour),
		Entries:    []world.RevEntry{{Serial: big.NewInt(101), Date: vsched.Epoch.Add(-2 * time.Hour)}, {Serial: big.NewInt(105), Date: vsched.Epoch.Add(-2 * time.Hour)}},
		Signer:     signer.Key,
		BadSig:     c.BadSig,
		Forge:      c.Forge,
	}
	if c.Alg.Name == "ed25519" {
		spec.Signer = nil // no ed25519 key in the cast: the algorithm must be refused whatever the signature bytes are
	}
	exts := []pkix.Extension{world.CRLNumberExt(2)}
	akiMatchesSigner := true
	switch c04AKIForms[c.AKI] {
	case "absent":
		// by name + key algorithm: the signer must carry the CRL issuer's name
		akiMatchesSigner = string(signer.Cert.RawSubject) == string(issuer.Cert.RawSubject)
	case "keyId":
		exts = append(exts, world.AKIExt(issuer.Cert.SubjectKeyId, nil, nil))
		akiMatchesSigner = string(signer.Cert.SubjectKeyId) == string(issuer.Cert.SubjectKeyId)
	case "issuer+serial":
		exts = append(exts, world.AKIExt(nil, issuer.Cert.RawIssuer, issuer.Cert.SerialNumber))
		akiMatchesSigner = signer == issuer
	case "keyId+issuer+serial":
		exts = append(exts, world.AKIExt(issuer.Cert.SubjectKeyId, issuer.Cert.RawIssuer, issuer.Cert.SerialNumber))
		akiMatchesSigner = signer == issuer
	case "keyId=end-entity-SKI":
		exts = append(exts, world.AKIExt(leaf.Cert.SubjectKeyId, nil, nil))
		akiMatchesSigner = signer == leaf
	case "keyId=signer-SKI":
		exts = append(exts, world.AKIExt(signer.Cert.SubjectKeyId, nil, nil))
	case "uri-issuer+signer-serial", "dns-issuer+signer-serial":
		// authorityCertIssuer is not a directory name: it names no certificate issuer, so nothing but the serial number
		// points at the signer. The signer is entitled only if it carries the CRL issuer's name anyway.
		if strings.HasPrefix(c04AKIForms[c.AKI], "uri") {
			exts = append(exts, world.AKIExtGeneralName(6, "http://ca.test/issuer", signer.Cert.SerialNumber))
		} else {
			exts = append(exts, world.AKIExtGeneralName(2, "ca.test", signer.Cert.SerialNumber))
		}
		akiMatchesSigner = string(signer.Cert.RawSubject) == string(issuer.Cert.RawSubject)
	}
	spec.Exts = exts
	doc = spec.DER()
	supported := false
	for _, a := range world.SupportedAlgs {
		if a.Name == c.Alg.Name {
			supported = true
		}
	}
	expectEntitled = sg.Entitled && supported && !c.BadSig && akiMatchesSigner && c.Flip < 0 && c.Forge == ""
	return
}

// regions of the document for the flip oracle
func c04Regions(doc []byte) (tbsStart, tbsEnd, end int) {
	offs, hdr := derBoundaries(doc)
	// offs[0] = outer SEQUENCE, offs[1] = tbs
	tbsStart = offs[1]
	// tbs length
	l := 0
	h := hdr[1]
	if h == 2 {
		l = int(doc[tbsStart+1])
	} else {
		for i := 2; i < h; i++ {
			l = l<<8 | int(doc[tbsStart+i])
		}
	}
	tbsEnd = tbsStart + h + l
	return tbsStart, tbsEnd, len(doc)
}

// c04Run drives one case through the real repository and reports whether the
// candidate CRL came into force.
func c04Run(c c04Case) (inForce bool, probe Verdict, entitled bool, note string) {
	doc, leaf, chain, trusted, entitled, issuer := c04Doc(c)
	if c.Flip >= 0 {
		d := append([]byte{}, doc...)
		d[c.Flip/8] ^= 1 << (uint(c.Flip) % 8)
		doc = d
	}
	res := seqWorld(func() {
		w := NewRW(CWOpt{SigMode: config.SignatureValidationModeVerify, Strict: true, Trusted: trusted})
		defer w.Close()
		loc := &core.CRLLocations{CRLDistributionPoints: []string{c04URL}}
		chains := core.NewCertificateChains(chain, trusted)
		if c.Path == "refresh-after-genuine-refresh" {
			// the genuine document is loaded and refreshed once more (periodic path) before the tampered one is served:
			// whatever a refresh remembers about the previous document, the signed content decides
			genuine, _, _, _, _, _ := c04Doc(c)
			w.Net.Serve(c04URL, "genuine", genuine)
			if _, err := w.Repo.AddCRL(loc, chains); err != nil {
				note = "setup: genuine document not loaded: " + err.Error()
				return
			}
			w.Repo.UpdateCRLs()
			ents := w.Repo.VerifEntries()
			if len(ents) != 1 || !ents[0].Loaded {
				note = "setup: genuine document not in force after its refresh"
				return
			}
			before := storeDigest(ents[0].Store)
			w.Net.Serve(c04URL, "candidate", doc)
			w.Repo.UpdateCRLs()
			probe = w.IsRevoked(leaf.Cert, loc)
			ents = w.Repo.VerifEntries()
			inForce = len(ents) == 1 && storeDigest(ents[0].Store) != before // the store now holds something else than the genuine list
			return
		}
		if c.Path == "first-load" {
			// through the checker, as a handshake does it: which certificates of the verified chains are offered as signers
			// of the list is the checker's business
			cw := NewCW(CWOpt{SigMode: config.SignatureValidationModeVerify, Strict: true, Trusted: trusted})
			defer os.RemoveAll(cw.Dir)
			if err := cw.Provision(); err != nil {
				note = "setup: provision: " + err.Error()
				return
			}
			vsched.Drain()
			cw.Net.Serve(c04URL, "candidate", doc)
			probe = cw.Lookup(leaf, chain)
			vsched.Drain()
			inForce = probe.Err == "" && probe.Panic == ""
			cw.Chk.Cleanup()
			vsched.Drain()
			return
		}
		// refresh: a good v1 (not listing 101) signed by the issuing CA is in force first
		v1 := world.SimpleCRL(issuer, 1, 105)
		v1.Alg = world.DefaultAlg(issuer.Kind)
		goodChains := core.NewCertificateChains(world.Chain(leaf, issuer, world.Std().Root), nil)
		w.Net.Serve(c04URL, "v1", v1.DER())
		if _, err := w.Repo.AddCRL(loc, goodChains); err != nil {
			note = "setup: v1 not loaded: " + err.Error()
			return
		}
		before := w.IsRevoked(leaf.Cert, loc)
		if before.String() != "OK" {
			note = "setup: unexpected verdict before refresh: " + before.String() + " " + before.Err
			return
		}
		w.Net.Serve(c04URL, "candidate", doc)
		var err error
		if c.Path == "refresh-retry-after-signer-handshake" {
			// periodic refresh (no chains from a caller) rejects or accepts the candidate; then a handshake presents the
			// chain again (AddCRL may adopt a new signer certificate from it); then the next periodic refresh
			w.Repo.UpdateCRLs()
			w.Repo.AddCRL(loc, chains)
			w.Repo.UpdateCRLs()
			probe = w.IsRevoked(leaf.Cert, loc)
			inForce = probe.Revoked // the candidate lists the probe, the good v1 does not
			return
		}
		err = w.Repo.UpdateCRL(loc, chains)
		probe = w.IsRevoked(leaf.Cert, loc)
		inForce = err == nil
		if probe.Revoked && err != nil {
			note = "UpdateCRL failed but the candidate's entry is revoked"
			inForce = true
		}
	})
	if res.Verdict != vsched.OK {
		note = "execution verdict " + res.Verdict.String() + ": " + firstLines(res.Detail, 3)
		probe.Panic = note
	}
	return
}

func c04Supported(a world.SigAlg) bool {
	for _, s := range world.SupportedAlgs {
		if s.Name == a.Name {
			return true
		}
	}
	return false
}

// c04Layers: the same question asked one and two layers further up, where the set of signer candidates is put
// together. (a) two validator instances of one process with different trusted signer sets, provisioned in both
// orders: what one instance was configured to trust entitles nobody at the other. (b) the whole module: certificates
// a client merely sends along in its Certificate message (part of no verified chain) entitle nobody.
func c04Layers(chk *fw.Check) (evals, nontrivial int, outcomes map[string]int) {
	outcomes = map[string]int{}
	sgs := c04Signers()
	idx := func(name string) int {
		for i, s := range sgs {
			if s.Name == name {
				return i
			}
		}
		panic(name)
	}
	for _, disk := range []bool{false, true} {
		for _, sn := range []string{"trusted-signer", "other-CA-configured-as-trusted-signer", "trusted-signer-whose-name-renders-like-the-issuers"} {
			for _, akiName := range []string{"absent", "keyId=signer-SKI", "keyId"} {
				for _, order := range []string{"trusting-instance-first", "trusting-instance-last"} {
					aki := 0
					for i, a := range c04AKIForms {
						if a == akiName {
							aki = i
						}
					}
					c := c04Case{Alg: world.SHA256EC, Signer: idx(sn), AKI: aki, Path: "first-load", Flip: -1}
					doc, leaf, chain, trusted, entitledWithTrust, _ := c04Doc(c)
					var vT, vN Verdict
					var perr string
					res := seqWorld(func() {
						net := world.NewNet()
						wT := NewCW(CWOpt{Disk: disk, SigMode: config.SignatureValidationModeVerify, Strict: true, Trusted: trusted, Net: net})
						wN := NewCW(CWOpt{Disk: disk, SigMode: config.SignatureValidationModeVerify, Strict: true, Net: net})
						defer os.RemoveAll(wT.Dir)
						defer os.RemoveAll(wN.Dir)
						ws := []*CW{wT, wN}
						if order == "trusting-instance-last" {
							ws = []*CW{wN, wT}
						}
						for _, w := range ws {
							if err := w.Provision(); err != nil {
								perr = err.Error()
								return
							}
						}
						vsched.Drain()
						net.Serve(c04URL, "candidate", doc)
						vN = wN.Lookup(leaf, chain)
						vT = wT.Lookup(leaf, chain)
						again := wN.Lookup(leaf, chain)
						if again.String() != vN.String() {
							vN = Verdict{Err: "the answer of the instance without trusted signers changed from " + vN.String() + " to " + again.String() + " after the other instance took the list in"}
							if again.Revoked {
								vN = again
							}
						}
						wT.Chk.Cleanup()
						wN.Chk.Cleanup()
					})
					evals++
					nontrivial++
					label := fmt.Sprintf("two-instances signer=%s aki=%s %s %s", sn, akiName, order, be(disk))
					if perr != "" || res.Verdict != vsched.OK {
						chk.Violation("C04|harness|two-instances", label+": "+perr+" "+res.Verdict.String()+" "+firstLines(res.Detail, 3), nil)
						continue
					}
					outcomes[fmt.Sprintf("two-instances: trusting=%s other=%s entitled-at-trusting=%v", vT, vN, entitledWithTrust)]++
					if vN.Revoked || (vN.Err == "" && vN.Panic == "") {
						chk.Violation("C04|unauthentic-in-force|two-instances signer="+sn+" aki="+akiName,
							fmt.Sprintf("%s: the instance which trusts no extra signer took in (verdict %s) a CRL only the other instance's trusted signer could authenticate", label, vN), c)
					}
					if entitledWithTrust && !vT.Revoked {
						outcomes["two-instances: authentic at the trusting instance but not in force (not judged)"]++
					}
				}
			}
		}
	}
	// (b) module level: an extra certificate in the client's Certificate message
	for _, disk := range []bool{false, true} {
		for _, sn := range []string{"unrelated-key", "sibling-CA-same-DN", "stranger-configured-nowhere-in-chain-only"} {
			for aki, akiName := range c04AKIForms {
				c := c04Case{Alg: world.SHA256EC, Signer: idx(sn), AKI: aki, Path: "first-load", Flip: -1}
				doc, _, chain, _, _, _ := c04Doc(c)
				// the identity which signed the candidate list
				_, _, _, signer := sgs[c.Signer].Make("ec")
				for _, pos := range []string{"extra-last", "extra-second", "signer-is-a-trusted-OCSP-responder"} {
					var v, plain Verdict
					var perr string
					res := seqWorld(func() {
						net := world.NewNet()
						dir := FreshDir("c04tw")
						defer os.RemoveAll(dir)
						storage := "memory"
						if disk {
							storage = "disk"
						}
						opt := TWOpt{Mode: "crl_only", Net: net, CRL: &config.CRLConfig{WorkDir: dir, StorageType: storage, SignatureValidationMode: "verify", UpdateInterval: "30m",
							CDPConfig: &config.CDPConfig{CRLCDPStrict: true}}}
						if pos == "extra-second" {
							// the signature validation mode is left out here: verify is the documented default
							opt.CRL.SignatureValidationMode = ""
						}
						if pos == "signer-is-a-trusted-OCSP-responder" {
							// both checks are on; the signer's certificate is configured - as trusted OCSP responder certificate.
							// Whom the OCSP side trusts to sign responses is not whom the CRL side trusts to sign CRLs.
							opt.Mode = "prefer_ocsp"
							opt.OCSP = &config.OCSPConfig{TrustedResponderCertsFiles: []string{WritePEM(dir, "responder.pem", signer.Cert)}}
						}
						w := NewTW(opt)
						if err := w.Provision(); err != nil {
							perr = err.Error()
							return
						}
						vsched.Drain()
						net.Serve(c04URL, "candidate", doc)
						var raw [][]byte
						for _, x := range chain[0] {
							raw = append(raw, x.Raw)
						}
						if pos == "signer-is-a-trusted-OCSP-responder" {
							// nothing is sent along
						} else if pos == "extra-last" {
							raw = append(raw, signer.Cert.Raw)
						} else {
							raw = append(raw[:1:1], append([][]byte{signer.Cert.Raw}, raw[1:]...)...)
						}
						v = w.HandshakeRaw(raw, chain)
						plain = w.Handshake(chain)
						w.Cleanup()
						vsched.Drain()
						crl.VerifReset()
					})
					evals++
					nontrivial++
					label := fmt.Sprintf("module signer=%s aki=%s %s %s", sn, akiName, pos, be(disk))
					if perr != "" || res.Verdict != vsched.OK {
						chk.Violation("C04|harness|module-extra-certificate", label+": "+perr+" "+res.Verdict.String()+" "+firstLines(res.Detail, 3), nil)
						continue
					}
					outcomes[fmt.Sprintf("module, signer sent along: %s then %s", v, plain)]++
					for _, x := range []Verdict{v, plain} {
						if x.Revoked || (x.Err == "" && x.Panic == "") {
							chk.Violation("C04|unauthentic-in-force|module-extra-certificate signer="+sn+" aki="+akiName,
								fmt.Sprintf("%s: a CRL signed by a certificate which the client merely sent along (part of no verified chain) came into force (verdict %s)", label, x), c)
						}
					}
				}
			}
		}
	}
	return
}

// RunC04 is the entry point of the C04 check.
func RunC04(tier string, args []string) int {
	chk := fw.NewCheck("C04", tier, "exploration")
	chk.Assumptions = []string{
		"reference entitlement is computed from how the case was constructed (who signed, with which algorithm, which AKI) - independent of the implementation",
		"in force is observed through the real repository: strict-mode lookup succeeds (first load) / UpdateCRL accepted the candidate (refresh)",
	}
	evals := 0
	outcomes := fw.NewDistinct()
	complete, incomplete, premiseFalse := 0, 0, 0
	var samples []string
	judge := func(c c04Case) {
		evals++
		inForce, probe, entitled, note := c04Run(c)
		if strings.HasPrefix(note, "setup:") && !c04Signers()[c.Signer].Entitled && c.Path != "first-load" && strings.Contains(c04Signers()[c.Signer].Name, "cRLSign") {
			// the issuing CA of this variant may not sign CRLs at all, so no "previous good CRL" can exist: outside the premise
			premiseFalse++
			return
		}
		if strings.HasPrefix(note, "setup:") {
			chk.Violation("C04|harness|"+note, "harness premise failed: "+note+" ["+c.String()+"]", c)
			return
		}
		key := fmt.Sprintf("inforce=%v entitled=%v", inForce, entitled)
		outcomes.Add(key + " " + probe.String())
		if probe.Panic != "" {
			chk.Violation("C04|panic|"+normaliseNumbers(firstLines(probe.Panic, 1)), "panic while taking in a CRL: "+probe.Panic+" ["+c.String()+"]", c)
			return
		}
		if inForce && !entitled {
			feature := fmt.Sprintf("signer=%s aki=%s", c04Signers()[c.Signer].Name, c04AKIForms[c.AKI])
			if c.Flip >= 0 {
				feature = "bitflip-in-signed-region alg=" + c.Alg.KeyKind
			} else if c.BadSig {
				feature = "bad-signature"
			} else if c.Forge != "" {
				feature = "signature-over-" + c.Forge + " alg=" + c.Alg.Name
			} else if c04Signers()[c.Signer].Entitled && !c04Supported(c.Alg) {
				feature = "alg=" + c.Alg.Name
			}
			chk.Violation("C04|unauthentic-in-force|"+feature,
				fmt.Sprintf("a CRL that is not authentic came into force via %s: %s (probe verdict %s)", c.Path, c, probe), c)
			if len(samples) < 3 {
				samples = append(samples, c.String())
			}
		}
		if entitled {
			if inForce {
				complete++
			} else {
				incomplete++
			}
		}
	}
	algs := append(append([]world.SigAlg{}, world.SupportedAlgs...), world.RSAPSS, world.ED25519, world.BogusAlg)
	// the other algorithm identifiers of the PKI world, each with an EC and an RSA signer (the signature value is a
	// SHA-256 one under that label: whatever the label, such a CRL is not authentic)
	for _, oid := range world.OtherAlgOIDs {
		for _, kind := range []string{"ec", "rsa"} {
			algs = append(algs, world.SigAlg{Name: "oid-" + oid.String() + "-" + kind, OID: oid, Hash: crypto.SHA256, KeyKind: kind, NoNullParams: kind == "ec"})
		}
	}
	if tier != "thorough" {
		// quick: all algorithms with the entitled signer, the full signer x AKI matrix for one algorithm per key type
		for _, path := range []string{"first-load", "refresh", "refresh-retry-after-signer-handshake"} {
			for _, a := range algs {
				for aki := range c04AKIForms {
					judge(c04Case{Alg: a, Signer: 0, AKI: aki, Path: path, Flip: -1})
					judge(c04Case{Alg: a, Signer: 0, AKI: aki, Path: path, Flip: -1, BadSig: true})
				}
			}
			for _, a := range []world.SigAlg{world.SHA256EC, world.SHA256RSA} {
				for s := range c04Signers() {
					for aki := range c04AKIForms {
						judge(c04Case{Alg: a, Signer: s, AKI: aki, Path: path, Flip: -1})
					}
				}
			}
		}
	} else {
		for _, path := range []string{"first-load", "refresh", "refresh-retry-after-signer-handshake"} {
			for _, a := range algs {
				for s := range c04Signers() {
					for aki := range c04AKIForms {
						judge(c04Case{Alg: a, Signer: s, AKI: aki, Path: path, Flip: -1})
						judge(c04Case{Alg: a, Signer: s, AKI: aki, Path: path, Flip: -1, BadSig: true})
					}
				}
			}
		}
	}
	// a genuine signature of the entitled signer - but over a digest of zero length, or over the digest of nothing (what a
	// reader verifies which never fed the signed content into the digest): under every algorithm identifier
	for _, path := range []string{"first-load", "refresh", "refresh-retry-after-signer-handshake"} {
		for _, a := range algs {
			if a.PSS || a.Name == "ed25519" || a.KeyKind == "" {
				continue
			}
			for _, forge := range []string{"empty-digest", "digest-of-nothing"} {
				for _, aki := range []int{0, 1} {
					judge(c04Case{Alg: a, Signer: 0, AKI: aki, Path: path, Flip: -1, Forge: forge})
				}
			}
		}
	}
	// every single-bit flip inside tbsCertList | signatureAlgorithm | signatureValue of one seed per key type
	flips := 0
	for _, a := range []world.SigAlg{world.SHA256EC, world.SHA256RSA} {
		base := c04Case{Alg: a, Signer: 0, AKI: 1, Path: "first-load", Flip: -1}
		doc, _, _, _, _, _ := c04Doc(base)
		tbsStart, _, end := c04Regions(doc)
		paths := []string{"first-load"}
		if tier == "thorough" {
			paths = []string{"first-load", "refresh"}
		}
		for _, path := range paths {
			for bit := tbsStart * 8; bit < end*8; bit++ {
				c := base
				c.Path, c.Flip = path, bit
				judge(c)
				flips++
			}
		}
		// flips inside the signed content (the signature value stays the genuine one), after the genuine document was
		// loaded and refreshed
		_, tbsEnd, _ := c04Regions(doc)
		for bit := tbsStart * 8; bit < tbsEnd*8; bit++ {
			c := base
			c.Path, c.Flip = "refresh-after-genuine-refresh", bit
			judge(c)
			flips++
		}
	}
	layerEvals, layerNontrivial, layerOutcomes := c04Layers(chk)
	evals += layerEvals
	_ = layerNontrivial
	if len(samples) == 0 {
		samples = []string{c04Case{Alg: world.SHA256EC, Signer: 3, AKI: 0, Path: "refresh", Flip: -1}.String(), c04Case{Alg: world.SHA256RSA, Signer: 0, AKI: 1, Path: "first-load", Flip: 1234}.String()}
	}
	cov := fw.Coverage{
		"evaluations":                   evals,
		"distinct_nontrivial":           evals - complete - incomplete,
		"rule":                          "signature algorithm (10 supported + RSA-PSS + Ed25519 + unknown OID) x signer (issuing CA, configured trusted signer, CA without KeyUsage, sibling CA with identical DN, end-entity's own key, unrelated key, CA whose KeyUsage lacks cRLSign, other CA) x AKI form (6) x intake path (first load, refresh) x good/bad signature; plus every single-bit flip of tbsCertList|signatureAlgorithm|signatureValue of one EC and one RSA seed. Non-trivial = cases whose CRL is NOT authentic by construction (the direction the property constrains); authentic cases are counted as completeness information only.",
		"samples":                       samples,
		"bitflip_cases":                 flips,
		"premise_false":                 premiseFalse,
		"authentic_accepted":            complete,
		"authentic_rejected_not_judged": incomplete,
		"outcome_classes":               outcomes.Counts(),
		"layers":                        "two validator instances with different trusted signer sets (3 signer kinds x 3 AKI forms x provisioning order x backend): the instance without the signer must not take the list in; whole module with a signer certificate merely sent along in the handshake (3 signer kinds x 8 AKI forms x position x backend)",
		"layer_evaluations":             layerEvals,
		"layer_outcomes":                layerOutcomes,
		"exhaustive":                    true,
	}
	return chk.Finish(cov)
}

func init() { registry["C04"] = RunC04 }

var _ = crypto.SHA256
