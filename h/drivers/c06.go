package drivers

import (
	"bytes"
	"crypto"
	"crypto/x509/pkix"
	"encoding/asn1"
	"fmt"
	"golang.org/x/crypto/cryptobyte"
	cbasn1 "golang.org/x/crypto/cryptobyte/asn1"
	"math/big"
	"os"
	"path/filepath"
	"sort"
	"strings"
	"time"

	"github.com/gr33nbl00d/caddy-revocation-validator/core"
	"github.com/gr33nbl00d/caddy-revocation-validator/crl/crlreader"

	"verif/h/fw"
	"verif/h/rt/vsched"
	"verif/h/world"
)

// ---------------------------------------------------------------- recording processor

type recProc struct {
	Meta    *crlreader.CRLMetaInfo
	Entries []*pkix.RevokedCertificate
	Issuers []*pkix.RDNSequence
	Ext     *crlreader.ExtendedCRLMetaInfo
	Calls   []string
	OnEntry func(n int)
}

func (r *recProc) StartUpdateCrl(m *crlreader.CRLMetaInfo) error {
	r.Calls = append(r.Calls, "start")
	r.Meta = m
	return nil
}
func (r *recProc) InsertRevokedCertificate(e *crlreader.CRLEntry) error {
	r.Entries = append(r.Entries, e.RevokedCertificate)
	r.Issuers = append(r.Issuers, e.Issuer)
	if r.OnEntry != nil {
		r.OnEntry(len(r.Entries))
	}
	return nil
}
func (r *recProc) UpdateExtendedMetaInfo(i *crlreader.ExtendedCRLMetaInfo) error {
	r.Calls = append(r.Calls, "extmeta")
	r.Ext = i
	return nil
}
func (r *recProc) UpdateSignatureCertificate(e *core.CertificateChainEntry) error {
	r.Calls = append(r.Calls, "sigcert")
	return nil
}

// readCRLBytes writes data to a scratch file and runs the streaming reader on it.
func readCRLBytes(dir string, data []byte, proc crlreader.CRLProcessor) (res *crlreader.CRLReadResult, err error, panicked string) {
	path := filepath.Join(dir, "in.crl")
	if werr := os.WriteFile(path, data, 0600); werr != nil {
		panic(werr)
	}
	defer func() {
		if r := recover(); r != nil {
			panicked = fmt.Sprint(r)
		}
	}()
	res, err = crlreader.StreamingCRLFileReader{}.ReadCRL(proc, path)
	return
}

// ---------------------------------------------------------------- case space

const (
	dVer = iota
	dN
	dNU
	dExt
	dEnc
	dDate
	dSerial
	dEExt
	dIssuer
	dAlg
	dPad
	dUpd
	dNumDims
)

var c06DimNames = [dNumDims]string{"version", "entries", "nextUpdate", "crlExtensions", "encoding", "revDateForm", "serialForm", "entryExt", "issuerShape", "sigAlg", "pad", "updateTimes"}

var c06Values = [dNumDims][]string{
	dVer: {"v2", "v1-absent", "v3"},
	dN:   {"3", "0", "1", "2", "30", "0-present-empty", "800000"}, // the last one (a list of more than 16 MiB: four length octets) is not part of the core product
	dNU:  {"present", "absent"},
	dExt: {"aki+number", "absent", "number", "aki+number-9-octets", "aki+number-20-octets", "aki+number-0", "aki+number+unknown-noncritical", "aki+number+unknown-critical", "aki+number+delta-critical", "aki+number+idp-critical", "aki+number+ian-critical", "aki+number+freshest-critical", "aki+number+aia-critical",
		// where an unsupported critical extension stands among supported critical ones must not matter
		"aki-only",
		"critical-number+critical-aki+delta-critical", "delta-critical+critical-number+critical-aki", "critical-number+idp-critical+critical-aki", "critical-aki+critical-number"},
	dEnc:    {"DER", "PEM-LF", "PEM-CRLF"},
	dDate:   {"UTCTime", "GeneralizedTime"},
	dSerial: {"small", "1byte", "2byte", "3byte", "8byte", "9byte-topbit", "16byte", "19byte", "20byte", "zero", "2^159", "20byte-topbit"},
	dEExt:   {"none", "reason", "reason+invalidityDate", "opaque-3KiB", "opaque-70KiB", "mixed", "opaque-150", "opaque-300"},
	dIssuer: {"simple", "1rdn", "6rdn", "multivalued-rdn", "utf8-nonascii", "300byte-value", "cn-first", "o-before-c", "domain-components", "email+uid"},
	dAlg:    {"ecdsa-sha256", "sha1-rsa", "sha224-rsa", "sha256-rsa", "sha384-rsa", "sha512-rsa", "ecdsa-sha1", "ecdsa-sha224", "ecdsa-sha384", "ecdsa-sha512"},
	dPad:    {"0"}, // numeric, free
	// thisUpdate (nextUpdate one minute later, revocation dates one minute earlier) at the edges of the UTCTime range:
	// two-digit years 50..99 are 19xx, 00..49 are 20xx
	dUpd: {"default", "1950-01-01T00:00:00Z", "1950-12-31T23:59:59Z", "1951-01-01T00:00:00Z", "1999-12-31T23:59:59Z", "2000-01-01T00:00:00Z", "2049-12-31T23:58:59Z"},
}

type c06Case [dNumDims]int

func (c c06Case) String() string {
	var parts []string
	for d := 0; d < dNumDims; d++ {
		if d == dPad {
			if c[d] != 0 {
				parts = append(parts, fmt.Sprintf("pad=%d", c[d]))
			}
			continue
		}
		if d == dUpd {
			if c[d] != 0 {
				parts = append(parts, "thisUpdate="+c06Values[d][c[d]][:4])
			}
			continue
		}
		if c[d] != 0 {
			parts = append(parts, c06DimNames[d]+"="+c06Values[d][c[d]])
		}
	}
	if len(parts) == 0 {
		return "default"
	}
	return strings.Join(parts, " ")
}

func c06Serial(form int, i int) (*big.Int, []byte) {
	one := big.NewInt(int64(i + 1))
	mk := func(nbytes int, top bool) *big.Int {
		b := make([]byte, nbytes)
		for k := range b {
			b[k] = byte(0x11*(k+1) + i)
		}
		if top {
			b[0] |= 0x80
		} else {
			b[0] &= 0x7f
			if b[0] == 0 {
				b[0] = 0x01
			}
		}
		return new(big.Int).SetBytes(b)
	}
	switch c06Values[dSerial][form] {
	case "small":
		return big.NewInt(int64(1000 + i)), nil
	case "1byte":
		return big.NewInt(int64(1 + i%100)), nil
	case "2byte":
		return big.NewInt(int64(0x1234 + i)), nil
	case "3byte":
		return big.NewInt(int64(0x123456 + i)), nil
	case "8byte":
		return mk(8, false), nil
	case "9byte-topbit":
		return mk(8, true), nil // 8 value bytes with top bit => 9 content octets in DER
	case "16byte":
		return mk(16, false), nil
	case "19byte":
		return mk(19, false), nil
	case "20byte":
		return mk(20, false), nil
	case "20byte-topbit":
		return mk(20, true), nil
	case "zero":
		if i == 0 {
			return big.NewInt(0), nil
		}
		return one, nil
	case "2^159":
		return new(big.Int).Add(new(big.Int).Lsh(big.NewInt(1), 159), big.NewInt(int64(i))), nil
	}
	panic("serial form")
}

func c06Issuer(shape, pad int) []byte {
	var rdn pkix.RDNSequence
	atv := func(oid []int, v interface{}) pkix.AttributeTypeAndValue {
		return pkix.AttributeTypeAndValue{Type: oid, Value: v}
	}
	cn, o, ou, c, l, st := []int{2, 5, 4, 3}, []int{2, 5, 4, 10}, []int{2, 5, 4, 11}, []int{2, 5, 4, 6}, []int{2, 5, 4, 7}, []int{2, 5, 4, 8}
	switch c06Values[dIssuer][shape] {
	case "simple":
		rdn = pkix.RDNSequence{{atv(o, "verif")}, {atv(cn, "verif issuing CA")}}
	case "1rdn":
		rdn = pkix.RDNSequence{{atv(cn, "solo")}}
	case "6rdn":
		rdn = pkix.RDNSequence{{atv(c, "DE")}, {atv(st, "BY")}, {atv(l, "Muc")}, {atv(o, "verif")}, {atv(ou, "unit")}, {atv(cn, "six")}}
	case "multivalued-rdn":
		rdn = pkix.RDNSequence{{atv(o, "verif")}, {atv(cn, "multi"), atv(ou, "valued")}}
	case "utf8-nonascii":
		rdn = pkix.RDNSequence{{atv(o, "vérif ünïcode ✓")}, {atv(cn, "名前")}}
	case "300byte-value":
		rdn = pkix.RDNSequence{{atv(o, "verif")}, {atv(cn, strings.Repeat("x", 300))}}
	case "cn-first":
		rdn = pkix.RDNSequence{{atv(cn, "cn first CA")}, {atv(o, "verif")}}
	case "o-before-c":
		rdn = pkix.RDNSequence{{atv(o, "verif")}, {atv(c, "DE")}, {atv(cn, "o before c CA")}}
	case "domain-components":
		dc := []int{0, 9, 2342, 19200300, 100, 1, 25}
		rdn = pkix.RDNSequence{{atv(dc, "test")}, {atv(dc, "verif")}, {atv(cn, "dc CA")}}
	case "email+uid":
		rdn = pkix.RDNSequence{{atv(o, "verif")}, {atv([]int{0, 9, 2342, 19200300, 100, 1, 1}, "ca7")}, {atv([]int{1, 2, 840, 113549, 1, 9, 1}, "ca@verif.test")}, {atv(cn, "uid CA")}}
	}
	if pad > 0 {
		// a padding attribute moves every later element boundary by pad bytes
		rdn = append(rdn, pkix.RelativeDistinguishedNameSET{atv(ou, strings.Repeat("p", pad))})
	}
	b, err := asn1.Marshal(rdn)
	if err != nil {
		panic(err)
	}
	return b
}

var c06Algs = []world.SigAlg{world.SHA256EC, world.SHA1RSA, world.SHA224RSA, world.SHA256RSA, world.SHA384RSA, world.SHA512RSA, world.SHA1EC, world.SHA224EC, world.SHA384EC, world.SHA512EC}

// build returns the document bytes and whether the shape is inside the
// supported well-formed profile, and whether it must be rejected.
func (c c06Case) build() (doc []byte, der []byte, wellFormed bool, mustReject bool) {
	p := world.Std()
	alg := c06Algs[c[dAlg]]
	signer := p.CA.Key
	if alg.KeyKind == "rsa" {
		signer = p.CARSA.Key
	}
	s := &world.CRLSpec{
		Alg:        alg,
		IssuerRaw:  c06Issuer(c[dIssuer], c[dPad]),
		ThisUpdate: vsched.Epoch.Add(-time.Hour),
		NextUpdate: vsched.Epoch.Add(240 * time.Hour),
		Signer:     signer,
	}
	wellFormed = true
	switch c06Values[dVer][c[dVer]] {
	case "v2":
		s.Version = 2
	case "v1-absent":
		s.Version = 0
	case "v3":
		s.Version = 3
		mustReject = true
	}
	if c[dNU] == 1 {
		s.NoNextUpdate = true
	}
	if c[dUpd] != 0 {
		t, err := time.Parse(time.RFC3339, c06Values[dUpd][c[dUpd]])
		if err != nil {
			panic(err)
		}
		s.ThisUpdate, s.NextUpdate = t, t.Add(time.Minute)
	}
	n := 0
	switch c06Values[dN][c[dN]] {
	case "0":
	case "1":
		n = 1
	case "2":
		n = 2
	case "3":
		n = 3
	case "30":
		n = 30
	case "800000":
		n = 800000
	case "0-present-empty":
		s.EmptyListPresent = true
	}
	for i := 0; i < n; i++ {
		ser, _ := c06Serial(c[dSerial], i)
		e := world.RevEntry{Serial: ser, Date: vsched.Epoch.Add(-time.Duration(48+i%1000) * time.Hour)}
		if c[dUpd] != 0 {
			t, _ := time.Parse(time.RFC3339, c06Values[dUpd][c[dUpd]])
			e.Date = t.Add(-time.Minute)
			if e.Date.Year() < 1950 {
				e.Date = t
			}
		}
		if c[dDate] == 1 {
			e.GenTime = true
			e.Date = time.Date(2051, 3, 4, 5, 6, 7+i%50, 0, time.UTC)
		}
		switch c06Values[dEExt][c[dEExt]] {
		case "reason":
			e.Exts = []pkix.Extension{world.ReasonExt([]int{1, 8, 2, 0, 3, 10, 4, 6, 5, 9}[i%10])} // every reason code, also removeFromCRL (8)
		case "reason+invalidityDate":
			e.Exts = []pkix.Extension{world.ReasonExt(1), world.InvalidityDateExt(vsched.Epoch.Add(-100 * time.Hour))}
		case "opaque-150": // entry header with one long-form length octet (30 81 xx)
			e.Exts = []pkix.Extension{world.UnknownExt(false, 150)}
		case "opaque-300": // entry header with two long-form length octets (30 82 xx xx)
			e.Exts = []pkix.Extension{world.UnknownExt(false, 300)}
		case "opaque-3KiB":
			e.Exts = []pkix.Extension{world.UnknownExt(false, 3000)}
		case "opaque-70KiB":
			e.Exts = []pkix.Extension{world.UnknownExt(false, 70*1024)}
		case "mixed":
			// entries with and without extensions alternate: nothing of one entry may show up in the next
			switch i % 4 {
			case 0:
				e.Exts = []pkix.Extension{world.ReasonExt(1), world.InvalidityDateExt(vsched.Epoch.Add(-100 * time.Hour))}
			case 2:
				e.Exts = []pkix.Extension{world.ReasonExt(4)}
			}
		}
		s.Entries = append(s.Entries, e)
	}
	aki := world.AKIExt(p.CA.Cert.SubjectKeyId, nil, nil)
	switch c06Values[dExt][c[dExt]] {
	case "aki+number":
		s.Exts = []pkix.Extension{aki, world.CRLNumberExt(7)}
	case "absent":
	case "number":
		s.Exts = []pkix.Extension{world.CRLNumberExt(300)}
	case "aki-only":
		s.Exts = []pkix.Extension{aki}
	case "aki+number-0":
		// zero is a CRL number like any other (the first list of a fresh issuer), not "no number"
		s.Exts = []pkix.Extension{aki, world.CRLNumberExt(0)}
	case "aki+number-9-octets":
		s.Exts = []pkix.Extension{aki, world.CRLNumberBigExt(new(big.Int).Lsh(big.NewInt(0x81), 64))}
	case "aki+number-20-octets":
		s.Exts = []pkix.Extension{aki, world.CRLNumberBigExt(new(big.Int).Lsh(big.NewInt(0x7f), 152))}
	case "aki+number+unknown-noncritical":
		s.Exts = []pkix.Extension{aki, world.CRLNumberExt(7), world.UnknownExt(false, 10)}
	case "aki+number+unknown-critical":
		s.Exts = []pkix.Extension{aki, world.CRLNumberExt(7), world.UnknownExt(true, 10)}
		mustReject = true
	case "aki+number+delta-critical":
		s.Exts = []pkix.Extension{aki, world.CRLNumberExt(7), world.DeltaCRLIndicatorExt()}
		mustReject = true
	case "critical-number+critical-aki+delta-critical", "delta-critical+critical-number+critical-aki", "critical-number+idp-critical+critical-aki", "critical-aki+critical-number":
		ca, cn := aki, world.CRLNumberExt(7)
		ca.Critical, cn.Critical = true, true
		switch c06Values[dExt][c[dExt]] {
		case "critical-number+critical-aki+delta-critical":
			s.Exts, mustReject = []pkix.Extension{cn, ca, world.DeltaCRLIndicatorExt()}, true
		case "delta-critical+critical-number+critical-aki":
			s.Exts, mustReject = []pkix.Extension{world.DeltaCRLIndicatorExt(), cn, ca}, true
		case "critical-number+idp-critical+critical-aki":
			s.Exts, mustReject = []pkix.Extension{cn, world.StdCriticalExt("idp"), ca}, true
		default:
			s.Exts = []pkix.Extension{ca, cn} // supported extensions marked critical: nothing to refuse
		}
	case "aki+number+idp-critical", "aki+number+ian-critical", "aki+number+freshest-critical", "aki+number+aia-critical":
		n := c06Values[dExt][c[dExt]]
		s.Exts = []pkix.Extension{aki, world.CRLNumberExt(7), world.StdCriticalExt(strings.TrimSuffix(strings.TrimPrefix(n, "aki+number+"), "-critical"))}
		mustReject = true
	}
	if s.Version == 0 && len(s.Exts) > 0 {
		wellFormed = false // extensions require v2
	}
	der = s.DER()
	switch c[dEnc] {
	case 0:
		doc = der
	case 1:
		doc = world.PEM(der, false)
	case 2:
		doc = world.PEM(der, true)
	}
	return
}

// ---------------------------------------------------------------- oracle

// c06Judge runs the reader on the case and compares with the reference
// decoder. It returns "" (agrees), or a mismatch class.
func c06Judge(dir string, c c06Case) (class string, detail string, premise bool) {
	doc, der, wellFormed, mustReject := c.build()
	return c06Compare(dir, doc, der, wellFormed, mustReject, c06Algs[c[dAlg]].Hash, c.String())
}

// c06Compare reads doc with the streaming reader and compares everything it reports with the whole-document reference
// decoding of der (doc is der, or der in PEM armour).
func c06Compare(dir string, doc, der []byte, wellFormed, mustReject bool, hash crypto.Hash, what string) (class string, detail string, premise bool) {
	c := what
	rec := &recProc{}
	res, err, pan := readCRLBytes(dir, doc, rec)
	if pan != "" {
		return "panic", pan, true
	}
	if !wellFormed {
		return "", "", false // outside the premise of C06 (totality is C07's business)
	}
	ref, rerr := world.DecodeCRL(der)
	if rerr != nil {
		panic(fmt.Sprintf("reference decoder rejects generated CRL %s: %v", c, rerr))
	}
	if mustReject {
		if err == nil {
			return "accept-must-reject", "reader accepted a CRL that must be rejected", true
		}
		return "", "", true
	}
	if err != nil {
		return "reject-wellformed", err.Error(), true
	}
	tbs := ref.Raw.TBSCertList
	// meta
	if rec.Meta == nil {
		return "meta-mismatch", "StartUpdateCrl not called", true
	}
	if rec.Meta.Issuer.String() != tbs.Issuer.String() || !rdnEqual(rec.Meta.Issuer, tbs.Issuer) {
		return "meta-mismatch", "issuer differs", true
	}
	if !rec.Meta.ThisUpdate.Equal(tbs.ThisUpdate) {
		return "meta-mismatch", fmt.Sprintf("thisUpdate %v vs %v", rec.Meta.ThisUpdate, tbs.ThisUpdate), true
	}
	if tbs.NextUpdate.IsZero() != rec.Meta.NextUpdate.IsZero() || (!tbs.NextUpdate.IsZero() && !rec.Meta.NextUpdate.Equal(tbs.NextUpdate)) {
		return "meta-mismatch", fmt.Sprintf("nextUpdate %v vs %v", rec.Meta.NextUpdate, tbs.NextUpdate), true
	}
	// entries
	if len(rec.Entries) != len(tbs.RevokedCertificates) {
		return "entries-mismatch", fmt.Sprintf("count %d vs %d", len(rec.Entries), len(tbs.RevokedCertificates)), true
	}
	for i, e := range rec.Entries {
		r := tbs.RevokedCertificates[i]
		if e.SerialNumber.Cmp(r.SerialNumber) != 0 {
			return "entries-mismatch", fmt.Sprintf("entry %d serial %v vs %v", i, e.SerialNumber, r.SerialNumber), true
		}
		if !e.RevocationTime.Equal(r.RevocationTime) {
			return "entries-mismatch", fmt.Sprintf("entry %d time %v vs %v", i, e.RevocationTime, r.RevocationTime), true
		}
		if !extsEqual(e.Extensions, r.Extensions) {
			return "entries-mismatch", fmt.Sprintf("entry %d extensions differ", i), true
		}
		if rec.Issuers[i].String() != tbs.Issuer.String() {
			return "entries-mismatch", fmt.Sprintf("entry %d issuer differs", i), true
		}
	}
	// CRL number
	if rec.Ext == nil {
		return "extmeta-mismatch", "UpdateExtendedMetaInfo not called", true
	}
	if (rec.Ext.CRLNumber == nil) != (ref.Number == nil) || (ref.Number != nil && rec.Ext.CRLNumber.Cmp(ref.Number) != 0) {
		return "extmeta-mismatch", fmt.Sprintf("crl number %v vs %v", rec.Ext.CRLNumber, ref.Number), true
	}
	// digest
	h := hash.New()
	h.Write(ref.TBSRaw)
	if !bytes.Equal(res.CalculatedSignature, h.Sum(nil)) {
		return "digest-mismatch", "digest differs from Hash(tbsCertList)", true
	}
	if res.Signature == nil || !bytes.Equal(res.Signature.Bytes, ref.Raw.SignatureValue.Bytes) || res.Signature.BitLength != ref.Raw.SignatureValue.BitLength {
		return "signature-mismatch", "signature bit string differs", true
	}
	if res.Issuer == nil || res.Issuer.String() != tbs.Issuer.String() {
		return "result-mismatch", "result issuer differs", true
	}
	if len(tbs.Extensions) == 0 {
		if res.CRLExtensions != nil && len(*res.CRLExtensions) != 0 {
			return "ext-mismatch", "extensions reported though absent", true
		}
	} else if res.CRLExtensions == nil || !extsEqual(*res.CRLExtensions, tbs.Extensions) {
		return "ext-mismatch", "crlExtensions differ", true
	}
	// callback order
	if strings.Join(rec.Calls, ",") != "start,extmeta" {
		return "callorder-mismatch", strings.Join(rec.Calls, ","), true
	}
	return "", "", true
}

func rdnEqual(a, b pkix.RDNSequence) bool {
	x, err1 := asn1.Marshal(a)
	y, err2 := asn1.Marshal(b)
	return err1 == nil && err2 == nil && bytes.Equal(x, y)
}

func extsEqual(a, b []pkix.Extension) bool {
	if len(a) != len(b) {
		return false
	}
	for i := range a {
		if !a[i].Id.Equal(b[i].Id) || a[i].Critical != b[i].Critical || !bytes.Equal(a[i].Value, b[i].Value) {
			return false
		}
	}
	return true
}

// c06Minimise returns the set of dimensions that matter for the failure:
// resetting any of them to its default makes the class disappear.
func c06Minimise(dir string, c c06Case, class string) string {
	cur := c
	for d := 0; d < dNumDims; d++ {
		if cur[d] == 0 {
			continue
		}
		try := cur
		try[d] = 0
		if cl, _, _ := c06Judge(dir, try); cl == class {
			cur = try
		}
	}
	// pad: report only "pad>0"
	s := cur
	if s[dPad] != 0 {
		s[dPad] = 0
		return strings.TrimSpace(s.String() + " pad=some-alignment") // the offset itself is in the replay file, not in the signature
	}
	return cur.String()
}

// c06SizeBoundary: single elements around the largest element the reader takes in one piece (81920 value octets): one
// revoked entry, and the crlExtensions block, whose size runs through every value from 121 octets below that mark up
// to it - so that every way the element's header and value can fall across the reader's internal portions occurs.
func c06SizeBoundary(chk *fw.Check, dir string, tier string) (n int) {
	p := world.Std()
	encs := []string{"DER"}
	if tier == "thorough" {
		encs = []string{"DER", "PEM-LF", "PEM-CRLF"}
	}
	for _, where := range []string{"entry", "crlExtensions"} {
		for size := 81920 - 170; size <= 81920-30; size++ {
			s := world.SimpleCRL(p.CA, 7, 501)
			if where == "entry" {
				s.Entries[0].Exts = []pkix.Extension{world.UnknownExt(false, size)}
			} else {
				s.Exts = append(s.Exts, world.UnknownExt(false, size))
			}
			der := s.DER()
			ref, err := world.DecodeCRL(der)
			if err != nil {
				panic(err)
			}
			// the element's own value length, as the reference decoder sees it
			elem := 0
			if where == "entry" {
				var raw asn1.RawValue
				rc := ref.Raw.TBSCertList.RevokedCertificates[0]
				b, _ := asn1.Marshal(rc)
				asn1.Unmarshal(b, &raw)
				elem = len(raw.Bytes)
			} else {
				b, _ := asn1.Marshal(ref.Raw.TBSCertList.Extensions)
				var raw asn1.RawValue
				asn1.Unmarshal(b, &raw)
				elem = len(raw.Bytes)
			}
			if elem > 81920 {
				continue // larger than what the reader accepts in one element: outside what is compared here
			}
			for _, enc := range encs {
				doc := der
				switch enc {
				case "PEM-LF":
					doc = world.PEM(der, false)
				case "PEM-CRLF":
					doc = world.PEM(der, true)
				}
				n++
				what := fmt.Sprintf("%s of %d value octets, %s", where, elem, enc)
				if class, detail, _ := c06Compare(dir, doc, der, true, false, world.DefaultAlg(p.CA.Kind).Hash, what); class != "" {
					chk.Violation("C06|"+class+"|element-size-boundary "+where, fmt.Sprintf("%s: %s", what, detail), map[string]interface{}{"where": where, "value_octets": elem, "encoding": enc})
				}
			}
		}
	}
	return
}

// c06MustReject: shapes the reader has to refuse as a whole, outside the product of the shape grammar: every version
// octet other than 0 (v1 written out) and 1 (v2), and entries which carry a critical extension this validator does not
// implement (certificateIssuer of indirect lists, an unknown one) - at the first, a middle and the last entry.
func c06MustReject(chk *fw.Check, dir string) (n int) {
	p := world.Std()
	hash := world.DefaultAlg(p.CA.Kind).Hash
	for octet := 2; octet <= 255; octet++ {
		for _, withExts := range []bool{true, false} {
			s := world.SimpleCRL(p.CA, 7, 501, 502)
			o := byte(octet)
			s.RawVersion = &o
			if !withExts {
				s.Exts = nil
			}
			der := s.DER()
			n++
			what := fmt.Sprintf("version octet 0x%02x, crlExtensions=%v", octet, withExts)
			if class, detail, _ := c06Compare(dir, der, der, true, true, hash, what); class != "" {
				chk.Violation(fmt.Sprintf("C06|%s|unknown-version crlExtensions=%v", class, withExts), what+": "+detail, map[string]interface{}{"version_octet": octet, "crl_extensions": withExts})
			}
		}
	}
	certIssuer := func() pkix.Extension {
		// certificateIssuer ::= GeneralNames, here one directoryName
		var b cryptobyte.Builder
		b.AddASN1(cbasn1.SEQUENCE, func(b *cryptobyte.Builder) {
			b.AddASN1(cbasn1.Tag(4).ContextSpecific().Constructed(), func(b *cryptobyte.Builder) { b.AddBytes(p.OtherCA.Cert.RawSubject) })
		})
		return pkix.Extension{Id: asn1.ObjectIdentifier{2, 5, 29, 29}, Critical: true, Value: b.BytesOrPanic()}
	}()
	for _, kind := range []string{"certificateIssuer", "unknown"} {
		ext := certIssuer
		if kind == "unknown" {
			ext = world.UnknownExt(true, 10)
		}
		for _, nEntries := range []int{1, 3, 30} {
			for _, at := range []int{0, nEntries / 2, nEntries - 1} {
				for _, enc := range []string{"DER", "PEM-LF"} {
					serials := make([]int64, nEntries)
					for i := range serials {
						serials[i] = int64(600 + i)
					}
					s := world.SimpleCRL(p.CA, 7, serials...)
					s.Entries[at].Exts = []pkix.Extension{world.ReasonExt(1), ext}
					der := s.DER()
					doc := der
					if enc == "PEM-LF" {
						doc = world.PEM(der, false)
					}
					n++
					what := fmt.Sprintf("critical %s extension in entry %d of %d, %s", kind, at, nEntries, enc)
					if class, detail, _ := c06Compare(dir, doc, der, true, true, hash, what); class != "" {
						chk.Violation("C06|"+class+"|critical-entry-extension "+kind, what+": "+detail, map[string]interface{}{"kind": kind, "entry": at, "entries": nEntries, "encoding": enc})
					}
				}
			}
		}
	}
	return
}

// RunC06 is the entry point of the C06 check.
func RunC06(tier string, args []string) int {
	chk := fw.NewCheck("C06", tier, "exploration")
	chk.Assumptions = []string{
		"reference decoder = encoding/asn1 into pkix.CertificateList (whole document), encoding/pem for the armour",
		"generated CRLs stay inside the stated shape alphabet; dimensions outside the fully crossed core are crossed with the core one at a time",
		"short-read exploration: the byte source under the leaf helpers + hash tap (DER and PEM pipelines, bufio sizes 16/128/4096) answers each Read with a chosen length; all plans with <= 2 deviations (1 byte / half) over the first 60 reads plus the all-short plans",
	}
	dir := FreshDir("c06")
	evals, premiseFalse := 0, 0
	outcomes := fw.NewDistinct()
	nontrivial := fw.NewDistinct()
	var samples []string
	judge := func(c c06Case) {
		evals++
		class, detail, premise := c06Judge(dir, c)
		if !premise {
			premiseFalse++
			return
		}
		nontrivial.Add(c.String())
		if class == "" {
			outcomes.Add("agree")
			return
		}
		outcomes.Add(class)
		min := c06Minimise(dir, c, class)
		chk.Violation("C06|"+class+"|"+min, fmt.Sprintf("%s on case [%s] (minimal failing features [%s]): %s", class, c, min, firstLines(detail, 3)),
			map[string]interface{}{"driver": "C06", "case": c, "case_text": c.String()})
		if len(samples) < 4 {
			samples = append(samples, c.String())
		}
	}
	// core product
	coreN := 0
	for ver := 0; ver < 3; ver++ {
		for n := 0; n < len(c06Values[dN])-1; n++ {
			for nu := 0; nu < 2; nu++ {
				for ext := 0; ext < len(c06Values[dExt]); ext++ {
					for enc := 0; enc < 3; enc++ {
						for date := 0; date < 2; date++ {
							var c c06Case
							c[dVer], c[dN], c[dNU], c[dExt], c[dEnc], c[dDate] = ver, n, nu, ext, enc, date
							judge(c)
							coreN++
						}
					}
				}
			}
		}
	}
	// the size class with four length octets (CertificateList, tbsCertList and revokedCertificates above 16 MiB)
	{
		var c c06Case
		c[dN] = len(c06Values[dN]) - 1
		judge(c)
		coreN++
		if tier == "thorough" {
			c[dEnc] = 1
			judge(c)
			c[dEnc], c[dExt] = 0, 1
			judge(c)
			coreN += 2
		}
	}
	// one-at-a-time dimensions crossed with a reduced core (version x crlExtensions{aki+number,absent} x encoding)
	single := 0
	for _, d := range []int{dSerial, dEExt, dIssuer, dAlg, dUpd} {
		for v := 1; v < len(c06Values[d]); v++ {
			for ver := 0; ver < 2; ver++ {
				for ext := 0; ext < 2; ext++ {
					for enc := 0; enc < 3; enc++ {
						for _, n := range []int{0, 4} { // 3 and 30 entries
							var c c06Case
							c[d], c[dVer], c[dExt], c[dEnc], c[dN] = v, ver, ext, enc, n
							judge(c)
							single++
						}
					}
				}
			}
		}
	}
	// differential: DER vs PEM of the same document is implied by comparing each with the same reference.
	// alignment sweep
	sweep := 0
	maxPadDER, maxPadPEM := 4095, 4095
	if tier == "thorough" {
		maxPadPEM = 12287
	}
	for _, n := range []int{0, 4} {
		for pad := 1; pad <= maxPadPEM; pad++ {
			for enc := 0; enc < 3; enc++ {
				if enc == 0 && pad > maxPadDER {
					continue
				}
				if n == 4 && enc == 2 && tier != "thorough" && pad%4 != 0 {
					continue
				}
				var c c06Case
				c[dPad], c[dEnc], c[dN] = pad, enc, n
				judge(c)
				sweep++
				if n == 0 && (tier == "thorough" || enc != 2 || pad%3 == 0) {
					// the same sweep with a 2048-bit RSA signature: its BIT STRING header has two length octets
					// (03 82 01 01) that can straddle a window where the ECDSA one (03 47) cannot
					c[dAlg] = 3
					judge(c)
					sweep++
				}
				if n == 0 && (enc == 0 || pad%3 == 0) {
					// ... and with entries whose own header has a long-form length (every entry header is peeked before it
					// is read; where the window ends inside such a header is swept as well)
					for _, ee := range []int{6, 7} {
						var c2 c06Case
						c2[dPad], c2[dEnc], c2[dN], c2[dEExt] = pad, enc, n, ee
						judge(c2)
						sweep++
					}
				}
			}
		}
	}
	sizeCases := c06SizeBoundary(chk, dir, tier)
	evals += sizeCases
	rejectCases := c06MustReject(chk, dir)
	evals += rejectCases
	os.RemoveAll(dir)
	shortPlans, shortReads := c06ShortReads(chk, tier)
	keys := outcomes.Keys()
	sort.Strings(keys)
	if len(samples) == 0 {
		var c c06Case
		c[dN], c[dEnc], c[dPad] = 4, 1, 777
		samples = []string{c06Case{}.String(), c.String()}
	}
	cov := fw.Coverage{
		"evaluations":                 evals,
		"distinct_nontrivial":         nontrivial.N(),
		"rule":                        "shape grammar: full product version(3) x entries(6) x nextUpdate(2) x crlExtensions(6) x encoding(3) x revocation-date form(2); serial forms, entry extensions, issuer shapes and signature algorithms each crossed with version(2) x crlExtensions(2) x encoding(3) x entries{3,30}; alignment sweep pad=1..4095 (DER) / 1..4095|12287 (PEM LF, CRLF) for 3- and 30-entry documents. A case is non-trivial when it is inside the premise (well-formed or must-be-rejected shape); distinct by parameter tuple.",
		"samples":                     samples,
		"core_cases":                  coreN,
		"single_dimension_cases":      single,
		"alignment_cases":             sweep,
		"element_size_boundary_cases": sizeCases,
		"must_reject_cases":           rejectCases,
		"short_read_plans":            shortPlans,
		"short_read_positions":        shortReads,
		"premise_false":               premiseFalse,
		"outcome_classes":             outcomes.Counts(),
		"exhaustive":                  true,
	}
	return chk.Finish(cov)
}

func init() { registry["C06"] = RunC06 }
