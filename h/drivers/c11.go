package drivers

import (
	"crypto/x509/pkix"
	"encoding/json"
	"errors"
	"fmt"
	"math/big"
	"os"
	"sort"
	"strconv"
	"strings"
	"time"

	"github.com/gr33nbl00d/caddy-revocation-validator/config"
	"github.com/gr33nbl00d/caddy-revocation-validator/crl"

	"verif/h/fw"
	"verif/h/rt/vsched"
	"verif/h/world"
)

// C11: precision - only entries of CRLs in force, under the same issuer, revoke.

type c11Cfg struct {
	Background bool
	Disk       bool
}

func (c c11Cfg) String() string {
	return fmt.Sprintf("fetch=%s backend=%s", map[bool]string{false: "actively", true: "background"}[c.Background], be(c.Disk))
}

var c11States = []string{"down", "badsig{r}", "parsefail{r}", "critext{r}", "good{a}", "good{}"}

type c11Cast struct {
	p       *world.PKI
	r, a, n *world.Ident // serials 201 (only in rejected lists), 202 (in good{a}), 203 (never listed)
	docs    map[string][]byte
}

func newC11Cast() *c11Cast {
	p := world.Std()
	c := &c11Cast{p: p, docs: map[string][]byte{}}
	c.r = world.Leaf(p.CA, bi(201), []string{urlA}, nil)
	c.a = world.Leaf(p.CA, bi(202), []string{urlA}, nil)
	c.n = world.Leaf(p.CA, bi(203), []string{urlA}, nil)
	bad := world.SimpleCRL(p.CA, 5, 201)
	bad.BadSig = true
	c.docs["badsig{r}"] = bad.DER()
	pf := world.SimpleCRL(p.CA, 6, 201).DER()
	c.docs["parsefail{r}"] = pf[:len(pf)-30] // entries complete, signature truncated
	ce := world.SimpleCRL(p.CA, 7, 201)
	// a critical issuingDistributionPoint (indirect CRL, some reasons only): a standard extension this validator does not
	// implement - such a list must stay out of force like any other it cannot fully interpret
	// (it stands behind the supported extensions, which are marked critical here as well)
	for i := range ce.Exts {
		ce.Exts[i].Critical = true
	}
	ce.Exts = append(ce.Exts, world.StdCriticalExt("idp"))
	c.docs["critext{r}"] = ce.DER()
	// the accepted lists carry no cRLNumber (it is optional): what supersedes a list is the later accepted download,
	// not a number comparison
	ga, ge := world.SimpleCRL(p.CA, 8, 202), world.SimpleCRL(p.CA, 9)
	ga.Exts, ge.Exts = ga.Exts[:1], ge.Exts[:1]
	c.docs["good{a}"] = ga.DER()
	c.docs["good{}"] = ge.DER()
	return c
}

// c11AfterEvent, when set, is called after every completed event (C20 re-uses this runner for its residue invariant).
var c11AfterEvent func(dir, event string)

var c11Events = []string{"set(down)", "set(badsig{r})", "set(parsefail{r})", "set(critext{r})", "set(good{a})", "set(good{})", "probe-all", "tick", "bgfetch-completes", "restart"}

func (c *c11Cast) run(cfg c11Cfg, hist []int) (out c10Run) {
	res := seqWorld(func() {
		net := world.NewNet()
		dir := FreshDir("c11")
		defer os.RemoveAll(dir)
		mk := func() *CW {
			w := NewCW(CWOpt{Disk: cfg.Disk, SigMode: config.SignatureValidationModeVerify, Background: cfg.Background, Dir: dir, Net: net})
			if err := w.Provision(); err != nil {
				panic("provision: " + err.Error())
			}
			vsched.Drain()
			return w
		}
		w := mk()
		vsched.SetHoldSpawns(true)
		state := "down"
		net.Down(urlA)
		// reference: which list is in force (nil = none), what is on disk
		var inForce map[int64]bool
		known, loaded := false, false
		pendingBg := 0
		var diskList map[int64]bool
		diskHas := false
		rejectedSeen := map[string]bool{}
		listOf := func(s string) (map[int64]bool, bool) {
			switch s {
			case "good{a}":
				return map[int64]bool{202: true}, true
			case "good{}":
				return map[int64]bool{}, true
			}
			return nil, false
		}
		attempt := func(refresh bool) {
			if !known {
				return
			}
			if loaded && !refresh {
				return
			}
			if state != "down" {
				if l, ok := listOf(state); ok {
					inForce, loaded = l, true
					if cfg.Disk {
						diskList, diskHas = l, true
					}
				} else {
					rejectedSeen[state] = true
				}
			}
		}
		step := func(e int) (abort bool) {
			name := c11Events[e]
			switch {
			case strings.HasPrefix(name, "set("):
				s := strings.TrimSuffix(strings.TrimPrefix(name, "set("), ")")
				if s == state {
					out.key = ""
					return true
				}
				state = s
				if s == "down" {
					net.Down(urlA)
				} else {
					net.Serve(urlA, s, c.docs[s])
				}
			case name == "probe-all":
				for i, pr := range []*world.Ident{c.r, c.a, c.n} {
					if !known {
						known = true
						if cfg.Disk && diskHas {
							inForce, loaded = diskList, true
						}
						if cfg.Background {
							pendingBg++
						}
					}
					if !cfg.Background {
						attempt(false)
					}
					v := w.Lookup(pr, world.Chain(pr, c.p.CA, c.p.Root))
					serial := pr.Cert.SerialNumber.Int64()
					pname := []string{"r", "a", "n"}[i]
					out.trace = append(out.trace, fmt.Sprintf("%s=%s", pname, v))
					switch {
					case v.Panic != "":
						out.viols = append(out.viols, c14Viol{"C11|panic|" + normaliseNumbers(firstLines(v.Panic, 1)), "lookup panicked: " + v.Panic})
					case v.Err != "":
						out.viols = append(out.viols, c14Viol{"C11|lookup-error|" + c10ErrClass(v.Err), fmt.Sprintf("lookup of %s failed although crl_cdp_strict is off: %s", pname, v.Err)})
					case v.Revoked && !(loaded && inForce[serial]):
						var rs []string
						for k := range rejectedSeen {
							rs = append(rs, k)
						}
						sort.Strings(rs)
						origin := "superseded-list"
						if pname == "r" {
							origin = "rejected-list " + strings.Join(rs, "+")
						} else if pname == "n" {
							origin = "never-listed"
						}
						out.viols = append(out.viols, c14Viol{"C11|revoked-not-in-force|" + pname + "|" + origin,
							fmt.Sprintf("certificate %s (serial %d) reported revoked although the CRL in force (%v, loaded=%v) does not list it; entry stems from: %s", pname, serial, keysOf(inForce), loaded, origin)})
					}
				}
			case name == "tick":
				vsched.Advance(w.Cfg.UpdateIntervalParsed)
				vsched.ReleaseSite("initCRLUpdateTicker")
				attempt(true)
			case name == "bgfetch-completes":
				if vsched.HeldCount("IsRevoked") == 0 {
					out.key = ""
					return true
				}
				vsched.ReleaseSite("IsRevoked")
				if pendingBg > 0 {
					pendingBg = 0
					attempt(true) // updateCRLs(true) loads unloaded entries and refreshes loaded ones
				}
			case name == "restart":
				vsched.ReleaseAll()
				if pendingBg > 0 {
					pendingBg = 0
					attempt(true)
				}
				w.Chk.Cleanup()
				crl.VerifReset()
				vsched.SetHoldSpawns(false)
				known, loaded, inForce = false, false, nil
				w = mk()
				vsched.SetHoldSpawns(true)
			}
			if c11AfterEvent != nil && len(vsched.Held()) == 0 {
				c11AfterEvent(dir, name)
			}
			return false
		}
		for _, e := range hist {
			if step(e) {
				return
			}
		}
		var ents []string
		for _, e := range w.Repo().VerifEntries() {
			ents = append(ents, fmt.Sprintf("%v/%v/%s", e.Loaded, e.LastUpdateSignatureVerifyFailed, storeDigest(e.Store)))
		}
		out.key = fmt.Sprintf("srv=%s ref=%v/%v/%v/%d disk=%v/%v impl=%v dir=%s held=%d", state, known, loaded, keysOf(inForce), pendingBg, diskHas, keysOf(diskList), ents, dirDigest(dir), len(vsched.Held()))
		// final observation (after the key was taken): every history, also one which is merged into a state seen before,
		// ends with all probes judged - state the reference does not know about (a cache filled by earlier lookups) would
		// otherwise disappear with the merged history
		if n := len(hist); n > 0 && c11Events[hist[n-1]] != "probe-all" {
			out.trace = append(out.trace, "final:")
			step(6)
		}
		vsched.ReleaseAll()
		w.Chk.Cleanup()
	})
	if res.Verdict != vsched.OK {
		out.viols = append(out.viols, c14Viol{"C11|" + res.Verdict.String() + "|" + res.PanicSite, firstLines(res.Detail, 6)})
	}
	return
}

func keysOf(m map[int64]bool) []int64 {
	var k []int64
	for x := range m {
		k = append(k, x)
	}
	sort.Slice(k, func(i, j int) bool { return k[i] < k[j] })
	return k
}

// ---------------------------------------------------------------- issuer scoping / serial neighbourhood

func c11Neighbourhood(chk *fw.Check) (evals, nontrivial int, samples []string) {
	p := world.Std()
	caA := p.CA
	mkCA := func(cn string, idx int, serial int64) *world.Ident {
		return world.Issue(p.Root, world.CertOpt{CN: cn, IsCA: true, KeyKind: "ec", KeyIdx: idx, Serial: big.NewInt(serial)})
	}
	// other issuers: plainly different DN, DN that differs by a "_<digits>" suffix, by case, by an extra RDN
	others := []*world.Ident{
		mkCA("verif issuing CA B", 6, 71),
		mkCA("verif issuing CA_5", 6, 72),
		mkCA("verif issuing CA_57", 6, 73),
		mkCA("Verif Issuing CA", 6, 74),
		world.Issue(p.Root, world.CertOpt{Subject: &pkix.Name{CommonName: "verif issuing CA", Organization: []string{"verif"}, OrganizationalUnit: []string{"x"}}, IsCA: true, KeyKind: "ec", KeyIdx: 6, Serial: big.NewInt(75)}),
		// names which differ from A's only in attribute order / by a repeated CN: distinct encoded names which a lossy
		// rendering (pkix.Name) maps onto A's
		world.Issue(p.Root, world.CertOpt{CN: "reordered", RawSubject: world.RawDN("CN", "verif issuing CA", "O", "verif"), IsCA: true, KeyKind: "ec", KeyIdx: 6, Serial: big.NewInt(76)}),
		world.Issue(p.Root, world.CertOpt{CN: "repeated-cn", RawSubject: world.RawDN("O", "verif", "CN", "backup", "CN", "verif issuing CA"), IsCA: true, KeyKind: "ec", KeyIdx: 6, Serial: big.NewInt(77)}),
	}
	_ = others
	two64 := new(big.Int).Lsh(big.NewInt(1), 64)
	listed := []*big.Int{big.NewInt(5), big.NewInt(57), big.NewInt(300), new(big.Int).Add(two64, big.NewInt(5)), new(big.Int).Lsh(big.NewInt(0x7f), 152), big.NewInt(7),
		// a negative serial number on the list (INTEGER 0xB3): the certificate with the same magnitude is another one
		big.NewInt(-77)}
	isListed := func(s *big.Int) bool {
		for _, l := range listed {
			if l.Cmp(s) == 0 {
				return true
			}
		}
		return false
	}
	neigh := map[string]*big.Int{}
	add := func(x *big.Int) {
		if x.Sign() > 0 {
			neigh[x.String()] = x
		}
	}
	for _, s := range listed {
		add(s)
		add(new(big.Int).Abs(s))
		add(new(big.Int).Add(s, big.NewInt(1)))
		add(new(big.Int).Sub(s, big.NewInt(1)))
		add(new(big.Int).Mul(s, big.NewInt(256)))
		add(new(big.Int).Rsh(s, 8))
		add(new(big.Int).Add(s, two64))
		add(new(big.Int).Mod(s, two64))
		b := s.Bytes()
		if len(b) > 1 {
			add(new(big.Int).SetBytes(b[1:]))
			add(new(big.Int).SetBytes(b[:len(b)-1]))
		}
		// decimal concatenation neighbours
		d := s.String()
		if len(d) > 1 {
			x, _ := new(big.Int).SetString(d[1:], 10)
			add(x)
			y, _ := new(big.Int).SetString(d[:len(d)-1], 10)
			add(y)
		}
		z, _ := new(big.Int).SetString(d+"7", 10)
		add(z)
	}
	var keys []string
	for k := range neigh {
		keys = append(keys, k)
	}
	sort.Strings(keys)
	for _, disk := range []bool{false, true} {
		seqWorld(func() {
			w := NewCW(CWOpt{Disk: disk, SigMode: config.SignatureValidationModeVerify})
			defer os.RemoveAll(w.Dir)
			if err := w.Provision(); err != nil {
				panic(err)
			}
			vsched.Drain()
			spec := world.SimpleCRL(caA, 1)
			for _, s := range listed {
				spec.Entries = append(spec.Entries, world.RevEntry{Serial: s, Date: vsched.Epoch.Add(-time.Hour)})
			}
			w.Net.Serve(urlA, "listA", spec.DER())
			first := world.Issue(caA, world.CertOpt{CN: "c11 loader", Serial: big.NewInt(999999), KeyKind: "ec", KeyIdx: 5, CDP: []string{urlA}})
			if v := w.Lookup(first, world.Chain(first, caA, p.Root)); v.String() != "OK" {
				panic("c11 setup: " + v.String() + v.Err)
			}
			for _, k := range keys {
				s := neigh[k]
				issuers := append([]*world.Ident{caA}, others...)
				for ii, iss := range issuers {
					leaf := world.Issue(iss, world.CertOpt{CN: "c11 probe", Serial: s, KeyKind: "ec", KeyIdx: 5})
					v := w.Lookup(leaf, world.Chain(leaf, iss, p.Root))
					evals++
					want := ii == 0 && isListed(s)
					if !want {
						nontrivial++
					}
					if len(samples) < 3 && evals%41 == 0 {
						samples = append(samples, fmt.Sprintf("issuer=%q serial=%s => %s", iss.Cert.Subject.CommonName, s, v))
					}
					if v.Err != "" || v.Panic != "" {
						chk.Violation("C11|neighbourhood-error|"+be(disk), fmt.Sprintf("lookup failed for issuer %q serial %s: %s%s", iss.Cert.Subject, s, v.Err, v.Panic), nil)
						continue
					}
					if v.Revoked && !want {
						cls := "other-issuer"
						if ii == 0 {
							cls = "unlisted-serial"
						}
						chk.Violation("C11|revoked-not-listed|"+cls+"|"+be(disk), fmt.Sprintf("issuer %q serial %s reported revoked; the only CRL in force is issued by %q and lists %v", iss.Cert.Subject, s, caA.Cert.Subject, listed), map[string]interface{}{"issuer": iss.Cert.Subject.String(), "serial": s.String(), "disk": disk})
					}
					if !v.Revoked && want {
						chk.Violation("C11|listed-not-revoked|"+be(disk), fmt.Sprintf("vacuity guard: listed serial %s of the right issuer is not revoked", s), nil)
					}
				}
			}
			w.Chk.Cleanup()
		})
	}
	return
}

// c11Teletex: two issuers whose names are TeletexStrings differing in one octet which is not valid UTF-8 (Latin-1
// "M\xfcller" / "M\xf6ller"): still two different issuers.
func c11Teletex(chk *fw.Check) (evals int) {
	p := world.Std()
	// (second pair, UTF8String names: characters whose code points share the low byte, e.g. U+0161 and U+0061)
	caS := world.Issue(p.Root, world.CertOpt{Subject: &pkix.Name{CommonName: "Pr\u0161ha \u0141\u00f3d\u017a CA", Organization: []string{"verif"}}, IsCA: true, KeyKind: "ec", KeyIdx: 6, Serial: big.NewInt(86)})
	caA := world.Issue(p.Root, world.CertOpt{Subject: &pkix.Name{CommonName: "Praha A\u00f3dz CA", Organization: []string{"verif"}}, IsCA: true, KeyKind: "ec", KeyIdx: 7, Serial: big.NewInt(87)})
	const urlS = "http://crl.test/lowbyte.crl"
	type pair struct {
		what          string
		lister, other *world.Ident
		listed, probe int64
	}
	ca := func(serial int64, idx int, name *pkix.Name, raw []byte) *world.Ident {
		return world.Issue(p.Root, world.CertOpt{CN: fmt.Sprint("c11 pair ", serial), Subject: name, RawSubject: raw, IsCA: true, KeyKind: "ec", KeyIdx: idx, Serial: big.NewInt(serial)})
	}
	pairs := []pair{
		{"the names differ in characters whose code points share the low byte", caS, caA, 5, 5},
		{"the names differ in characters whose UTF-8 encodings share the lead byte and differ in the continuation byte",
			ca(94, 6, &pkix.Name{CommonName: "M\u00fcller Issuing CA", Organization: []string{"verif"}}, nil), ca(95, 7, &pkix.Name{CommonName: "M\u00f6ller Issuing CA", Organization: []string{"verif"}}, nil), 5, 5},
		{"the names differ in characters whose UTF-8 encodings share the continuation byte and differ in the lead byte",
			ca(96, 6, &pkix.Name{CommonName: "\u00c0lpha CA", Organization: []string{"verif"}}, nil), ca(97, 7, &pkix.Name{CommonName: "\u0100lpha CA", Organization: []string{"verif"}}, nil), 5, 5},
		// where the name ends and the serial number begins: "... 1" + 23 against "... 12" + 3 (and the other way round),
		// with the digits in the attribute which is rendered last (the organisation) and in a name of one attribute
		{"the other issuer's name is this one's plus a digit, its serial number lacks that digit",
			ca(88, 6, &pkix.Name{CommonName: "Plant CA", Organization: []string{"verif 1"}}, nil), ca(89, 7, &pkix.Name{CommonName: "Plant CA", Organization: []string{"verif 12"}}, nil), 23, 3},
		{"this issuer's name is the other one's plus a digit, its serial number lacks that digit",
			ca(89, 7, &pkix.Name{CommonName: "Plant CA", Organization: []string{"verif 12"}}, nil), ca(88, 6, &pkix.Name{CommonName: "Plant CA", Organization: []string{"verif 1"}}, nil), 3, 23},
		{"single-attribute names: the other issuer's name is this one's plus a digit",
			ca(90, 6, nil, world.RawDN("CN", "Plant CA 1")), ca(91, 7, nil, world.RawDN("CN", "Plant CA 12")), 23, 3},
		{"the other issuer's name is this one's plus '_1', serial numbers 23 and 1_23 cannot collide but 1 and the suffix could",
			ca(92, 6, nil, world.RawDN("CN", "Plant CA")), ca(93, 7, nil, world.RawDN("CN", "Plant CA_2")), 23, 3},
	}
	for _, pr := range pairs {
		pr := pr
		for _, disk := range []bool{false, true} {
			seqWorld(func() {
				w := NewCW(CWOpt{Disk: disk, SigMode: config.SignatureValidationModeVerify})
				defer os.RemoveAll(w.Dir)
				if err := w.Provision(); err != nil {
					panic(err)
				}
				vsched.Drain()
				w.Net.Serve(urlS, "listS", world.SimpleCRL(pr.lister, 1, pr.listed).DER())
				listed := world.Issue(pr.lister, world.CertOpt{CN: "c11 pair listed", Serial: big.NewInt(pr.listed), KeyKind: "ec", KeyIdx: 5, CDP: []string{urlS}})
				if v := w.Lookup(listed, world.Chain(listed, pr.lister, p.Root)); v.String() != "REVOKED" {
					chk.Violation("C11|listed-not-revoked|issuer-pair|"+be(disk), fmt.Sprintf("vacuity guard: the listed certificate of issuer %q is not revoked: %s %s", pr.lister.Cert.Subject.String(), v, v.Err), nil)
					return
				}
				other := world.Issue(pr.other, world.CertOpt{CN: "c11 pair other", Serial: big.NewInt(pr.probe), KeyKind: "ec", KeyIdx: 5})
				v := w.Lookup(other, world.Chain(other, pr.other, p.Root))
				evals++
				if v.Revoked {
					sig := "other-issuer-same-low-bytes"
					if pr.listed != pr.probe {
						sig = "other-issuer-name-and-serial-run-together"
					}
					chk.Violation("C11|revoked-not-listed|"+sig+"|"+be(disk), fmt.Sprintf("issuer %q serial %d reported revoked; the only CRL in force is issued by %q and lists serial %d (%s)", pr.other.Cert.Subject.String(), pr.probe, pr.lister.Cert.Subject.String(), pr.listed, pr.what), nil)
				}
				w.Chk.Cleanup()
			})
		}
	}
	caU := world.Issue(p.Root, world.CertOpt{CN: "t61-u", RawSubject: world.RawDNT61("O", "verif", "CN", "M\xfcller CA"), IsCA: true, KeyKind: "ec", KeyIdx: 6, Serial: big.NewInt(78)})
	caO := world.Issue(p.Root, world.CertOpt{CN: "t61-o", RawSubject: world.RawDNT61("O", "verif", "CN", "M\xf6ller CA"), IsCA: true, KeyKind: "ec", KeyIdx: 7, Serial: big.NewInt(79)})
	const urlT = "http://crl.test/teletex.crl"
	for _, disk := range []bool{false, true} {
		seqWorld(func() {
			w := NewCW(CWOpt{Disk: disk, SigMode: config.SignatureValidationModeVerify})
			defer os.RemoveAll(w.Dir)
			if err := w.Provision(); err != nil {
				panic(err)
			}
			vsched.Drain()
			w.Net.Serve(urlT, "listU", world.SimpleCRL(caU, 1, 5).DER())
			listed := world.Issue(caU, world.CertOpt{CN: "c11 t61 listed", Serial: big.NewInt(5), KeyKind: "ec", KeyIdx: 5, CDP: []string{urlT}})
			if v := w.Lookup(listed, world.Chain(listed, caU, p.Root)); v.String() != "REVOKED" {
				// outside the premise: this CRL did not come into force (as of this writing the stores cannot serialise
				// an issuer name which is not valid UTF-8, so such a CRL is never loaded and cannot revoke anything)
				return
			}
			other := world.Issue(caO, world.CertOpt{CN: "c11 t61 other", Serial: big.NewInt(5), KeyKind: "ec", KeyIdx: 5})
			v := w.Lookup(other, world.Chain(other, caO, p.Root))
			evals++
			if v.Revoked {
				chk.Violation("C11|revoked-not-listed|other-issuer-teletex-name|"+be(disk),
					fmt.Sprintf("issuer %q (TeletexString, octets % x) serial 5 reported revoked; the only CRL in force is issued by %q (octets % x): the two names differ in an octet which is not valid UTF-8 and are rendered alike", caO.Cert.Subject.CommonName, caO.Cert.Subject.CommonName, caU.Cert.Subject.CommonName, caU.Cert.Subject.CommonName), nil)
			}
			w.Chk.Cleanup()
		})
	}
	return
}

// c11Unknown: where the status cannot be determined - the store of the list was lost by a refresh whose swap failed,
// the repository was closed - a certificate which no list names is denied with an error or accepted, never reported
// REVOKED: "revoked" is a statement about a list entry.
func c11Unknown(chk *fw.Check) (evals int) {
	c := newC11Cast()
	for _, disk := range []bool{false, true} {
		for _, how := range []string{"swap-fails-at-rename-1", "swap-fails-at-rename-2", "swap-fails-at-reopen", "after-cleanup"} {
			if !disk && how != "after-cleanup" {
				continue
			}
			evals++
			how := how
			var vs []Verdict
			res := seqWorld(func() {
				w := NewCW(CWOpt{Disk: disk, SigMode: config.SignatureValidationModeVerify})
				defer os.RemoveAll(w.Dir)
				if err := w.Provision(); err != nil {
					panic(err)
				}
				vsched.Drain()
				w.Net.Serve(urlA, "good{a}", c.docs["good{a}"])
				if v := w.Lookup(c.a, world.Chain(c.a, c.p.CA, c.p.Root)); !v.Revoked {
					panic("c11 unknown: setup " + v.String() + v.Err)
				}
				if how == "after-cleanup" {
					w.Chk.Cleanup()
				} else {
					w.Net.Serve(urlA, "good{}", c.docs["good{}"])
					n := 0
					vsched.EffectHook = func(kind, arg string) error {
						want := map[string]string{"swap-fails-at-rename-1": "rename", "swap-fails-at-rename-2": "rename", "swap-fails-at-reopen": "ldb.open"}[how]
						if kind == want {
							n++
							if (how == "swap-fails-at-rename-2" && n == 2) || (how != "swap-fails-at-rename-2" && n == 1) || (how == "swap-fails-at-reopen" && n >= 1) {
								return errors.New("injected: " + kind + " failed")
							}
						}
						return nil
					}
					w.Chk.VerifUpdateCRLs(true)
					vsched.Drain()
				}
				// (presented with and without the distribution point in the certificate: without it nothing makes the
				// validator look the list up again)
				for _, pr := range []*world.Ident{world.Leaf(c.p.CA, bi(203), nil, nil), world.Leaf(c.p.CA, bi(201), nil, nil), c.n, c.r} {
					vs = append(vs, w.Lookup(pr, world.Chain(pr, c.p.CA, c.p.Root)))
				}
				vsched.EffectHook = nil
				if how != "after-cleanup" {
					w.Chk.Cleanup()
				}
			})
			vsched.EffectHook = nil
			if res.Verdict != vsched.OK {
				chk.Violation("C11|panic|status-unknown "+how+"|"+be(disk), firstLines(res.Detail, 4), nil)
				continue
			}
			for i, v := range vs {
				if v.Revoked {
					chk.Violation("C11|revoked-not-listed|status-unknown "+how+"|"+be(disk), fmt.Sprintf("%s (%s backend): certificate %d, which no list names, is reported REVOKED", how, be(disk), 203-2*(i%2)), nil)
				}
			}
		}
	}
	return
}

// RunC11 is the entry point of the C11 check.
// c11SameKeyOtherName: one CA key, two CA certificates with different names (the CA was re-certified under a new name,
// its key kept): both carry the same subject key identifier, so their clients' certificates carry the same authority
// key identifier - and the same serial numbers may occur under both names. The list of the old name lists serial 4711;
// the certificate 4711 of the new name is on no list. Both orders of asking, both backends.
func c11SameKeyOtherName(chk *fw.Check) (evals int) {
	p := world.Std()
	oldName := world.Issue(p.Root, world.CertOpt{CN: "c11 issuing CA G1", IsCA: true, KeyKind: "ec", KeyIdx: 6, Serial: big.NewInt(71)})
	newName := world.Issue(p.Root, world.CertOpt{CN: "c11 issuing CA", IsCA: true, KeyKind: "ec", KeyIdx: 6, Serial: big.NewInt(72)})
	if string(oldName.Cert.SubjectKeyId) != string(newName.Cert.SubjectKeyId) || string(oldName.Cert.RawSubject) == string(newName.Cert.RawSubject) {
		panic("c11 cast: the two CA certificates are expected to share the key identifier and differ in name")
	}
	const urlOld, urlNew = "http://crl.test/c11-g1.crl", "http://crl.test/c11-renamed.crl"
	listedOld := world.Leaf(oldName, bi(4711), []string{urlOld}, nil)
	sameSerialNew := world.Leaf(newName, bi(4711), []string{urlNew}, nil)
	for _, disk := range []bool{false, true} {
		for _, newFirst := range []bool{false, true} {
			evals++
			disk, newFirst := disk, newFirst
			seqWorld(func() {
				w := NewCW(CWOpt{Disk: disk, SigMode: config.SignatureValidationModeVerify})
				defer os.RemoveAll(w.Dir)
				if err := w.Provision(); err != nil {
					panic(err)
				}
				vsched.Drain()
				w.Net.Serve(urlOld, "g1", world.SimpleCRL(oldName, 1, 4711).DER())
				w.Net.Serve(urlNew, "renamed", world.SimpleCRL(newName, 1, 4999).DER())
				ask := func(l *world.Ident, ca *world.Ident) string { return w.Lookup(l, world.Chain(l, ca, p.Root)).String() }
				var a, b string
				if newFirst {
					b = ask(sameSerialNew, newName)
					a = ask(listedOld, oldName)
					b = b + "," + ask(sameSerialNew, newName)
				} else {
					a = ask(listedOld, oldName)
					b = ask(sameSerialNew, newName)
					b = b + "," + ask(sameSerialNew, newName)
				}
				if a != "REVOKED" || b != "OK,OK" {
					chk.Violation(fmt.Sprintf("C11|other-issuer-same-key-identifier|%s", be(disk)),
						fmt.Sprintf("two CA certificates with one key and different names; the old name's list names serial 4711 (new name asked first: %v): certificate 4711 of the old name reads %s (expected REVOKED), certificate 4711 of the new name reads %s (expected OK,OK)", newFirst, a, b), nil)
				}
				w.Chk.Cleanup()
			})
		}
	}
	return
}

func RunC11(tier string, args []string) int {
	if len(args) > 0 && args[0] == "hworker" {
		wtier := args[1]
		shard, _ := strconv.Atoi(args[2])
		n, _ := strconv.Atoi(args[3])
		c := newC11Cast()
		depth := 5
		if wtier == "thorough" {
			depth = 12
		}
		out := hWorkerOut{Outcomes: map[string]int{}}
		vs := newViolSet()
		cfgs := []c11Cfg{{false, false}, {false, true}, {true, false}, {true, true}}
		// shard over (config, first event)
		for ci, cfg := range cfgs {
			cfg := cfg
			for first := 0; first < len(c11Events); first++ {
				if (ci*len(c11Events)+first)%n != shard {
					continue
				}
				first := first
				st := fw.BFS(len(c11Events), depth-1, 0, time.Now().Add(30*time.Minute), func(h []int) (string, bool) {
					hist := append([]int{first}, h...)
					r := c.run(cfg, hist)
					if r.key == "" && len(r.viols) == 0 {
						return "", false
					}
					for _, v := range r.viols {
						names := make([]string, len(hist))
						for k, e := range hist {
							names[k] = c11Events[e]
						}
						vs.add(v.Sig+"|"+cfg.String(), fmt.Sprintf("[%s] %s; history: %s; trace: %s", cfg, v.What, strings.Join(names, " ; "), strings.Join(r.trace, " ")),
							map[string]interface{}{"driver": "C11", "config": cfg, "history": hist, "events": names})
					}
					return r.key, len(r.viols) == 0
				})
				out.Stats.States += st.States
				out.Stats.Transitions += st.Transitions
				out.Stats.Pruned += st.Pruned
				if st.MaxDepth+1 > out.Stats.MaxDepth {
					out.Stats.MaxDepth = st.MaxDepth + 1
				}
				out.Configs++
			}
		}
		out.Violations = vs.list()
		b, _ := json.Marshal(out)
		fmt.Println(string(b))
		return 0
	}
	chk := fw.NewCheck("C11", tier, "model_checking")
	chk.Assumptions = []string{
		"history half: reference model of the list in force per location (last accepted of good{a}/good{}; rejected documents badsig{r}/parsefail{r}/critext{r} never change it; disk keeps it across restart), load attempts mirrored as in C10",
		"neighbourhood half: one CRL of issuer A listing 6 serials; every arithmetic / byte / decimal neighbour serial probed under issuer A and 5 other issuers (different DN, DN with _<digits> suffix, other case, extra RDN)",
		"keys are 64-bit FNV hashes: the guarantee is up to hash collisions, which the generated cases do not hit",
	}
	ev, nt, samples := c11Neighbourhood(chk)
	ev += c11Teletex(chk) + c11Unknown(chk)
	total := runHWorkers(chk, "C11", tier, 16)
	sameKeyCases := c11SameKeyOtherName(chk)
	cov := fw.Coverage{
		"same_key_other_name_cases": sameKeyCases,
		"states":                        total.Stats.States + ev,
		"transitions":                   total.Stats.Transitions + ev,
		"traces_validated_against_impl": total.Stats.Transitions + ev,
		"history_states":                total.Stats.States,
		"history_transitions":           total.Stats.Transitions,
		"neighbourhood_probes":          ev,
		"neighbourhood_probes_expected_not_revoked": nt,
		"max_depth":      total.Stats.MaxDepth,
		"event_alphabet": c11Events,
		"samples":        append([]string{"set(badsig{r}) ; probe-all ; set(good{a}) ; probe-all", "set(good{a}) ; probe-all ; set(good{}) ; tick ; probe-all"}, samples...),
		"exhaustive":     !total.Stats.Capped,
	}
	return chk.Finish(cov)
}

func init() { registry["C11"] = RunC11 }
