// Package drivers holds one driver per property: the alphabet it enumerates,
// the boring reference model and the oracle.
package drivers

import (
	"crypto/sha256"
	"crypto/x509"
	"fmt"
	"io"
	"log"
	"math/big"
	"net/http"
	"os"
	"path/filepath"
	"sort"
	"strings"
	"sync/atomic"
	"time"

	"go.uber.org/zap"

	"github.com/gr33nbl00d/caddy-revocation-validator/config"
	"github.com/gr33nbl00d/caddy-revocation-validator/core"
	"github.com/gr33nbl00d/caddy-revocation-validator/crl"
	"github.com/gr33nbl00d/caddy-revocation-validator/crl/crlrepository"
	"github.com/gr33nbl00d/caddy-revocation-validator/crl/crlstore"
	"github.com/gr33nbl00d/caddy-revocation-validator/ocsp"

	"verif/h/rt/vleveldb"
	"verif/h/rt/vsched"
	"verif/h/world"
)

func init() {
	log.SetOutput(io.Discard) // the repository logs through the std logger in a few places
}

var scratchRoot string
var dirSeq int64

// Scratch returns the per-process scratch root (on tmpfs).
func Scratch() string {
	if scratchRoot == "" {
		base := os.Getenv("VERIF_SCRATCH")
		if base == "" {
			base = "/dev/shm/verif-scratch"
		}
		scratchRoot = filepath.Join(base, "work", fmt.Sprintf("p%d", os.Getpid()))
		os.MkdirAll(scratchRoot, 0755)
	}
	return scratchRoot
}

// CleanupScratch removes the process scratch root.
func CleanupScratch() {
	if scratchRoot != "" {
		os.RemoveAll(scratchRoot)
	}
}

// FreshDir creates a new empty directory under the scratch root.
func FreshDir(tag string) string {
	n := atomic.AddInt64(&dirSeq, 1)
	d := filepath.Join(Scratch(), fmt.Sprintf("%s%d", tag, n))
	os.RemoveAll(d)
	if err := os.MkdirAll(d, 0755); err != nil {
		panic(err)
	}
	return d
}

// ResetGlobals puts every process-global of the repository (and the cache
// library) back to its initial state: a fresh world.
func ResetGlobals() {
	crl.VerifReset()
	ocsp.VerifReset()
	// databases a previous world did not close (histories cut short, injected faults): release them, otherwise every
	// one keeps its write buffers for the rest of the process
	vleveldb.ReapOpen()
}

// CW is a CRL world: scripted origin + one CRLRevocationChecker.
type CW struct {
	Net *world.Net
	Dir string
	Cfg *config.CRLConfig
	Chk *crl.CRLRevocationChecker
	Log *zap.Logger
}

type CWOpt struct {
	Disk       bool
	SigMode    config.SignatureValidationMode
	Background bool
	Strict     bool
	Interval   string // default "30m"
	URLs       []string
	Files      []string
	Trusted    []*x509.Certificate
	Dir        string // reuse an existing work dir (restart)
	Net        *world.Net
}

// NewCW builds the config (parsed fields filled in the way ParseConfig would).
func NewCW(o CWOpt) *CW {
	w := &CW{Net: o.Net, Log: zap.NewNop()}
	if w.Net == nil {
		w.Net = world.NewNet()
	}
	w.Dir = o.Dir
	if w.Dir == "" {
		w.Dir = FreshDir("wd")
	}
	fetch := config.CRLFetchModeActively
	if o.Background {
		fetch = config.CRLFetchModeBackground
	}
	st := config.Memory
	if o.Disk {
		st = config.Disk
	}
	iv := 30 * 60 * 1e9
	w.Cfg = &config.CRLConfig{
		WorkDir:                       w.Dir,
		CDPConfig:                     &config.CDPConfig{CRLFetchModeParsed: fetch, CRLCDPStrict: o.Strict},
		CRLUrls:                       o.URLs,
		CRLFiles:                      o.Files,
		SignatureValidationModeParsed: o.SigMode,
		StorageTypeParsed:             st,
		TrustedSignatureCerts:         o.Trusted,
	}
	w.Cfg.UpdateIntervalParsed = parseDur(o.Interval, iv)
	w.Chk = &crl.CRLRevocationChecker{}
	return w
}

func (w *CW) Provision() error { return w.Chk.Provision(w.Cfg, w.Log) }

func (w *CW) Repo() *crlrepository.Repository { return w.Chk.VerifRepository() }

// Verdict is the observable outcome of one handshake-level lookup.
type Verdict struct {
	Revoked bool
	Err     string // "" = no error
	Panic   string
}

func (v Verdict) String() string {
	switch {
	case v.Panic != "":
		return "PANIC"
	case v.Err != "":
		return "ERR"
	case v.Revoked:
		return "REVOKED"
	}
	return "OK"
}

// Rejected reports whether the handshake would be denied.
func (v Verdict) Rejected() bool { return v.Revoked || v.Err != "" || v.Panic != "" }

// Lookup calls CRLRevocationChecker.IsRevoked, converting a panic into a verdict.
func (w *CW) Lookup(leaf *world.Ident, chain [][]*x509.Certificate) (v Verdict) {
	defer func() {
		if r := recover(); r != nil {
			if fmt.Sprintf("%T", r) == "vsched.abortSentinel" {
				panic(r)
			}
			v = Verdict{Panic: fmt.Sprint(r)}
		}
	}()
	st, err := w.Chk.IsRevoked(leaf.Cert, chain)
	return mkVerdict(st, err)
}

func mkVerdict(st *core.RevocationStatus, err error) Verdict {
	if err != nil {
		return Verdict{Err: err.Error()}
	}
	if st == nil {
		return Verdict{Err: "nil status without error"}
	}
	return Verdict{Revoked: st.Revoked}
}

func parseDur(s string, def float64) time.Duration {
	if s == "" {
		return time.Duration(def)
	}
	dd, err := time.ParseDuration(s)
	if err != nil {
		panic(err)
	}
	return dd
}

// ListDir classifies the entries of a work dir: 64-hex ids, temp pattern, other.
func ListDir(dir string) (ids, tmps, other []string) {
	ents, _ := os.ReadDir(dir)
	for _, e := range ents {
		n := e.Name()
		switch {
		case len(n) == 64 && isHex(n):
			ids = append(ids, n)
		case strings.HasPrefix(n, "crl_") && strings.HasSuffix(n, "_tmp"):
			tmps = append(tmps, n)
		default:
			other = append(other, n)
		}
	}
	sort.Strings(ids)
	sort.Strings(tmps)
	sort.Strings(other)
	return
}

func isHex(s string) bool {
	for _, c := range s {
		if !strings.ContainsRune("0123456789abcdef", c) {
			return false
		}
	}
	return true
}

func bi(n int64) *big.Int { return big.NewInt(n) }

var _ = vsched.Epoch

type x509Cert = x509.Certificate

// storeDigest summarises the content of a live CRL store (all keys and
// values) for canonical state keys: left-over entries are state.
func storeDigest(s crlstore.CRLStore) string {
	if s == nil {
		return "nil"
	}
	if fs, ok := s.(*faultStore); ok {
		s = fs.CRLStore
	}
	h := sha256.New()
	n := 0
	switch st := s.(type) {
	case *crlstore.MapStore:
		var keys []string
		for k := range st.Map {
			keys = append(keys, k)
		}
		sort.Strings(keys)
		for _, k := range keys {
			h.Write([]byte(k))
			h.Write(st.Map[k])
			n++
		}
	case *crlstore.LevelDbStore:
		if st.Db == nil {
			return "nodb"
		}
		it := st.Db.NewIterator(nil, nil)
		for it.Next() {
			h.Write(it.Key())
			h.Write(it.Value())
			n++
		}
		it.Release()
		if it.Error() != nil {
			return "closed"
		}
	default:
		return fmt.Sprintf("%T", s)
	}
	return fmt.Sprintf("%d:%x", n, h.Sum(nil)[:4])
}

// dirDigest is a physical digest of a work dir (relative names and sizes,
// LevelDB LOG/LOCK files excluded): data left on disk is state even when no
// repository entry refers to it yet.
func dirDigest(dir string) string {
	h := sha256.New()
	n := 0
	filepath.Walk(dir, func(path string, info os.FileInfo, err error) error {
		if err != nil || info.IsDir() {
			return nil
		}
		base := filepath.Base(path)
		if base == "LOG" || base == "LOCK" || base == "LOG.old" {
			return nil
		}
		rel, _ := filepath.Rel(dir, path)
		fmt.Fprintf(h, "%s:%d;", rel, info.Size())
		n++
		return nil
	})
	return fmt.Sprintf("%d:%x", n, h.Sum(nil)[:4])
}

type httpRequestAlias = http.Request
