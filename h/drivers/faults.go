package drivers

import (
	"crypto/x509/pkix"
	"errors"
	"math/big"

	"github.com/gr33nbl00d/caddy-revocation-validator/core"
	"github.com/gr33nbl00d/caddy-revocation-validator/crl/crlreader"
	"github.com/gr33nbl00d/caddy-revocation-validator/crl/crlstore"
)

// faultPlan describes one injected staging-store fault.
type faultPlan struct {
	Op       string // "" none | create | locations | start | insert | extmeta | sigcert
	K        int    // for insert: fail the K-th insert (1-based)
	TempOnly bool
	fired    bool
	inserts  int
}

var errInjected = errors.New("injected storage fault")

// faultFactory wraps the real store factory; stores created for staging
// (temporary=true) fail according to the plan. The wrapped store forwards
// everything else to the real store, including Update (which needs the real
// type on both sides, so Update unwraps its argument).
type faultFactory struct {
	inner crlstore.Factory
	plan  *faultPlan
}

func (f faultFactory) CreateStore(identifier string, temporary bool) (crlstore.CRLStore, error) {
	if f.plan != nil && f.plan.Op == "create" && temporary && !f.plan.fired {
		f.plan.fired = true
		return nil, errInjected
	}
	s, err := f.inner.CreateStore(identifier, temporary)
	if err != nil {
		return nil, err
	}
	if f.plan == nil || f.plan.Op == "" || (f.plan.TempOnly && !temporary) {
		return &faultStore{CRLStore: s}, nil
	}
	return &faultStore{CRLStore: s, plan: f.plan, active: temporary || !f.plan.TempOnly}, nil
}

type faultStore struct {
	crlstore.CRLStore
	plan   *faultPlan
	active bool
}

func (s *faultStore) hit(op string) bool {
	if s.plan == nil || !s.active || s.plan.fired || s.plan.Op != op {
		return false
	}
	if op == "insert" {
		s.plan.inserts++
		if s.plan.inserts != s.plan.K {
			return false
		}
	}
	s.plan.fired = true
	return true
}

func (s *faultStore) InsertRevokedCert(e *crlreader.CRLEntry) error {
	if s.hit("insert") {
		return errInjected
	}
	return s.CRLStore.InsertRevokedCert(e)
}
func (s *faultStore) StartUpdateCrl(i *crlreader.CRLMetaInfo) error {
	if s.hit("start") {
		return errInjected
	}
	return s.CRLStore.StartUpdateCrl(i)
}
func (s *faultStore) UpdateExtendedMetaInfo(i *crlreader.ExtendedCRLMetaInfo) error {
	if s.hit("extmeta") {
		return errInjected
	}
	return s.CRLStore.UpdateExtendedMetaInfo(i)
}
func (s *faultStore) UpdateSignatureCertificate(e *core.CertificateChainEntry) error {
	if s.hit("sigcert") {
		return errInjected
	}
	return s.CRLStore.UpdateSignatureCertificate(e)
}
func (s *faultStore) UpdateCRLLocations(p *core.CRLLocations) error {
	if s.hit("locations") {
		return errInjected
	}
	return s.CRLStore.UpdateCRLLocations(p)
}
func (s *faultStore) Update(o crlstore.CRLStore) error {
	if fs, ok := o.(*faultStore); ok {
		o = fs.CRLStore
	}
	return s.CRLStore.Update(o)
}
func (s *faultStore) GetCertRevocationStatus(issuer *pkix.RDNSequence, serial *big.Int) (*core.RevocationStatus, error) {
	return s.CRLStore.GetCertRevocationStatus(issuer, serial)
}
