package drivers

import (
	"github.com/gr33nbl00d/caddy-revocation-validator/core/hashing"
	"io"
	"syscall"

	"encoding/json"
	"errors"
	"fmt"
	lerrors "github.com/syndtr/goleveldb/leveldb/errors"
	"os"
	"os/exec"
	"path/filepath"
	"strconv"
	"strings"
	"time"

	"github.com/gr33nbl00d/caddy-revocation-validator/config"
	"github.com/gr33nbl00d/caddy-revocation-validator/crl/crlstore"

	"verif/h/fw"
	"verif/h/rt/vleveldb"
	"verif/h/rt/vsched"
	"verif/h/world"
)

// C09: fail closed on storage failure at lookup time.

type c09Fault struct {
	Name string
	Disk bool // applies to the disk backend
	Mem  bool // applies to the memory backend
	// Arm installs the fault on a world whose entry is loaded; returns a disarm func.
	Arm        func(w *CW, listedKeyRecord []byte) func()
	OnlyListed bool // the fault corrupts the record of the listed certificate
}

func c09Corruptions(rec []byte) map[string][]byte {
	m := map[string][]byte{
		"empty":              {},
		"one-byte":           {0x30},
		"other-type-integer": {0x02, 0x01, 0x05},
		"other-type-seq":     {0x30, 0x03, 0x0c, 0x01, 0x41},
		"tag-bit-flipped":    append([]byte{rec[0] ^ 0x10}, rec[1:]...),
		"length-inflated":    append([]byte{rec[0], rec[1] + 7}, rec[2:]...),
	}
	for i := 1; i < len(rec); i++ {
		m[fmt.Sprintf("truncated@%d", i)] = rec[:i]
	}
	// every single bit of the record flipped (a damaged record which still decodes is still the record of a revoked
	// certificate, or an error - whatever field the damage hit)
	for i := 0; i < len(rec)*8; i++ {
		d := append([]byte{}, rec...)
		d[i/8] ^= 1 << (uint(i) % 8)
		m[fmt.Sprintf("bitflip@%d", i)] = d
	}
	return m
}

// c09Physical: physical damage to the table files of a loaded disk store. A validator loads the CRL and is restarted
// twice (so that the records sit in a table file, not only in the journal); then, for every byte of every *.ldb file, a
// copy of the work_dir with that byte damaged is handed to a fresh validator (origin down) and the listed certificate
// is presented. Allowed: Provision fails, the lookup fails, or the certificate is reported revoked. Never: accepted.
var c09PhysOutcomes = map[string]int{}

func c09Physical(chk *fw.Check, c *c08Cast, tier string) (evals, nontrivial int) {
	listed := c.probes[0]
	base := FreshDir("c09img")
	defer os.RemoveAll(base)
	strict := false
	step := func(dir string, serve bool) (v Verdict, provErr string) {
		seqWorld(func() {
			w := NewCW(CWOpt{Disk: true, SigMode: config.SignatureValidationModeVerify, Dir: dir, Strict: strict})
			if serve {
				w.Net.Serve(urlA, "v1", c.vers[1])
			} else {
				w.Net.Down(urlA)
			}
			if err := w.Provision(); err != nil {
				provErr = err.Error()
				return
			}
			vsched.Drain()
			v = w.Lookup(listed, c.chain(listed))
			w.Chk.Cleanup()
		})
		return
	}
	if v, e := step(base, true); e != "" || v.String() != "REVOKED" {
		chk.Violation("C09|harness|physical-setup", "setup: "+e+" "+v.String()+" "+v.Err, nil)
		return
	}
	for i := 0; i < 2; i++ {
		if v, e := step(base, false); e != "" || v.String() != "REVOKED" {
			chk.Violation("C09|harness|physical-setup", fmt.Sprintf("setup: restart %d over the loaded store: %s %s %s", i+1, e, v, v.Err), nil)
			return
		}
	}
	var tables []string
	filepath.Walk(base, func(p string, info os.FileInfo, err error) error {
		if err == nil && !info.IsDir() && strings.HasSuffix(p, ".ldb") {
			tables = append(tables, p)
		}
		return nil
	})
	if len(tables) == 0 {
		chk.Violation("C09|harness|physical-setup", "setup: no table file in the store directory after two restarts", nil)
		return
	}
	// a table file which has disappeared altogether: the database cannot even be opened, so for the validator the CRL of
	// the distribution point is one which could not be loaded - crl_cdp_strict decides (denied when on; when off the
	// documented leniency applies and the outcome is only recorded)
	for _, t := range tables {
		rel, _ := filepath.Rel(base, t)
		dir := FreshDir("c09del")
		if out, err := exec.Command("cp", "-a", base+"/.", dir).CombinedOutput(); err != nil {
			chk.Violation("C09|harness|physical-copy", string(out), nil)
			os.RemoveAll(dir)
			return
		}
		os.Remove(filepath.Join(dir, rel))
		strict = true
		v, provErr := step(dir, false)
		strict = false
		os.RemoveAll(dir)
		evals++
		if provErr != "" || v.Err != "" {
			nontrivial++
		}
		c09PhysOutcomes["table file removed: "+map[bool]string{true: "noticed", false: v.String()}[provErr != "" || v.Err != ""]]++
		if provErr == "" && v.Panic == "" && v.Err == "" && !v.Revoked {
			chk.Violation("C09|missing-table-file-answered-not-revoked", fmt.Sprintf("table file %s of the persisted store removed, crl_cdp_strict on: the restarted validator accepts the listed certificate", filepath.Base(t)), nil)
		}
	}
	// the same with a list large enough for the database to consist of several table files (records of different
	// certificates live in different files, the meta record in one of them): each file removed in turn, 150 listed
	// certificates spread over the list presented
	evals += c09BigMissingTable(chk, c)
	masks := []byte{0xff}
	if tier == "thorough" {
		masks = []byte{0x01, 0x02, 0x04, 0x08, 0x10, 0x20, 0x40, 0x80, 0xff}
	}
	for _, t := range tables {
		rel, _ := filepath.Rel(base, t)
		data, _ := os.ReadFile(t)
		for off := range data {
			for _, m := range masks {
				dir := FreshDir("c09dmg")
				if out, err := exec.Command("cp", "-a", base+"/.", dir).CombinedOutput(); err != nil {
					chk.Violation("C09|harness|physical-copy", string(out), nil)
					os.RemoveAll(dir)
					return
				}
				d := append([]byte{}, data...)
				d[off] ^= m
				os.WriteFile(filepath.Join(dir, rel), d, 0644)
				v, provErr := step(dir, false)
				os.RemoveAll(dir)
				evals++
				if provErr != "" || v.Err != "" {
					nontrivial++ // the damage was noticed
				}
				switch {
				case provErr != "":
					c09PhysOutcomes["provision fails"]++
				case v.Panic != "":
					c09PhysOutcomes["panic"]++
				case v.Err != "":
					c09PhysOutcomes["lookup error"]++
				case v.Revoked:
					c09PhysOutcomes["revoked"]++
				default:
					c09PhysOutcomes["accepted"]++
				}
				if provErr == "" && v.Panic != "" {
					chk.Violation("C09|panic|damaged-table-file", fmt.Sprintf("byte %d of %s xor %#x: lookup panicked: %s", off, filepath.Base(t), m, v.Panic), nil)
					continue
				}
				if provErr == "" && v.Err == "" && !v.Revoked {
					chk.Violation("C09|damaged-table-file-answered-not-revoked", fmt.Sprintf("byte %d of %d of table file %s damaged (xor %#x): the restarted validator accepts the listed certificate", off, len(data), filepath.Base(t), m),
						map[string]interface{}{"offset": off, "mask": m})
				}
			}
		}
	}
	return
}

func c09BigMissingTable(chk *fw.Check, c *c08Cast) (evals int) {
	const n, step = 150000, 1000
	const bigBase = int64(5000000)
	serials := make([]int64, n)
	for i := range serials {
		serials[i] = bigBase + int64(i)
	}
	doc := world.SimpleCRL(c.p.CA, 1, serials...).DER()
	base := FreshDir("c09big")
	defer os.RemoveAll(base)
	var probes []*world.Ident
	for i := 0; i < n; i += step {
		probes = append(probes, world.Leaf(c.p.CA, bi(bigBase+int64(i)), []string{urlA}, nil))
	}
	run := func(dir string, serve, strict bool) (accepted, revoked, failed int, provErr string) {
		seqWorld(func() {
			w := NewCW(CWOpt{Disk: true, SigMode: config.SignatureValidationModeVerify, Dir: dir, Strict: strict})
			if serve {
				w.Net.Serve(urlA, "big", doc)
			} else {
				w.Net.Down(urlA)
			}
			if err := w.Provision(); err != nil {
				provErr = err.Error()
				return
			}
			vsched.Drain()
			for _, pr := range probes {
				v := w.Lookup(pr, c.chain(pr))
				switch {
				case v.Revoked:
					revoked++
				case v.Err != "" || v.Panic != "":
					failed++
				default:
					accepted++
				}
			}
			w.Chk.Cleanup()
		})
		return
	}
	if a, r, f, e := run(base, true, false); e != "" || r != len(probes) {
		chk.Violation("C09|harness|big-store-setup", fmt.Sprintf("setup: %s accepted=%d revoked=%d failed=%d", e, a, r, f), nil)
		return
	}
	for i := 0; i < 2; i++ {
		run(base, false, false)
	}
	var tables []string
	filepath.Walk(base, func(p string, info os.FileInfo, err error) error {
		if err == nil && !info.IsDir() && strings.HasSuffix(p, ".ldb") {
			tables = append(tables, p)
		}
		return nil
	})
	c09PhysOutcomes[fmt.Sprintf("large store: %d table files", len(tables))]++
	for _, t := range tables {
		rel, _ := filepath.Rel(base, t)
		dir := FreshDir("c09bigdel")
		if out, err := exec.Command("cp", "-a", base+"/.", dir).CombinedOutput(); err != nil {
			chk.Violation("C09|harness|physical-copy", string(out), nil)
			os.RemoveAll(dir)
			return
		}
		os.Remove(filepath.Join(dir, rel))
		a, r, f, e := run(dir, false, true)
		os.RemoveAll(dir)
		evals++
		c09PhysOutcomes[fmt.Sprintf("large store, one table file removed: provision-error=%v accepted=%d revoked=%d failed=%d", e != "", a, r, f)]++
		if e == "" && a > 0 {
			chk.Violation("C09|missing-table-file-answered-not-revoked", fmt.Sprintf("table file %s of a persisted store of %d entries removed, crl_cdp_strict on: the restarted validator accepts %d of %d listed certificates (%d rejected as revoked, %d denied with an error)", filepath.Base(t), n, a, len(probes), r, f), nil)
		}
	}
	return
}

// c09LostStaging: the store is missing after a swap which could not take place - the staging directory of a refresh
// disappears (somebody swept the work_dir) at one of the renames of the swap. With crl_cdp_strict on and the origin
// down afterwards, the listed certificate must not be accepted: either a list is still in force (revoked) or nothing is
// (error).
func c09LostStaging(chk *fw.Check, c *c08Cast) (evals int) {
	listed := c.probes[0]
	for nth := 1; nth <= 3; nth++ {
		for _, when := range []string{"rename", "rename.done"} {
			evals++
			var v, again Verdict
			fired := false
			res := seqWorld(func() {
				w := NewCW(CWOpt{Disk: true, SigMode: config.SignatureValidationModeVerify, Strict: true})
				defer os.RemoveAll(w.Dir)
				if err := w.Provision(); err != nil {
					panic(err)
				}
				vsched.Drain()
				w.Net.Serve(urlA, "v1", c.vers[1])
				if x := w.Lookup(listed, c.chain(listed)); !x.Revoked {
					panic("c09 lost staging: setup " + x.String() + x.Err)
				}
				w.Net.Serve(urlA, "v2", c.vers[2])
				n := 0
				vsched.EffectHook = func(kind, arg string) error {
					if kind == when && !fired {
						n++
						if n == nth {
							fired = true
							ents, _ := os.ReadDir(w.Dir)
							for _, e := range ents {
								if e.IsDir() && strings.HasPrefix(e.Name(), "crl_") && strings.HasSuffix(e.Name(), "_tmp") {
									os.RemoveAll(filepath.Join(w.Dir, e.Name()))
								}
							}
						}
					}
					return nil
				}
				w.Chk.VerifUpdateCRLs(true)
				vsched.Drain()
				vsched.EffectHook = nil
				w.Net.Down(urlA)
				v = w.Lookup(listed, c.chain(listed))
				again = w.Lookup(listed, c.chain(listed))
				w.Chk.Cleanup()
			})
			vsched.EffectHook = nil
			if !fired {
				continue
			}
			label := fmt.Sprintf("staging directory removed at %s #%d of the refresh", when, nth)
			if res.Verdict != vsched.OK {
				chk.Violation("C09|panic|lost-staging-directory", label+": "+res.Verdict.String()+" "+firstLines(res.Detail, 4), nil)
				continue
			}
			c09PhysOutcomes["lost staging directory: "+v.String()+" then "+again.String()]++
			for _, x := range []Verdict{v, again} {
				if x.Panic != "" {
					chk.Violation("C09|panic|lost-staging-directory", label+": "+x.Panic, nil)
				} else if x.Err == "" && !x.Revoked {
					chk.Violation("C09|listed-accepted-after-lost-staging-directory", label+" (crl_cdp_strict on, origin down afterwards): the listed certificate is accepted without error", nil)
				}
			}
		}
	}
	return
}

// RunC09 is the entry point of the C09 check.
func RunC09(tier string, args []string) int {
	if len(args) > 0 && args[0] == "worker" {
		sc := findC09Scenario(args[1])
		atoi := func(s string) int { n, _ := strconv.Atoi(s); return n }
		out := exploreShardCustom(sc, "C09", atoi(args[2]), atoi(args[3]), time.Unix(int64(atoi(args[4])), 0), atoi(args[5]), atoi(args[6]), c09JudgeSched)
		b, _ := json.Marshal(out)
		fmt.Println(string(b))
		return 0
	}
	chk := fw.NewCheck("C09", tier, "model_checking")
	chk.Assumptions = []string{
		"fault model: one storage fault per lookup - database handle closed, injected read error at Db.Get (generic I/O error, table file vanished = ENOENT, corrupted block, short read, EACCES), stored record replaced (empty, 1 byte, truncated at every byte, every single bit flipped, tag flipped, other type), on both backends where the fault exists; plus all interleavings of a handshake with Cleanup and with a refresh whose directory swap fails",
		"a lookup that starts after Cleanup returned is outside the validator's life cycle and is not judged",
	}
	c := newC08Cast()
	listed, unlisted := c.probes[0], c.probes[4]
	evals, nontrivial := 0, 0
	outcomes := fw.NewDistinct()
	var samples []string
	// idA is the repository identifier of the CRL the fault is injected into (set by run before arm is called)
	idA := ""
	extraDoc := world.SimpleCRL(c.p.CA, 1, 987654).DER()
	run := func(disk bool, fault string, arm func(w *CW) func(), probeListed bool, extras bool) {
		evals++
		var v, again Verdict
		hit := false
		res := seqWorld(func() {
			w := NewCW(CWOpt{Disk: disk, SigMode: config.SignatureValidationModeVerify})
			defer os.RemoveAll(w.Dir)
			if err := w.Provision(); err != nil {
				panic(err)
			}
			vsched.Drain()
			w.Net.Serve(urlA, "v1", c.vers[1])
			if got := w.Lookup(listed, c.chain(listed)); got.String() != "REVOKED" {
				panic("setup: listed probe not revoked: " + got.String() + got.Err)
			}
			idA = w.Repo().VerifEntries()[0].ID
			// the unlisted certificate has been presented before, while everything was healthy (whatever is remembered of
			// that answer does not survive the failure of the store)
			if got := w.Lookup(unlisted, c.chain(unlisted)); got.String() != "OK" {
				panic("setup: unlisted probe: " + got.String() + got.Err)
			}
			if extras {
				// further healthy CRLs (which do not list the probes) in the same repository, at least one whose identifier
				// sorts before and one whose identifier sorts after the faulty one: whatever order the lookup visits the
				// CRLs in, the failure of one of them must not be forgotten
				before, after := false, false
				for i := 0; i < 24 && !(before && after); i++ {
					u := fmt.Sprintf("http://crl.test/extra%d.crl", i)
					w.Net.Serve(u, "extra", extraDoc)
					l := world.Leaf(c.p.CA, bi(int64(700000+i)), []string{u}, nil)
					if got := w.Lookup(l, c.chain(l)); got.String() != "OK" {
						panic("setup: extra CRL: " + got.String() + got.Err)
					}
					for _, e := range w.Repo().VerifEntries() {
						if e.ID < idA {
							before = true
						}
						if e.ID > idA {
							after = true
						}
					}
				}
				if !(before && after) {
					panic("setup: could not place healthy CRLs on both sides of the faulty one")
				}
			}
			c09Hit = false
			disarm := arm(w)
			pr := unlisted
			if probeListed {
				pr = listed
			}
			v = w.Lookup(pr, c.chain(pr))
			hit = c09Hit
			// the fault is still there: asking again must not turn the failure into an answer either
			again = w.Lookup(pr, c.chain(pr))
			disarm()
			w.Chk.Cleanup()
		})
		if res.Verdict != vsched.OK {
			v.Panic = res.Verdict.String() + " " + firstLines(res.Detail, 4)
		}
		which := "unlisted"
		if probeListed {
			which = "listed"
		}
		if extras {
			fault += "+healthy-crls-around"
		}
		outcomes.Add(fmt.Sprintf("%s %s => %s", stripAt(fault), which, v))
		if !hit {
			return // the fault did not touch this lookup (e.g. no record read for an unlisted serial): nothing to judge
		}
		nontrivial++
		if len(samples) < 4 && evals%37 == 0 {
			samples = append(samples, fmt.Sprintf("backend=%s fault=%s probe=%s => %s", be(disk), fault, which, v))
		}
		if v.Panic != "" {
			chk.Violation("C09|panic|"+stripAt(fault)+"|"+be(disk), fmt.Sprintf("lookup panicked under storage fault %s (%s probe, %s): %s", fault, which, be(disk), v.Panic), map[string]interface{}{"fault": fault, "disk": disk, "listed": probeListed})
			return
		}
		// (a transient fault is gone by the time of the second lookup: nothing to demand of that one)
		if v.Err != "" && again.Panic == "" && again.Err == "" && !again.Revoked && !strings.Contains(fault, "only-at-read#") {
			chk.Violation("C09|fault-answered-not-revoked-on-second-lookup|"+stripAt(fault)+"|"+be(disk),
				fmt.Sprintf("storage fault %s (%s backend): the first lookup of the %s certificate reported the error, the next one - fault still present - answered 'not revoked'", fault, be(disk), which),
				map[string]interface{}{"fault": fault, "disk": disk, "listed": probeListed})
			return
		}
		if again.Panic != "" {
			chk.Violation("C09|panic|"+stripAt(fault)+"|"+be(disk), fmt.Sprintf("second lookup panicked under storage fault %s (%s probe, %s): %s", fault, which, be(disk), again.Panic), nil)
			return
		}
		if v.Err == "" {
			// a storage failure answered with a verdict. REVOKED for the listed probe is still fail-safe; OK is the violation.
			if !v.Revoked {
				chk.Violation("C09|fault-answered-not-revoked|"+stripAt(fault)+"|"+be(disk),
					fmt.Sprintf("storage fault %s during the lookup of the %s certificate (%s backend) was answered 'not revoked'", fault, which, be(disk)),
					map[string]interface{}{"fault": fault, "disk": disk, "listed": probeListed})
			}
		}
	}
	for _, extras := range []bool{false, true} {
		for _, disk := range []bool{false, true} {
			disk, extras := disk, extras
			// the stored record of the listed certificate
			for _, listedProbe := range []bool{true, false} {
				if disk {
					run(disk, "handle-closed", func(w *CW) func() {
						for _, e := range w.Repo().VerifEntries() {
							if e.ID == idA {
								e.Store.Close()
								c09Hit = true
							}
						}
						return func() {}
					}, listedProbe, extras)
					// the classes of error a read of the database can end with (a missing KEY is none of them)
					for _, ioe := range []struct {
						name string
						err  error
					}{
						{"get-io-error", errors.New("injected: input/output error")},
						{"get-table-file-vanished", &os.PathError{Op: "open", Path: "000002.ldb", Err: syscall.ENOENT}},
						{"get-block-checksum", &lerrors.ErrCorrupted{Err: errors.New("injected: checksum mismatch")}},
						{"get-short-read", io.ErrUnexpectedEOF},
						{"get-permission", &os.PathError{Op: "open", Path: "000002.ldb", Err: syscall.EACCES}},
					} {
						ioe := ioe
						run(disk, ioe.name, func(w *CW) func() {
							vsched.EffectHook = func(kind, arg string) error {
								if kind == "ldb.get" && strings.Contains(arg, idA) {
									c09Hit = true
									return ioe.err
								}
								return nil
							}
							return func() { vsched.EffectHook = nil }
						}, listedProbe, extras)
					}
					// a transient fault: exactly the k-th read of this database during the lookup fails, every other one
					// succeeds (a lookup which reads twice must not let the second read make up for the first)
					for k := 1; k <= 3; k++ {
						k := k
						run(disk, fmt.Sprintf("get-io-error-only-at-read#%d", k), func(w *CW) func() {
							reads := 0
							vsched.EffectHook = func(kind, arg string) error {
								if kind == "ldb.get" && strings.Contains(arg, idA) {
									reads++
									if reads == k {
										c09Hit = true
										return errors.New("injected: input/output error (transient)")
									}
								}
								return nil
							}
							return func() { vsched.EffectHook = nil }
						}, listedProbe, extras)
					}
				}
			}
			// record corruptions (only the listed certificate has a record)
			var rec []byte
			seqWorld(func() {
				w := NewCW(CWOpt{Disk: disk, SigMode: config.SignatureValidationModeVerify})
				defer os.RemoveAll(w.Dir)
				w.Provision()
				vsched.Drain()
				w.Net.Serve(urlA, "v1", c.vers[1])
				w.Lookup(listed, c.chain(listed))
				vleveldb.ValueHook = func(path string, key, value []byte) []byte { rec = value; return value }
				if !disk {
					rec = c09MemRecord(w, c)
				} else {
					w.Lookup(listed, c.chain(listed))
				}
				vleveldb.ValueHook = nil
				w.Chk.Cleanup()
			})
			if len(rec) == 0 {
				fmt.Fprintln(os.Stderr, "harness error: could not capture the stored record")
				return 2
			}
			for name, bad := range c09Corruptions(rec) {
				name, bad := name, bad
				run(disk, "record:"+name, func(w *CW) func() {
					if disk {
						vleveldb.ValueHook = func(path string, key, value []byte) []byte {
							if string(value) == string(rec) {
								c09Hit = true
								return bad
							}
							return value
						}
						return func() { vleveldb.ValueHook = nil }
					}
					c09Hit = c09MemCorrupt(w, rec, bad)
					return func() {}
				}, true, extras)
			}
			// the housekeeping records of the same store (meta info, extended meta info, locations): damaged, they may make a
			// lookup fail - never make it answer "not revoked". (A lookup which does not read them is not touched by the
			// damage and is not judged.)
			if extras {
				continue
			}
			for _, hk := range []string{crlstore.MetaInfoKey, crlstore.ExtendedMetaInfoKey, crlstore.CRLLocationKey} {
				hk := hk
				var val []byte
				seqWorld(func() {
					w := NewCW(CWOpt{Disk: disk, SigMode: config.SignatureValidationModeVerify})
					defer os.RemoveAll(w.Dir)
					w.Provision()
					vsched.Drain()
					w.Net.Serve(urlA, "v1", c.vers[1])
					w.Lookup(listed, c.chain(listed))
					for _, e := range w.Repo().VerifEntries() {
						if e.ID != "" && val == nil {
							val = c09ReadRaw(e.Store, hk)
						}
					}
					w.Chk.Cleanup()
				})
				if len(val) == 0 {
					continue
				}
				for bit := 0; bit < len(val)*8; bit++ {
					bad := append([]byte{}, val...)
					bad[bit/8] ^= 1 << (uint(bit) % 8)
					run(disk, "housekeeping-record:"+hk+"@bitflip", func(w *CW) func() {
						if disk {
							vleveldb.ValueHook = func(path string, key, value []byte) []byte {
								if string(value) == string(val) {
									c09Hit = true
									return bad
								}
								return value
							}
							return func() { vleveldb.ValueHook = nil }
						}
						// memory: the damage is in the map; whether the lookup reads the record is not observable, so every
						// lookup counts as touched (a lookup which ignores the record answers "revoked" and passes)
						c09Hit = c09MemCorrupt(w, val, bad)
						return func() {}
					}, true, false)
				}
			}
		}
	}
	physEvals, physNoticed := c09Physical(chk, c, tier)
	evals += physEvals
	nontrivial += physNoticed
	lost := c09LostStaging(chk, c)
	evals += lost
	nontrivial += lost
	// schedule scenarios
	bound, maxExec := 2, 200000
	perScenario, nshards := 100*time.Second, 16
	if tier == "thorough" {
		bound, maxExec = 4, 10000000
		perScenario, nshards = 20*time.Minute, 32
	}
	var reports []schedReport
	execs, points := 0, 0
	exhaustive := true
	for _, disk := range []bool{false, true} {
		for _, sc := range c09Scenarios(disk) {
			b := bound
			if disk && tier != "thorough" {
				b = 1
			}
			outs := runWorkers("C09", sc.Name, b, maxExec/nshards+1, time.Now().Add(perScenario), nshards)
			rep := mergeWorkerOuts(chk, sc.Name, outs)
			reports = append(reports, rep)
			execs += rep.Executions
			points += rep.Points
			if rep.Capped {
				exhaustive = false
			}
			fmt.Printf("  S %-36s execs=%d per-bound=%v outcomes=%v capped=%v\n", sc.Name, rep.Executions, rep.PerBound, rep.Outcomes, rep.Capped)
		}
	}
	if len(samples) == 0 {
		samples = []string{"backend=disk fault=handle-closed probe=listed", "backend=mem fault=record:truncated@7 probe=listed"}
	}
	cov := fw.Coverage{
		"states":                          evals + execs,
		"transitions":                     evals + points,
		"traces_validated_against_impl":   evals + execs,
		"fault_cases":                     evals,
		"fault_cases_that_hit_the_lookup": nontrivial,
		"schedule_executions":             execs,
		"schedule_scenarios":              reports,
		"outcome_classes":                 outcomes.Counts(),
		"samples":                         samples,
		"exhaustive":                      exhaustive,
		"damaged_table_file_runs":         physEvals,
		"damaged_table_file_outcomes":     c09PhysOutcomes,
	}
	fmt.Printf("  damaged table file: %d runs, outcomes %v\n", physEvals, c09PhysOutcomes)
	return chk.Finish(cov)
}

var c09Hit bool

// c09MemRecord / c09MemCorrupt reach into the exported MapStore.Map.
func c09MemRecord(w *CW, c *c08Cast) []byte {
	for _, e := range w.Repo().VerifEntries() {
		if ms := unwrapMapStore(e.Store); ms != nil {
			// the record of the listed serial: the only value that deserialises to serial 101
			for _, v := range ms.Map {
				if rc, err := ms.Serializer.DeserializeRevokedCert(v); err == nil && rc.SerialNumber != nil && rc.SerialNumber.Int64() == 101 {
					return v
				}
			}
		}
	}
	return nil
}

func c09MemCorrupt(w *CW, rec, bad []byte) bool {
	for _, e := range w.Repo().VerifEntries() {
		if ms := unwrapMapStore(e.Store); ms != nil {
			for k, v := range ms.Map {
				if string(v) == string(rec) {
					ms.Map[k] = bad
					return true
				}
			}
		}
	}
	return false
}

// c09ReadRaw returns the stored bytes of a housekeeping record of either backend.
func c09ReadRaw(s crlstore.CRLStore, key string) []byte {
	if fs, ok := s.(*faultStore); ok {
		s = fs.CRLStore
	}
	switch st := s.(type) {
	case *crlstore.MapStore:
		return st.Map[string(hashing.Sum64(key))]
	case *crlstore.LevelDbStore:
		v, _ := st.Db.Get(hashing.Sum64(key), nil)
		return v
	}
	return nil
}

func unwrapMapStore(s crlstore.CRLStore) *crlstore.MapStore {
	if fs, ok := s.(*faultStore); ok {
		s = fs.CRLStore
	}
	ms, _ := s.(*crlstore.MapStore)
	return ms
}

// ---------------------------------------------------------------- schedule scenarios

func c09Scenarios(disk bool) []*schedScenario {
	c := newC08Cast()
	name := func(s string) string { return s + "/" + be(disk) }
	base := CWOpt{Disk: disk, SigMode: config.SignatureValidationModeVerify}
	listed := c.probes[0]
	setup := func(x *schedCtx) {
		w := NewCW(base)
		x.W = append(x.W, w)
		if err := w.Provision(); err != nil {
			panic(err)
		}
		vsched.Drain()
		w.Net.Serve(urlA, "v1", c.vers[1])
		w.Lookup(listed, c.chain(listed))
	}
	hs := schedOp{Name: "hs(listed)", Fn: func(x *schedCtx) string {
		v := x.W[0].Lookup(listed, c.chain(listed)).String()
		if v == "OK" {
			// why was it accepted? either the lookup still found the entry (and skipped it) or the entry was gone
			if vsched.PassedSite("RLock@crlrepository.(*Repository).checkCrl") {
				return "hs=OK(entry-found-but-skipped)"
			}
			return "hs=OK(entry-gone)"
		}
		return "hs=" + v
	}}
	scs := []*schedScenario{
		{Name: name("f1-handshake-vs-cleanup"), Setup: setup, Ops: []schedOp{hs, cleanupOp(0)}, Cfg: vsched.Config{LogSites: true}},
	}
	if disk {
		// refresh whose directory swap fails persistently (every rename of the new database into place errors) || handshake
		scs = append(scs, &schedScenario{Name: name("f2-failed-swap-vs-handshake"), Cfg: vsched.Config{LogSites: true},
			Setup: func(x *schedCtx) {
				setup(x)
				x.W[0].Net.Serve(urlA, "v2", c.vers[2])
				vsched.EffectHook = func(kind, arg string) error {
					if kind == "rename" && strings.Contains(arg, "crl_") && strings.Contains(arg, "_tmp") && x.Vals["armed"] == true {
						// moving the staged database (…/crl_<uuid>_tmp) into place fails
						if _, ok := x.Vals["old-moved"]; ok {
							x.Vals["fired"] = true
							return errors.New("injected: rename failed")
						}
					}
					if kind == "rename.done" && x.Vals["armed"] == true {
						x.Vals["old-moved"] = true
					}
					return nil
				}
				x.Vals["armed"] = true
			},
			Ops: []schedOp{refreshOp(0), hs},
			Post: func(x *schedCtx) string {
				vsched.EffectHook = nil
				return fmt.Sprintf("swapfault=%v,post=%s", x.Vals["fired"] == true, x.W[0].Lookup(listed, c.chain(listed)))
			},
		})
	}
	// on disk the file and database operations are scheduling points as well
	if disk {
		for _, sc := range scs {
			sc.Cfg.EffectsArePoints = true
		}
	}
	return scs
}

func findC09Scenario(name string) *schedScenario {
	for _, disk := range []bool{false, true} {
		for _, sc := range c09Scenarios(disk) {
			if sc.Name == name {
				return sc
			}
		}
	}
	return nil
}

// c09JudgeSched: the listed certificate is never accepted while the validator lives.
func c09JudgeSched(obs []string) (string, string) {
	for _, o := range obs {
		if o == "hs=OK(entry-gone)" {
			return "C09|listed-accepted-during-storage-failure", "a handshake overlapping a storage failure / shutdown accepted the listed certificate (the repository entry was already gone when it looked)"
		}
		if o == "hs=OK(entry-found-but-skipped)" {
			return "C09|listed-accepted-entry-without-store-skipped", "a handshake overlapping a storage failure / shutdown found the entry, could not use its store and accepted the listed certificate"
		}
		if o == "hs=PANIC" || strings.HasSuffix(o, "post=PANIC") {
			return "C09|panic-during-storage-failure", "a handshake overlapping a storage failure / shutdown panicked"
		}
	}
	return "", ""
}

func init() { registry["C09"] = RunC09 }

var _ = world.Std
