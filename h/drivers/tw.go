package drivers

import (
	"context"
	"crypto/x509"
	"encoding/pem"
	"fmt"
	"os"
	"path/filepath"
	"syscall"
	"time"

	"github.com/caddyserver/caddy/v2"

	revocation "github.com/gr33nbl00d/caddy-revocation-validator"
	"github.com/gr33nbl00d/caddy-revocation-validator/config"

	"verif/h/world"
)

// TW is a top-level world: the real caddy module CertRevocationValidator,
// provisioned through caddy.Context, with a scripted origin.
type TW struct {
	V      *revocation.CertRevocationValidator
	Net    *world.Net
	Dir    string
	cancel context.CancelFunc
}

var stderrSilenced bool

// SilenceStderr points fd 2 at /dev/null (caddy's default logger writes JSON
// lines there); harness messages go to stdout.
func SilenceStderr() {
	if stderrSilenced {
		return
	}
	stderrSilenced = true
	f, err := os.OpenFile("/dev/null", os.O_WRONLY, 0)
	if err == nil {
		syscall.Dup2(int(f.Fd()), 2)
	}
}

type TWOpt struct {
	Mode      string
	CRL       *config.CRLConfig // nil = no crl_config
	OCSP      *config.OCSPConfig
	Net       *world.Net
	NoWorkDir bool
}

func NewTW(o TWOpt) *TW {
	SilenceStderr()
	w := &TW{Net: o.Net}
	if w.Net == nil {
		w.Net = world.NewNet()
	}
	if o.CRL != nil {
		if o.CRL.WorkDir == "" && !o.NoWorkDir {
			o.CRL.WorkDir = FreshDir("twd")
		}
		w.Dir = o.CRL.WorkDir
	}
	w.V = &revocation.CertRevocationValidator{Mode: o.Mode, CRLConfig: o.CRL, OCSPConfig: o.OCSP}
	return w
}

func (w *TW) Provision() (err error) {
	defer func() {
		if r := recover(); r != nil {
			if fmt.Sprintf("%T", r) == "vsched.abortSentinel" {
				panic(r)
			}
			err = fmt.Errorf("PANIC in Provision: %v", r)
		}
	}()
	ctx, cancel := caddy.NewContext(caddy.Context{Context: context.Background()})
	w.cancel = cancel
	return w.V.Provision(ctx)
}

func (w *TW) Cleanup() (err error) {
	defer func() {
		if r := recover(); r != nil {
			if fmt.Sprintf("%T", r) == "vsched.abortSentinel" {
				panic(r)
			}
			err = fmt.Errorf("PANIC in Cleanup: %v", r)
		}
		if w.cancel != nil {
			w.cancel()
		}
	}()
	return w.V.Cleanup()
}

// Handshake calls VerifyClientCertificate the way the TLS stack does after chain verification.
func (w *TW) Handshake(chain [][]*x509.Certificate) (v Verdict) {
	defer func() {
		if r := recover(); r != nil {
			if fmt.Sprintf("%T", r) == "vsched.abortSentinel" {
				panic(r)
			}
			v = Verdict{Panic: fmt.Sprint(r)}
		}
	}()
	var raw [][]byte
	if len(chain) > 0 {
		for _, c := range chain[0] {
			raw = append(raw, c.Raw)
		}
	}
	if len(chain) > 0 && len(chain[0]) > 0 {
		_, chain = freshHandshake(chain[0][0], chain)
	}
	return w.HandshakeRaw(raw, chain)
}

// HandshakeRaw: like Handshake with the certificates of the client's Certificate message given explicitly (a client
// may send along certificates which are part of no verified chain).
func (w *TW) HandshakeRaw(raw [][]byte, chain [][]*x509.Certificate) (v Verdict) {
	defer func() {
		if r := recover(); r != nil {
			if fmt.Sprintf("%T", r) == "vsched.abortSentinel" {
				panic(r)
			}
			v = Verdict{Panic: fmt.Sprint(r)}
		}
	}()
	err := w.V.VerifyClientCertificate(raw, chain)
	if err != nil {
		if err.Error() == "client certificate was revoked" {
			return Verdict{Revoked: true}
		}
		return Verdict{Err: err.Error()}
	}
	return Verdict{}
}

// WritePEM writes a certificate as PEM file into dir and returns the path.
func WritePEM(dir, name string, cert *x509.Certificate) string {
	p := filepath.Join(dir, name)
	b := pem.EncodeToMemory(&pem.Block{Type: "CERTIFICATE", Bytes: cert.Raw})
	if err := os.WriteFile(p, b, 0644); err != nil {
		panic(err)
	}
	return p
}

// WritePEMSameStat writes a certificate as PEM file padded with line feeds to 4096 bytes and gives the file a fixed
// modification time: whichever certificate such a file holds, the file system reports the same size and time (what
// deployment tools which preserve time stamps, or renewals of a certificate, produce).
func WritePEMSameStat(dir, name string, cert *x509.Certificate) string {
	p := filepath.Join(dir, name)
	b := pem.EncodeToMemory(&pem.Block{Type: "CERTIFICATE", Bytes: cert.Raw})
	for len(b) < 4096 {
		b = append(b, '\n')
	}
	if err := os.WriteFile(p, b, 0644); err != nil {
		panic(err)
	}
	t := time.Date(2020, 1, 1, 0, 0, 0, 0, time.UTC)
	os.Chtimes(p, t, t)
	return p
}
