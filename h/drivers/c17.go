package drivers

import (
	"bytes"
	"crypto"
	"crypto/x509"
	"crypto/x509/pkix"
	"encoding/asn1"
	"encoding/json"
	"errors"
	"fmt"
	"io"
	"math/big"
	"os"
	"os/exec"
	"path/filepath"
	"runtime"
	"sort"
	"strconv"
	"strings"
	"time"

	"go.uber.org/zap"

	"github.com/gr33nbl00d/caddy-revocation-validator/config"
	"github.com/gr33nbl00d/caddy-revocation-validator/core"
	"github.com/gr33nbl00d/caddy-revocation-validator/crl/crlloader"
	"github.com/gr33nbl00d/caddy-revocation-validator/crl/crlreader"
	"github.com/gr33nbl00d/caddy-revocation-validator/crl/crlstore"

	"verif/h/fw"
	"verif/h/rt/vsched"
	"verif/h/world"
)

// C17: streaming memory bound. An invariant on the live heap is evaluated in
// intermediate states of the streaming loop (every 64th entry), for every
// entry count of the enumerated set.

func liveHeap() uint64 {
	runtime.GC()
	runtime.GC()
	var m runtime.MemStats
	runtime.ReadMemStats(&m)
	return m.HeapAlloc
}

type discardProc struct {
	n        int
	onEntry  func(n int)
	failFrom int // > 0: every entry from this one on is refused (a store which starts failing in the middle of a load)
	maxStack uint64
}

func (d *discardProc) StartUpdateCrl(*crlreader.CRLMetaInfo) error { return nil }
func (d *discardProc) InsertRevokedCertificate(e *crlreader.CRLEntry) error {
	d.n++
	if d.onEntry != nil {
		d.onEntry(d.n)
	}
	if d.failFrom > 0 && d.n >= d.failFrom {
		return errors.New("injected: the store refuses this entry")
	}
	return nil
}
func (d *discardProc) UpdateExtendedMetaInfo(*crlreader.ExtendedCRLMetaInfo) error  { return nil }
func (d *discardProc) UpdateSignatureCertificate(*core.CertificateChainEntry) error { return nil }

// c17EntryIssuerExt: when set, every entry of the lists c17Doc builds carries a (non-critical) certificateIssuer
// extension which names the CRL issuer itself - what an indirect-CRL tool writes for every entry.
var c17EntryIssuerExt bool

// c17EntryUniqueExt: when set, entry i carries a non-critical extension whose identifier is its own
// (1.3.6.1.4.1.55555.1.<2^21+i>): whatever the reader notes down per extension identifier grows with the list.
var c17EntryUniqueExt bool

func c17Doc(n int, pemEnc bool) []byte {
	p := world.Std()
	s := world.SimpleCRL(p.CA, 1)
	base := new(big.Int).Lsh(big.NewInt(1), 70)
	t := vsched.Epoch.Add(-time.Hour)
	var exts []pkix.Extension
	if c17EntryIssuerExt {
		// GeneralNames { directoryName [4] EXPLICIT Name }
		dn, _ := asn1.Marshal(asn1.RawValue{Class: 2, Tag: 4, IsCompound: true, Bytes: p.CA.Cert.RawSubject})
		gn, _ := asn1.Marshal(asn1.RawValue{Class: 0, Tag: 16, IsCompound: true, Bytes: dn})
		exts = []pkix.Extension{{Id: asn1.ObjectIdentifier{2, 5, 29, 29}, Value: gn}}
	}
	for i := 0; i < n; i++ {
		ex := exts
		if c17EntryUniqueExt {
			ex = []pkix.Extension{{Id: asn1.ObjectIdentifier{1, 3, 6, 1, 4, 1, 55555, 1, 1<<21 + i}, Value: []byte{0x05, 0x00}}}
		}
		s.Entries = append(s.Entries, world.RevEntry{Serial: new(big.Int).Add(base, big.NewInt(int64(i))), Date: t, Exts: ex})
	}
	d := s.DER()
	if pemEnc {
		return world.PEM(d, false)
	}
	return d
}

const mib = 1 << 20

// c17Reader: reader + discarding processor, invariant live(k) <= live(0) + 1 MiB at every 64th entry.
func c17Reader(chk *fw.Check, n int, pemEnc bool, dir string) (samples int, peak int64) {
	doc := c17Doc(n, pemEnc)
	path := filepath.Join(dir, "big.crl")
	os.WriteFile(path, doc, 0600)
	doc = nil
	var base uint64
	worst := int64(0)
	proc := &discardProc{}
	proc.onEntry = func(k int) {
		if k == 1 {
			base = liveHeap()
			return
		}
		if k%64 == 0 || k == n {
			// sample sparsely for big lists: every 64th entry up to 4096, then every 4096th
			if k > 4096 && k%4096 != 0 && k != n {
				return
			}
			samples++
			d := int64(liveHeap()) - int64(base)
			if d > worst {
				worst = d
			}
		}
	}
	_, err := crlreader.StreamingCRLFileReader{}.ReadCRL(proc, path)
	os.Remove(path)
	enc := "DER"
	if pemEnc {
		enc = "PEM"
	}
	if err != nil || proc.n != n {
		chk.Violation("C17|reader-failed|"+enc, fmt.Sprintf("reading a well-formed %s CRL with %d entries failed (%v, %d entries seen)", enc, n, err, proc.n), nil)
		return
	}
	if worst > mib {
		chk.Violation("C17|reader-live-heap-grows|"+enc, fmt.Sprintf("live heap while streaming a %s CRL with %d entries grew by %d bytes over its value at the first entry (bound 1 MiB)", enc, n, worst), map[string]interface{}{"n": n, "pem": pemEnc})
	}
	return samples, worst
}

// c17ReaderAlgs: the bound does not depend on what the signatureAlgorithm field says. One list of n entries per
// algorithm identifier of the PKI world (the implemented ones, RSASSA-PSS, Ed25519, an unknown OID and the legacy /
// foreign identifiers), streamed through the reader with the discarding processor. Whether the list is accepted is not
// judged here; the live heap while its entries go by is.
func c17ReaderAlgs(chk *fw.Check, n int, dir string) (evals int) {
	p := world.Std()
	algs := append(append([]world.SigAlg{}, world.SupportedAlgs...), world.RSAPSS, world.ED25519, world.BogusAlg)
	for _, oid := range world.OtherAlgOIDs {
		algs = append(algs, world.SigAlg{Name: "oid-" + oid.String(), OID: oid, Hash: crypto.SHA256, KeyKind: "ec", NoNullParams: true})
	}
	base := new(big.Int).Lsh(big.NewInt(1), 70)
	t := vsched.Epoch.Add(-time.Hour)
	for _, a := range algs {
		ca := p.CA
		if a.KeyKind == "rsa" {
			ca = p.CARSA
		}
		spec := world.SimpleCRL(ca, 1)
		spec.Alg = a
		if a.KeyKind == "" {
			spec.Signer = nil
		}
		for i := 0; i < n; i++ {
			spec.Entries = append(spec.Entries, world.RevEntry{Serial: new(big.Int).Add(base, big.NewInt(int64(i))), Date: t})
		}
		path := filepath.Join(dir, "alg.crl")
		os.WriteFile(path, spec.DER(), 0600)
		spec = nil
		var first uint64
		worst := int64(0)
		proc := &discardProc{}
		proc.onEntry = func(k int) {
			if k == 1 {
				first = liveHeap()
				return
			}
			if k%4096 == 0 || k == n {
				if d := int64(liveHeap()) - int64(first); d > worst {
					worst = d
				}
			}
		}
		before := liveHeap()
		crlreader.StreamingCRLFileReader{}.ReadCRL(proc, path)
		after := int64(liveHeap()) - int64(before)
		os.Remove(path)
		evals++
		if worst > mib || (proc.n == 0 && after > mib) {
			chk.Violation("C17|reader-live-heap-grows|signatureAlgorithm="+a.Name, fmt.Sprintf("live heap while streaming a CRL with %d entries whose signatureAlgorithm is %s (%v) grew by %d bytes over its value at the first entry (bound 1 MiB; %d entries seen)", n, a.Name, a.OID, worst, proc.n), nil)
		}
	}
	return
}

// c17ReaderFailingStore: the consumer refuses every entry from the 1000th on. However the reader deals with that
// (it may stop at once or go on), nothing may pile up per remaining entry.
func c17ReaderFailingStore(chk *fw.Check, n int, dir string) {
	path := filepath.Join(dir, "failing.crl")
	os.WriteFile(path, c17Doc(n, false), 0600)
	defer os.Remove(path)
	var base uint64
	worst := int64(0)
	proc := &discardProc{failFrom: 1000}
	proc.onEntry = func(k int) {
		switch {
		case k == 1000:
			base = liveHeap()
		case k > 1000 && (k%4096 == 0 || k == n):
			if d := int64(liveHeap()) - int64(base); d > worst {
				worst = d
			}
		}
	}
	_, err := crlreader.StreamingCRLFileReader{}.ReadCRL(proc, path)
	if err == nil {
		chk.Violation("C17|reader-ignores-consumer-error", fmt.Sprintf("the consumer refused every entry from the 1000th of %d on, the reader reported success", n), nil)
	}
	if worst > mib {
		chk.Violation("C17|reader-live-heap-grows|consumer-failing", fmt.Sprintf("a consumer which refuses every entry from the 1000th on: the reader went on to entry %d and the live heap grew by %d bytes meanwhile (bound 1 MiB)", proc.n, worst), map[string]interface{}{"n": n})
	}
}

// zeroBody produces size bytes lazily.
type zeroBody struct{ left int64 }

func (z *zeroBody) Read(p []byte) (int, error) {
	if z.left <= 0 {
		return 0, io.EOF
	}
	n := int64(len(p))
	if n > z.left {
		n = z.left
	}
	for i := int64(0); i < n; i++ {
		p[i] = 0x30
	}
	z.left -= n
	return int(n), nil
}
func (z *zeroBody) Close() error { return nil }

func totalAlloc() uint64 {
	var m runtime.MemStats
	runtime.ReadMemStats(&m)
	return m.TotalAlloc
}

// c17Transfer: URL download and file copy of a size-byte body; total allocation must not depend on size.
func c17Transfer(chk *fw.Check, size int64, dir string) {
	net := world.NewNet()
	url := "http://crl.test/huge.crl"
	net.Routes[url] = &world.Behaviour{Label: "huge", Stream: func() io.ReadCloser { return &zeroBody{left: size} }}
	target := filepath.Join(dir, "download.tmp")
	l := &crlloader.URLLoader{UrlString: url, Logger: zap.NewNop()}
	a0 := totalAlloc()
	err := l.LoadCRL(target)
	d := totalAlloc() - a0
	st, _ := os.Stat(target)
	if err != nil || st == nil || st.Size() != size {
		chk.Violation("C17|download-failed", fmt.Sprintf("download of %d bytes failed: %v", size, err), nil)
	} else if d > 4*mib {
		chk.Violation("C17|download-buffers-body", fmt.Sprintf("downloading a %d byte body allocated %d bytes (bound 4 MiB independent of the size)", size, d), map[string]interface{}{"size": size})
	}
	src := filepath.Join(dir, "source.crl")
	os.Rename(target, src)
	fl := &crlloader.FileLoader{FileName: src, Logger: zap.NewNop()}
	a0 = totalAlloc()
	err = fl.LoadCRL(target)
	d = totalAlloc() - a0
	st, _ = os.Stat(target)
	if err != nil || st == nil || st.Size() != size {
		chk.Violation("C17|filecopy-failed", fmt.Sprintf("copy of a %d byte file failed: %v", size, err), nil)
	} else if d > 4*mib {
		chk.Violation("C17|filecopy-buffers-file", fmt.Sprintf("copying a %d byte crl_file allocated %d bytes (bound 4 MiB independent of the size)", size, d), map[string]interface{}{"size": size})
	}
	os.Remove(src)
	os.Remove(target)
}

// hookFactory counts inserts into stores created by the real factory.
type hookFactory struct {
	inner crlstore.Factory
	hook  func(k int)
	k     int
}

type hookStore struct {
	crlstore.CRLStore
	f *hookFactory
}

func (h *hookFactory) CreateStore(id string, temp bool) (crlstore.CRLStore, error) {
	s, err := h.inner.CreateStore(id, temp)
	if err != nil {
		return nil, err
	}
	return &hookStore{s, h}, nil
}
func (s *hookStore) InsertRevokedCert(e *crlreader.CRLEntry) error {
	s.f.k++
	s.f.hook(s.f.k)
	return s.CRLStore.InsertRevokedCert(e)
}
func (s *hookStore) Update(o crlstore.CRLStore) error {
	if hs, ok := o.(*hookStore); ok {
		o = hs.CRLStore
	}
	return s.CRLStore.Update(o)
}

// c17Disk: whole path download -> parse -> LevelDB -> lookup with n entries.
func c17Disk(chk *fw.Check, n int) (growth int64) {
	p := world.Std()
	lookupGrowth := int64(0)
	defer func() { c17LookupGrowth = append(c17LookupGrowth, lookupGrowth) }()
	doc := c17Doc(n, false)
	var atHalf, atEnd, base uint64
	seqWorld(func() {
		w := NewCW(CWOpt{Disk: true, SigMode: config.SignatureValidationModeVerify})
		defer os.RemoveAll(w.Dir)
		w.Net.Routes[urlA] = &world.Behaviour{Label: "big", Body: doc}
		if err := w.Provision(); err != nil {
			panic(err)
		}
		vsched.Drain()
		hf := &hookFactory{inner: w.Repo().Factory}
		hf.hook = func(k int) {
			switch {
			case k == 1:
				base = liveHeap()
			case k%(n/16) == 0:
				h := liveHeap()
				if h > atEnd {
					atEnd = h // maximum over the 16 sampled intermediate states
				}
				if k == n/2 {
					atHalf = h
				}
			}
		}
		w.Repo().Factory = hf
		serial := func(i int) *big.Int {
			return new(big.Int).Add(new(big.Int).Lsh(big.NewInt(1), 70), big.NewInt(int64(i)))
		}
		first := world.Leaf(p.CA, serial(0), []string{urlA}, nil)
		v := w.Lookup(first, world.Chain(first, p.CA, p.Root))
		if v.String() != "REVOKED" {
			chk.Violation("C17|disk-path-failed", fmt.Sprintf("disk path with %d entries: first listed serial => %s %s", n, v, v.Err), nil)
			return
		}
		for _, i := range []int{n / 2, n - 1} {
			l := world.Leaf(p.CA, serial(i), []string{urlA}, nil)
			if v := w.Lookup(l, world.Chain(l, p.CA, p.Root)); v.String() != "REVOKED" {
				chk.Violation("C17|disk-path-lost-entry", fmt.Sprintf("disk path with %d entries: entry %d => %s %s", n, i, v, v.Err), nil)
			}
		}
		l := world.Leaf(p.CA, serial(n+5), []string{urlA}, nil)
		if v := w.Lookup(l, world.Chain(l, p.CA, p.Root)); v.String() != "OK" {
			chk.Violation("C17|disk-path-unlisted", fmt.Sprintf("disk path: unlisted serial => %s %s", v, v.Err), nil)
		}
		// the lookup leg: many lookups spread over the whole key space must not make the store hold on to what it read
		if ents := w.Repo().VerifEntries(); len(ents) == 1 && ents[0].Store != nil {
			var issuer pkix.RDNSequence
			asn1.Unmarshal(p.CA.Cert.RawSubject, &issuer)
			before := liveHeap()
			misses := 0
			for i := 0; i < n; i += 16 {
				st, err := ents[0].Store.GetCertRevocationStatus(&issuer, serial(i))
				if err != nil || st == nil || !st.Revoked {
					misses++
				}
			}
			lookupGrowth = int64(liveHeap()) - int64(before)
			if misses > 0 {
				chk.Violation("C17|disk-path-lost-entry", fmt.Sprintf("disk path with %d entries: %d of %d store lookups of listed serials did not answer revoked", n, misses, n/16), nil)
			}
			if lookupGrowth > 20*mib {
				chk.Violation("C17|disk-lookups-retain-memory", fmt.Sprintf("disk storage with %d entries: %d lookups spread over the key space made the live heap grow by %d bytes (bound 20 MiB; LevelDB's default block cache is 8 MiB)", n, n/16, lookupGrowth), map[string]interface{}{"n": n})
			}
		}
		w.Chk.Cleanup()
	})
	growth = int64(atEnd) - int64(base)
	// LevelDB's write buffers, frozen memtable and caches saturate at ~12 MiB (measured plateau from ~300k entries on);
	// 24 MiB is the bound of DESIGN.md, a retention of >= 50 bytes per entry exceeds it at 2^19 entries
	if growth > 24*mib {
		chk.Violation("C17|disk-live-heap-grows", fmt.Sprintf("whole path with %d entries on disk storage: live heap peaked %d bytes above its value at the first entry (bound 24 MiB; first entry %d, half %d, max %d)", n, growth, base, atHalf, atEnd), map[string]interface{}{"n": n})
	}
	return
}

// c17DocNoLF builds a well-formed DER CRL with about n entries which contains no 0x0A octet before its signature
// (4-octet serials with digits 0x10..0xFF, a CN-only issuer, no crlExtensions, n adjusted until no length octet is 0x0A):
// whatever looks at the head of a CRL file to tell PEM from DER must not depend on finding a line feed there.
func c17DocNoLF(n int) ([]byte, int) {
	p := world.Std()
	for ; ; n++ {
		// sha256WithRSAEncryption: the AlgorithmIdentifier of ecdsa-with-SHA256 is 10 = 0x0A octets long
		s := &world.CRLSpec{Version: 2, Alg: world.SHA256RSA, IssuerRaw: world.RawDN("CN", "nolf"),
			ThisUpdate: time.Date(2026, 11, 12, 13, 14, 15, 0, time.UTC), NextUpdate: time.Date(2027, 11, 12, 13, 14, 15, 0, time.UTC), Signer: p.CARSA.Key}
		t := time.Date(2026, 11, 11, 11, 11, 11, 0, time.UTC)
		for i := 0; i < n; i++ {
			b := []byte{byte(0x10 + i/(240*240*240)%112), byte(0x10 + i/(240*240)%240), byte(0x10 + i/240%240), byte(0x10 + i%240)}
			s.Entries = append(s.Entries, world.RevEntry{Serial: new(big.Int).SetBytes(b), Date: t})
		}
		d := s.DER()
		if i := bytes.IndexByte(d, 0x0a); i < 0 || i > len(d)-300 {
			return d, n
		}
		if n > 0 && n%64 == 63 {
			panic("c17DocNoLF: cannot avoid 0x0A octets")
		}
	}
}

// c17FootprintWorker runs in a fresh process: read the CRL file with the real reader and a discarding processor and
// report by how much the heap the process obtained from the OS (a high-water mark; it covers transient buffers which
// a live-heap sample between two entries cannot see) grew.
func c17FootprintWorker(path string) int {
	var m0, m1 runtime.MemStats
	runtime.GC()
	runtime.ReadMemStats(&m0)
	proc := &discardProc{}
	// the stack in use, sampled from inside the consumer (every 65536th entry): reading entry k must not sit on top of k frames
	proc.onEntry = func(k int) {
		if k%65536 == 0 {
			var m runtime.MemStats
			runtime.ReadMemStats(&m)
			if m.StackInuse > proc.maxStack {
				proc.maxStack = m.StackInuse
			}
		}
	}
	_, err := crlreader.StreamingCRLFileReader{}.ReadCRL(proc, path)
	runtime.ReadMemStats(&m1)
	e := ""
	if err != nil {
		e = err.Error()
	}
	b, _ := json.Marshal(map[string]interface{}{"heap_sys_before": m0.HeapSys, "heap_sys_after": m1.HeapSys, "entries": proc.n, "err": e,
		"stack_sys_before": m0.StackSys, "stack_sys_after": m1.StackSys, "stack_inuse_max": proc.maxStack})
	fmt.Println(string(b))
	return 0
}

// c17RefreshWorker runs in a fresh process: a disk-backed validator loads a 1000-entry CRL, then the origin serves the
// big document (streamed from the file, the harness holds none of it) and a refresh takes it in. Reported: growth of
// the heap obtained from the OS across the refresh.
func c17RefreshWorker(path string, n int) int {
	p := world.Std()
	var m0, m1 runtime.MemStats
	verdict, errs := "", ""
	steps := map[string]uint64{}
	serial := func(i int) *big.Int {
		return new(big.Int).Add(new(big.Int).Lsh(big.NewInt(1), 70), big.NewInt(int64(i)))
	}
	seqWorld(func() {
		w := NewCW(CWOpt{Disk: true, SigMode: config.SignatureValidationModeVerify})
		defer os.RemoveAll(w.Dir)
		w.Net.Routes[urlA] = &world.Behaviour{Label: "small", Body: c17Doc(1000, false)}
		if err := w.Provision(); err != nil {
			errs = err.Error()
			return
		}
		vsched.Drain()
		first := world.Leaf(p.CA, serial(0), []string{urlA}, nil)
		if v := w.Lookup(first, world.Chain(first, p.CA, p.Root)); v.String() != "REVOKED" {
			errs = "first load: " + v.String() + " " + v.Err
			return
		}
		w.Net.Routes[urlA] = &world.Behaviour{Label: "big", Stream: func() io.ReadCloser {
			f, err := os.Open(path)
			if err != nil {
				panic(err)
			}
			return f
		}}
		runtime.GC()
		runtime.ReadMemStats(&m0)
		// bytes allocated between two consecutive effect points (file / database operations) which are not both inserts:
		// everything outside the per-entry loop - download, hashing, staging set-up, swap - allocates a bounded amount
		lastKind, lastAlloc := "", m0.TotalAlloc
		vsched.EffectHook = func(kind, arg string) error {
			if kind == "ldb.put" && lastKind == "ldb.put" {
				return nil
			}
			var m runtime.MemStats
			runtime.ReadMemStats(&m)
			if d := m.TotalAlloc - lastAlloc; !(kind == "ldb.put" || lastKind == "ldb.put") {
				if l := lastKind + " -> " + kind; d > steps[l] {
					steps[l] = d
				}
			}
			lastKind, lastAlloc = kind, m.TotalAlloc
			return nil
		}
		w.Chk.VerifUpdateCRLs(true)
		vsched.Drain()
		vsched.EffectHook = nil
		runtime.ReadMemStats(&m1)
		last := world.Leaf(p.CA, serial(n-1), []string{urlA}, nil)
		verdict = w.Lookup(last, world.Chain(last, p.CA, p.Root)).String()
		w.Chk.Cleanup()
	})
	b, _ := json.Marshal(map[string]interface{}{"heap_sys_before": m0.HeapSys, "heap_sys_after": m1.HeapSys, "verdict_last_entry": verdict, "err": errs,
		"max_alloc_between_effect_points": steps})
	fmt.Println(string(b))
	return 0
}

// c17RefreshFootprint: the refresh path (download -> staging store -> swap) of a disk-backed validator for an n-entry
// CRL in a fresh process; heap growth across the refresh bounded independently of n.
func c17RefreshFootprint(chk *fw.Check, n int, dir string) int64 {
	path := filepath.Join(dir, "refresh.crl")
	os.WriteFile(path, c17Doc(n, false), 0600)
	defer os.Remove(path)
	cmd := exec.Command(os.Args[0], "C17", "--tier", "worker", "--", "refreshfootprint", path, fmt.Sprint(n))
	cmd.Env = c17WorkerEnv()
	out, err := cmd.Output()
	var r struct {
		Before  int64            `json:"heap_sys_before"`
		After   int64            `json:"heap_sys_after"`
		Verdict string           `json:"verdict_last_entry"`
		Err     string           `json:"err"`
		Steps   map[string]int64 `json:"max_alloc_between_effect_points"`
	}
	lines := strings.Split(strings.TrimSpace(string(out)), "\n")
	if err != nil || json.Unmarshal([]byte(lines[len(lines)-1]), &r) != nil {
		chk.Violation("C17|footprint-worker-died|refresh", fmt.Sprintf("refresh of a %d-entry CRL in a fresh process failed: %v %s", n, err, firstLines(string(out), 3)), nil)
		return -1
	}
	if r.Err != "" || r.Verdict != "REVOKED" {
		chk.Violation("C17|disk-path-failed|refresh", fmt.Sprintf("refresh to a %d-entry CRL: %s; last entry => %s", n, r.Err, r.Verdict), nil)
		return -1
	}
	c17RefreshSteps[n] = r.Steps
	g := r.After - r.Before
	if g > c17RefreshBound {
		chk.Violation("C17|refresh-footprint-grows", fmt.Sprintf("refresh of a disk-backed validator to a %d-entry CRL: the heap obtained from the OS grew by %d bytes (bound %d independent of the size)", n, g, c17RefreshBound), map[string]interface{}{"n": n})
	}
	return g
}

// c17ProvisionWorker runs in a fresh process: a validator with disk storage and one configured crl_file of n entries
// is provisioned (the list is imported while Provision runs). Reported: growth of the heap obtained from the OS across
// Provision - a high-water mark, so whatever the import holds on to while it runs shows, also what it lets go of
// before it returns.
func c17ProvisionWorker(path string, n int) int {
	p := world.Std()
	var m0, m1 runtime.MemStats
	verdict, errs := "", ""
	serial := func(i int) *big.Int {
		return new(big.Int).Add(new(big.Int).Lsh(big.NewInt(1), 70), big.NewInt(int64(i)))
	}
	seqWorld(func() {
		w := NewCW(CWOpt{Disk: true, SigMode: config.SignatureValidationModeVerify, Files: []string{path}, Trusted: []*x509.Certificate{p.CA.Cert}})
		defer os.RemoveAll(w.Dir)
		runtime.GC()
		runtime.ReadMemStats(&m0)
		if err := w.Provision(); err != nil {
			errs = err.Error()
			return
		}
		runtime.ReadMemStats(&m1)
		vsched.Drain()
		last := world.Leaf(p.CA, serial(n-1), nil, nil)
		verdict = w.Lookup(last, world.Chain(last, p.CA, p.Root)).String()
		w.Chk.Cleanup()
	})
	b, _ := json.Marshal(map[string]interface{}{"heap_sys_before": m0.HeapSys, "heap_sys_after": m1.HeapSys, "verdict_last_entry": verdict, "err": errs})
	fmt.Println(string(b))
	return 0
}

// c17ProvisionFootprint: the import of a configured crl_file of n entries while Provision runs, in a fresh process.
func c17ProvisionFootprint(chk *fw.Check, n int, dir string) int64 {
	path := filepath.Join(dir, "configured.crl")
	os.WriteFile(path, c17Doc(n, false), 0600)
	defer os.Remove(path)
	cmd := exec.Command(os.Args[0], "C17", "--tier", "worker", "--", "provisionfootprint", path, fmt.Sprint(n))
	cmd.Env = c17WorkerEnv()
	out, err := cmd.Output()
	var r struct {
		Before  int64  `json:"heap_sys_before"`
		After   int64  `json:"heap_sys_after"`
		Verdict string `json:"verdict_last_entry"`
		Err     string `json:"err"`
	}
	lines := strings.Split(strings.TrimSpace(string(out)), "\n")
	if err != nil || json.Unmarshal([]byte(lines[len(lines)-1]), &r) != nil {
		chk.Violation("C17|footprint-worker-died|provision", fmt.Sprintf("Provision with a configured %d-entry crl_file in a fresh process failed: %v %s", n, err, firstLines(string(out), 3)), nil)
		return -1
	}
	if r.Err != "" || r.Verdict != "REVOKED" {
		chk.Violation("C17|disk-path-failed|provision", fmt.Sprintf("Provision with a configured %d-entry crl_file: %s; last entry => %s", n, r.Err, r.Verdict), nil)
		return -1
	}
	g := r.After - r.Before
	if g > c17RefreshBound {
		chk.Violation("C17|provision-footprint-grows", fmt.Sprintf("Provision of a disk-backed validator with a configured %d-entry crl_file: the heap obtained from the OS grew by %d bytes while the list was imported (bound %d independent of the size)", n, g, c17RefreshBound), map[string]interface{}{"n": n})
	}
	return g
}

const c17RefreshBound = 96 * mib

var c17LookupGrowth []int64

// c17RefreshSteps: per entry count, the largest number of bytes allocated between two consecutive effect points which
// are not both inserts, by kind of interval
var c17RefreshSteps = map[int]map[string]int64{}

// c17WorkerEnv: the footprint workers run on one P with a tight collector. With a single P the collector cannot fall
// behind the allocating goroutine for lack of CPU (assists make the allocator pay), so the high-water mark of the heap
// does not depend on how busy the machine is.
func c17WorkerEnv() []string {
	return append(os.Environ(), "GOMAXPROCS=1", "GOGC=50")
}

// c17Footprint: heap footprint of reading doc in a fresh process must stay below 32 MiB whatever the size.
func c17Footprint(chk *fw.Check, name string, doc []byte, n int, dir string) int64 {
	path := filepath.Join(dir, "footprint.crl")
	os.WriteFile(path, doc, 0600)
	defer os.Remove(path)
	cmd := exec.Command(os.Args[0], "C17", "--tier", "worker", "--", "footprint", path)
	cmd.Env = c17WorkerEnv()
	out, err := cmd.Output()
	var r struct {
		Before  int64  `json:"heap_sys_before"`
		After   int64  `json:"heap_sys_after"`
		Entries int    `json:"entries"`
		Err     string `json:"err"`
		StackB  int64  `json:"stack_sys_before"`
		StackA  int64  `json:"stack_sys_after"`
		StackM  int64  `json:"stack_inuse_max"`
	}
	if err != nil || json.Unmarshal(bytes.TrimSpace(out), &r) != nil {
		chk.Violation("C17|footprint-worker-died|"+name, fmt.Sprintf("reading the %s CRL (%d entries, %d bytes) in a fresh process failed: %v %s", name, n, len(doc), err, firstLines(string(out), 3)), nil)
		return -1
	}
	if r.Err != "" || r.Entries != n {
		chk.Violation("C17|reader-failed|"+name, fmt.Sprintf("reading a well-formed CRL (%s, %d entries) failed: %s (%d entries seen)", name, n, r.Err, r.Entries), nil)
		return -1
	}
	if r.StackA-r.StackB > 8*mib || r.StackM > 8*mib {
		chk.Violation("C17|reader-stack-grows|"+name, fmt.Sprintf("reading the %s CRL (%d entries): the goroutine stacks grew from %d to %d bytes (in use at most %d inside the entry loop; bound 8 MiB independent of the size)", name, n, r.StackB, r.StackA, r.StackM), map[string]interface{}{"family": name, "n": n})
	}
	g := r.After - r.Before
	if g > 32*mib {
		chk.Violation("C17|reader-footprint-grows|"+name, fmt.Sprintf("reading the %s CRL (%d entries, %d bytes): the heap obtained from the OS grew by %d bytes (bound 32 MiB independent of the size)", name, n, len(doc), g), map[string]interface{}{"family": name, "n": n})
	}
	return g
}

func c17DefaultStorage(chk *fw.Check) (kind string) {
	p := world.Std()
	// (a) no storage_type at all; (b) storage_type disk in a work_dir which holds what a crashed run leaves behind -
	// files and directories matching the temporary pattern crl_*_tmp (a download, a staging database, an empty file)
	for _, variant := range []string{"storage_type omitted", "storage_type disk, leftovers of a crashed run in the work_dir"} {
		variant := variant
		seqWorld(func() {
			net := world.NewNet()
			net.Serve(urlA, "doc", world.SimpleCRL(p.CA, 1, 901, 902, 903).DER())
			dir := FreshDir("c17d")
			defer os.RemoveAll(dir)
			files := FreshDir("c17df")
			defer os.RemoveAll(files)
			cfg := &config.CRLConfig{WorkDir: dir, CRLUrls: []string{urlA}, TrustedSignatureCertsFiles: []string{WritePEM(files, "ca.pem", p.CA.Cert)}}
			if strings.HasPrefix(variant, "storage_type disk") {
				cfg.StorageType = "disk"
				for _, f := range []string{"crl_1234567_tmp", "crl_write_probe_tmp", "crl_probe_tmp", "crl_test_tmp", "crl__tmp"} {
					os.WriteFile(filepath.Join(dir, f), nil, 0600)
				}
				os.MkdirAll(filepath.Join(dir, "crl_0b7e7c7e-aaaa-11ef-8000-000000000000_tmp"), 0700)
				os.WriteFile(filepath.Join(dir, "crl_0b7e7c7e-aaaa-11ef-8000-000000000000_tmp", "LOCK"), nil, 0600)
			}
			w := NewTW(TWOpt{Mode: "crl_only", Net: net, CRL: cfg})
			if err := w.Provision(); err != nil {
				chk.Violation("C17|harness|default-storage", variant+": Provision: "+err.Error(), nil)
				return
			}
			vsched.Drain()
			kind = fmt.Sprintf("%T", w.V.VerifCRLChecker().VerifRepository().Factory)
			ids, _, _ := ListDir(dir)
			if !strings.Contains(kind, "LevelDb") || len(ids) == 0 {
				chk.Violation("C17|storage-is-not-disk", fmt.Sprintf("%s: the validator keeps its CRLs in %s (store directories in the work_dir: %v); disk storage - the documented default, the one the memory bound is promised for - was to be used", variant, kind, ids), nil)
			}
			w.Cleanup()
			vsched.Drain()
		})
	}
	return
}

// RunC17 is the entry point of the C17 check.
func RunC17(tier string, args []string) int {
	if len(args) > 1 && args[0] == "footprint" {
		return c17FootprintWorker(args[1])
	}
	if len(args) > 2 && args[0] == "provisionfootprint" {
		n, _ := strconv.Atoi(args[2])
		return c17ProvisionWorker(args[1], n)
	}
	if len(args) > 2 && args[0] == "refreshfootprint" {
		n, _ := strconv.Atoi(args[2])
		return c17RefreshWorker(args[1], n)
	}
	chk := fw.NewCheck("C17", tier, "exploration")
	chk.Assumptions = []string{
		"what is enumerated exhaustively is the entry count N up to a bound, with a live-heap invariant (two forced GCs, HeapAlloc) evaluated in intermediate states of the streaming loop; a bound for all N is extrapolated from the loop being the same code for every entry",
		"reader + discarding processor: live(k) <= live(first entry) + 1 MiB at every 64th entry; transfers (URL download with a lazily produced body, crl_file copy): total allocation <= 4 MiB independent of the size; whole disk path: max over 16 intermediate states of live(k) - live(first entry) <= 24 MiB at N = 2^19 (2^21 thorough) entries",
		"transient buffers: reading a 2^20-entry CRL (ordinary serials; a document without any 0x0A octet before its signature; PEM) in a fresh process grows the heap obtained from the OS (high-water mark) by <= 32 MiB",
	}
	dir := FreshDir("c17")
	defer os.RemoveAll(dir)
	evals, samples := 0, 0
	ns := []int{}
	for n := 0; n <= 256; n++ {
		ns = append(ns, n)
	}
	maxK := 15
	if tier == "thorough" {
		maxK = 18
	}
	for k := 9; k <= maxK; k++ {
		ns = append(ns, 1<<k)
	}
	distinct := 0
	for _, n := range ns {
		for _, pemEnc := range []bool{false, true} {
			if n > 256 && pemEnc && n != 1<<maxK && n != 1<<12 {
				continue
			}
			s, _ := c17Reader(chk, n, pemEnc, dir)
			samples += s
			evals++
			if n > 1 {
				distinct++
			}
		}
	}
	c17ReaderFailingStore(chk, 1<<maxK, dir)
	// the reader's live heap for lists whose entries carry extensions: the same one naming the issuer in every entry, and
	// one with an identifier of its own in every entry
	c17EntryIssuerExt = true
	c17Reader(chk, 1<<maxK, false, dir)
	c17EntryIssuerExt = false
	c17EntryUniqueExt = true
	c17Reader(chk, 1<<maxK, false, dir)
	c17EntryUniqueExt = false
	evals += 2
	distinct += 2
	algEvals := c17ReaderAlgs(chk, 1<<maxK, dir)
	evals += algEvals
	distinct += algEvals
	evals++
	distinct++
	sizes := []int64{1 << 20, 16 << 20, 64 << 20}
	if tier == "thorough" {
		sizes = append(sizes, 512<<20)
	}
	for _, sz := range sizes {
		c17Transfer(chk, sz, dir)
		evals += 2
		distinct += 2
	}
	diskN := []int{1 << 19}
	if tier == "thorough" {
		diskN = []int{1 << 19, 1 << 21}
	}
	// heap footprint (high-water mark) in a fresh process: ordinary serials and a CRL without any line-feed octet
	fpN := 1 << 20
	var footprints []int64
	footprints = append(footprints, c17Footprint(chk, "ordinary", c17Doc(fpN, false), fpN, dir))
	nolf, nn := c17DocNoLF(fpN)
	footprints = append(footprints, c17Footprint(chk, "no-line-feed-octet", nolf, nn, dir))
	nolf = nil
	footprints = append(footprints, c17Footprint(chk, "ordinary-PEM", c17Doc(fpN/4, true), fpN/4, dir))
	evals += 3
	distinct += 3
	// the refresh path for two sizes: what the heap obtained from the OS grows by must not depend on the size (LevelDB's
	// buffers and caches saturate at a constant); bound for the difference: 16 MiB (the larger document has 24 MiB more)
	refreshSmall := c17RefreshFootprint(chk, fpN/4, dir)
	refreshGrowth := c17RefreshFootprint(chk, fpN, dir)
	if refreshSmall >= 0 && refreshGrowth-refreshSmall > 16*mib {
		chk.Violation("C17|refresh-footprint-grows", fmt.Sprintf("refresh of a disk-backed validator: heap obtained from the OS grows by %d bytes for %d entries and by %d bytes for %d entries (difference bound 16 MiB)", refreshSmall, fpN/4, refreshGrowth, fpN), nil)
	}
	// the import of a configured crl_file while Provision runs, two sizes
	provSmall := c17ProvisionFootprint(chk, fpN/16, dir)
	provGrowth := c17ProvisionFootprint(chk, fpN/4, dir)
	if provSmall >= 0 && provGrowth-provSmall > 48*mib {
		chk.Violation("C17|provision-footprint-grows", fmt.Sprintf("Provision of a disk-backed validator with a configured crl_file: heap obtained from the OS grows by %d bytes for %d entries and by %d bytes for %d entries (difference bound 48 MiB)", provSmall, fpN/16, provGrowth, fpN/4), nil)
	}
	evals += 2
	distinct += 2
	fmt.Printf("  provision footprint: %d entries +%d KiB, %d entries +%d KiB\n", fpN/16, provSmall>>10, fpN/4, provGrowth>>10)
	// everything outside the per-entry loop (download, staging set-up, swap, re-open) allocates an amount which does
	// not depend on the size: per kind of interval between two effect points, large minus small <= 12 MiB
	var stepNotes []string
	for l, big := range c17RefreshSteps[fpN] {
		small, ok := c17RefreshSteps[fpN/4][l]
		if !ok {
			continue
		}
		if big > 2*mib {
			stepNotes = append(stepNotes, fmt.Sprintf("%s: %d -> %d bytes", l, small, big))
		}
		if big-small > 12*mib {
			chk.Violation("C17|refresh-allocates-with-size-outside-the-entry-loop|"+l, fmt.Sprintf("refresh of a disk-backed validator: between the effect points %s (outside the per-entry loop) %d bytes are allocated for %d entries and %d bytes for %d entries (difference bound 12 MiB)", l, small, fpN/4, big, fpN), nil)
		}
	}
	sort.Strings(stepNotes)
	evals += 2
	distinct += 2
	var growths []int64
	for _, n := range diskN {
		growths = append(growths, c17Disk(chk, n))
		if n == diskN[0] {
			// the same path for a list in which every entry names its issuer
			c17EntryIssuerExt = true
			growths = append(growths, c17Disk(chk, n/2))
			c17EntryIssuerExt = false
			evals++
			distinct++
		}
		evals++
		distinct++
	}
	// the bound is promised for disk storage, and disk storage is what a configuration gets which does not name a
	// storage type: the whole module, provisioned from a crl_config without storage_type, keeps its CRLs in a LevelDB
	// directory below the work_dir
	defaultStorage := c17DefaultStorage(chk)
	evals++
	distinct++
	cov := fw.Coverage{
		"storage_of_a_configuration_without_storage_type": defaultStorage,
		"evaluations":                                   evals,
		"distinct_nontrivial":                           distinct,
		"rule":                                          fmt.Sprintf("entry counts: every N in [0,256] and N = 2^k for k = 9..%d (DER, PEM for selected N) through the real reader with a discarding processor; transfer sizes %v bytes via URL download and file copy; whole disk path with N in %v. Non-trivial = N > 1 (the loop iterates).", maxK, sizes, diskN),
		"heap_samples":                                  samples,
		"disk_peak_growth_bytes":                        growths,
		"disk_lookup_leg_growth_bytes":                  c17LookupGrowth,
		"reader_footprint_growth_bytes":                 footprints,
		"refresh_footprint_growth_bytes":                []int64{refreshSmall, refreshGrowth},
		"refresh_alloc_between_effect_points_over_2MiB": stepNotes,
		"samples":                                       []string{"N=256 DER", fmt.Sprintf("N=%d PEM", 1<<maxK), "64 MiB lazily produced download body", fmt.Sprintf("disk path N=%d", diskN[0])},
		"exhaustive":                                    true,
	}
	return chk.Finish(cov)
}

func init() { registry["C17"] = RunC17 }
