package drivers

import (
	"crypto/sha256"
	"crypto/x509"
	"encoding/json"
	"fmt"
	"net/http"
	"os"
	"path/filepath"
	"sort"
	"strconv"
	"strings"
	"time"

	"github.com/gr33nbl00d/caddy-revocation-validator/config"
	"github.com/gr33nbl00d/caddy-revocation-validator/crl"

	"verif/h/fw"
	"verif/h/rt/vleveldb"
	"verif/h/rt/vos"
	"verif/h/rt/vsched"
	"verif/h/world"
)

// C20: work-directory discipline and clean life cycle.

// snapshot of a directory tree: relative path -> "size:sha256" (dirs: "dir")
func treeSnapshot(root string, skip string) map[string]string {
	m := map[string]string{}
	filepath.Walk(root, func(path string, info os.FileInfo, err error) error {
		if err != nil {
			return nil
		}
		if skip != "" && (path == skip || strings.HasPrefix(path, skip+string(os.PathSeparator))) {
			if info.IsDir() {
				return filepath.SkipDir
			}
			return nil
		}
		rel, _ := filepath.Rel(root, path)
		if info.IsDir() {
			m[rel] = "dir"
			return nil
		}
		b, _ := os.ReadFile(path)
		m[rel] = fmt.Sprintf("%d:%x", info.Size(), sha256.Sum256(b))
		return nil
	})
	return m
}

func treeDiff(a, b map[string]string) []string {
	var d []string
	for k, v := range a {
		if w, ok := b[k]; !ok {
			d = append(d, "removed:"+k)
		} else if w != v {
			d = append(d, "changed:"+k)
		}
	}
	for k := range b {
		if _, ok := a[k]; !ok {
			d = append(d, "created:"+k)
		}
	}
	sort.Strings(d)
	return d
}

func c20Locations() map[string]string {
	long := "http://crl.test/" + strings.Repeat("a", 5000) + ".crl"
	return map[string]string{
		"plain":          "http://crl.test/plain.crl",
		"dotdot":         "http://crl.test/../../../../x/../../etc/cron.d/evil",
		"dotdot-encoded": "http://crl.test/%2e%2e%2f%2e%2e%2fescape.crl",
		"slash-encoded":  "http://crl.test/a%2Fb%2F..%2F..%2Fc.crl",
		"backslash":      "http://crl.test/..\\..\\win.crl",
		"nul":            "http://crl.test/a%00b.crl",
		"newline":        "http://crl.test/a%0ab.crl",
		"very-long":      long,
		"unicode":        "http://crl.test/ünï/名前.crl",
		"upper-scheme":   "HTTP://crl.test/plain.crl",
		"upper-host":     "http://CRL.TEST/plain.crl",
		"upper-path":     "http://crl.test/PLAIN.crl",
		"query-only":     "http://crl.test/plain.crl?issuer=2",
		"query-other":    "http://crl.test/plain.crl?issuer=3",
		"query":          "http://crl.test/plain.crl?x=../../y",
		"port":           "http://crl.test:8080/plain.crl",
		"userinfo":       "http://u:p@crl.test/plain.crl",
		"space":          "http://crl.test/a b.crl",
		"abs-path-like":  "http://crl.test//etc/passwd",
		"tilde":          "http://crl.test/~root/.ssh/x",
	}
}

// c20Locs: every location string alone (as crl_url and as CDP) and ordered pairs as CDP sets.
func c20LocationPart(chk *fw.Check, tier string) (evals int, ids map[string]string) {
	p := world.Std()
	locs := c20Locations()
	var names []string
	for n := range locs {
		names = append(names, n)
	}
	sort.Strings(names)
	ids = map[string]string{}
	doc := world.SimpleCRL(p.CA, 1, 901).DER()
	type cas struct {
		label string
		cdp   []string
	}
	var cases []cas
	for _, n := range names {
		cases = append(cases, cas{n, []string{locs[n]}})
	}
	pairNames := names
	if tier != "thorough" {
		pairNames = []string{"plain", "dotdot", "slash-encoded", "unicode", "upper-path", "query-only"}
	}
	for _, a := range pairNames {
		for _, b := range pairNames {
			if a != b {
				cases = append(cases, cas{a + "+" + b, []string{locs[a], locs[b]}})
			}
		}
	}
	cases = append(cases, cas{"concat(plain,query)", []string{locs["plain"] + locs["query"]}})
	for _, disk := range []bool{true, false} {
		for _, cs := range cases {
			evals++
			parent := FreshDir("c20p")
			wd := filepath.Join(parent, "work")
			os.MkdirAll(wd, 0755)
			os.MkdirAll(filepath.Join(parent, "sibling"), 0755)
			os.WriteFile(filepath.Join(parent, "sibling", "canary.txt"), []byte("canary"), 0644)
			os.WriteFile(filepath.Join(parent, "canary2"), []byte("canary2"), 0644)
			before := treeSnapshot(parent, wd)
			var touched []vos.Touch
			var v1, v2 Verdict
			var entries []string
			seqWorld(func() {
				w := NewCW(CWOpt{Disk: disk, SigMode: config.SignatureValidationModeVerify, Dir: wd})
				for _, u := range cs.cdp {
					w.Net.Routes[normURL(u)] = &world.Behaviour{Label: "doc", Body: doc}
				}
				w.Net.Routes["*"] = &world.Behaviour{Label: "doc", Body: doc}
				vos.LogTouches = true
				vos.ResetTouched()
				if err := w.Provision(); err != nil {
					chk.Violation("C20|provision-fails", err.Error(), nil)
					return
				}
				vsched.Drain()
				leaf := world.Leaf(p.CA, bi(901), cs.cdp, nil)
				v1 = w.Lookup(leaf, world.Chain(leaf, p.CA, p.Root))
				w.Chk.VerifUpdateCRLs(true)
				vsched.Drain()
				v2 = w.Lookup(leaf, world.Chain(leaf, p.CA, p.Root))
				ents, _ := os.ReadDir(wd)
				for _, e := range ents {
					entries = append(entries, e.Name())
				}
				w.Chk.Cleanup()
				touched = append([]vos.Touch{}, vos.Touched...)
				vos.LogTouches = false
			})
			rep := map[string]interface{}{"driver": "C20", "case": cs.label, "cdp": cs.cdp, "disk": disk}
			if v1.Panic != "" || v2.Panic != "" {
				chk.Violation("C20|panic|location="+cs.label, "panic: "+v1.Panic+v2.Panic, rep)
			}
			for _, t := range touched {
				pth := t.Path
				if !filepath.IsAbs(pth) {
					pth, _ = filepath.Abs(pth)
				}
				if pth != wd && !strings.HasPrefix(pth, wd+"/") {
					chk.Violation("C20|path-outside-work_dir|"+t.Kind, fmt.Sprintf("location %q (%s): %s touches %q outside the work_dir %q", cs.cdp, cs.label, t.Kind, t.Path, wd), rep)
				}
			}
			if d := treeDiff(before, treeSnapshot(parent, wd)); len(d) > 0 {
				chk.Violation("C20|outside-tree-changed", fmt.Sprintf("location %q: the directory tree around the work_dir changed: %v", cs.cdp, d), rep)
			}
			var idDirs []string
			for _, e := range entries {
				switch {
				case len(e) == 64 && isHex(e):
					idDirs = append(idDirs, e)
				case strings.HasPrefix(e, "crl_") && strings.HasSuffix(e, "_tmp"):
					chk.Violation("C20|temp-residue|location", fmt.Sprintf("location %q: temporary artefact %s remains", cs.cdp, e), rep)
				default:
					chk.Violation("C20|unexpected-entry-in-work_dir", fmt.Sprintf("location %q: unexpected work_dir entry %q", cs.cdp, e), rep)
				}
			}
			if disk {
				if len(idDirs) != 1 {
					chk.Violation("C20|store-count", fmt.Sprintf("location %q: %d store directories %v (expected exactly one)", cs.cdp, len(idDirs), idDirs), rep)
				} else {
					// scheme (and host) are case-insensitive: case variants denote the same location
					var canon []string
					for _, u := range cs.cdp {
						if i := strings.Index(u, "://"); i > 0 {
							rest := u[i+3:]
							host := rest
							if j := strings.IndexAny(rest, "/?#"); j >= 0 {
								host = rest[:j]
							}
							u = strings.ToLower(u[:i]) + "://" + strings.ToLower(host) + rest[len(host):]
						}
						canon = append(canon, u)
					}
					key := strings.Join(canon, " | ")
					if prev, ok := ids[idDirs[0]]; ok && prev != key {
						chk.Violation("C20|distinct-locations-share-store", fmt.Sprintf("locations [%s] and [%s] map to the same store %s", prev, key, idDirs[0]), rep)
					}
					ids[idDirs[0]] = key
				}
			}
			os.RemoveAll(parent)
		}
	}
	return
}

func normURL(u string) string { return u }

// c20Lifecycle: k Provision/Cleanup cycles on the same work_dir.
func c20Lifecycle(chk *fw.Check) int {
	p := world.Std()
	n := 0
	doc := world.SimpleCRL(p.CA, 1, 901).DER()
	// the work_dir as the configuration spells it: canonical, and three spellings of the same directory which are not
	// in canonical form (whatever the registration does with the name, releasing it must undo it)
	spellings := []struct {
		name string
		of   func(dir string) string
	}{
		{"canonical", func(d string) string { return d }},
		{"trailing-slash", func(d string) string { return d + "/" }},
		{"trailing-dot", func(d string) string { return d + "/." }},
		{"dot-segment", func(d string) string { return filepath.Dir(d) + "/./" + filepath.Base(d) }},
	}
	for _, sp := range spellings {
		for _, disk := range []bool{false, true} {
			for _, withCfg := range []bool{false, true} {
				for k := 1; k <= 5; k++ {
					if sp.name != "canonical" && k != 2 && k != 3 {
						continue
					}
					n++
					sp := sp
					sig := fmt.Sprintf("backend=%s configured=%v", be(disk), withCfg)
					if sp.name != "canonical" {
						sig += " work_dir-spelling=" + sp.name
					}
					res := seqWorld(func() {
						dir := FreshDir("c20c")
						defer os.RemoveAll(dir)
						cfgDir := sp.of(dir)
						net := world.NewNet()
						net.Serve(urlA, "doc", doc)
						for cycle := 1; cycle <= k; cycle++ {
							o := CWOpt{Disk: disk, SigMode: config.SignatureValidationModeVerify, Dir: cfgDir, Net: net, Trusted: []*x509.Certificate{p.CA.Cert}, Interval: "10m"}
							if withCfg {
								o.URLs = []string{urlA}
							}
							w := NewCW(o)
							if err := w.Provision(); err != nil {
								chk.Violation("C20|cycle-provision-fails|"+sig, fmt.Sprintf("cycle %d of %d: Provision fails: %v", cycle, k, err), nil)
								return
							}
							vsched.Drain()
							leaf := world.Leaf(p.CA, bi(901), []string{urlA}, nil)
							if v := w.Lookup(leaf, world.Chain(leaf, p.CA, p.Root)); v.String() != "REVOKED" {
								chk.Violation("C20|cycle-lookup|"+sig, fmt.Sprintf("cycle %d: listed certificate => %s %s", cycle, v, v.Err), nil)
							}
							vsched.Drain()
							hitsBefore := len(net.Hits)
							if err := w.Chk.Cleanup(); err != nil {
								chk.Violation("C20|cleanup-error|"+sig, err.Error(), nil)
							}
							vsched.Drain()
							live, sites := vsched.Live()
							if live > 0 {
								chk.Violation("C20|background-activity-after-cleanup", fmt.Sprintf("%s cycle %d of %d: %d repository goroutine(s) still alive after Cleanup: %v", sig, cycle, k, live, sites), nil)
							}
							vsched.Advance(30 * time.Minute)
							if len(net.Hits) != hitsBefore {
								chk.Violation("C20|refresh-after-cleanup|"+sig, fmt.Sprintf("cycle %d: %d fetches after Cleanup when the clock advanced by 3 intervals", cycle, len(net.Hits)-hitsBefore), nil)
							}
							for name, reg := range crl.VerifWorkDirsInUse() {
								if reg != 0 {
									chk.Violation("C20|work_dir-still-registered|"+sig, fmt.Sprintf("work_dir registration %q not released by Cleanup", name), nil)
								}
							}
							if open := vleveldb.OpenPaths(); len(open) > 0 {
								chk.Violation("C20|database-handle-open-after-cleanup|"+sig, fmt.Sprintf("cycle %d: %d database handle(s) still open after Cleanup: %v", cycle, len(open), open), nil)
							}
							if net.Unclosed > 0 {
								chk.Violation("C20|response-body-never-closed|"+sig, fmt.Sprintf("cycle %d: %d answer(s) of the origin were never closed by the validator", cycle, net.Unclosed), nil)
							}
							_, tmps, other := ListDir(dir)
							if len(tmps) > 0 || len(other) > 0 {
								chk.Violation("C20|residue-after-cleanup|"+sig, fmt.Sprintf("cycle %d: work_dir holds %v %v after Cleanup", cycle, tmps, other), nil)
							}
						}
					})
					if res.Verdict != vsched.OK {
						chk.Violation("C20|cycle-"+res.Verdict.String()+"|"+sig, firstLines(res.Detail, 5), nil)
					}
				}
			}
		}
	}
	return n
}

// c20Special: two life-cycle histories beyond plain cycles.
// (1) Cleanup while a refresh is in the middle of its download (the refresh finishes afterwards): nothing of the
//
//	finished refresh may hold the work_dir - no open database, the next Provision on it succeeds.
//
// (2) Exclusive registration: A live; B on the same work_dir is rejected and cleaned up (as caddy does with a module
//
//	whose Provision failed); C on the same work_dir must still be rejected; after A's Cleanup D is accepted.
func c20Special(chk *fw.Check) int {
	p := world.Std()
	n := 0
	v1 := world.SimpleCRL(p.CA, 1, 901).DER()
	v2 := world.SimpleCRL(p.CA, 2, 901, 902).DER()
	for _, disk := range []bool{false, true} {
		for _, src := range []string{"cdp", "crl_urls"} {
			n++
			sig := fmt.Sprintf("backend=%s source=%s", be(disk), src)
			res := seqWorld(func() {
				dir := FreshDir("c20i")
				defer os.RemoveAll(dir)
				net := world.NewNet()
				net.Serve(urlA, "v1", v1)
				o := CWOpt{Disk: disk, SigMode: config.SignatureValidationModeVerify, Dir: dir, Net: net, Trusted: []*x509.Certificate{p.CA.Cert}, Interval: "10m"}
				leaf := world.Leaf(p.CA, bi(901), nil, nil)
				if src == "crl_urls" {
					o.URLs = []string{urlA}
				} else {
					leaf = world.Leaf(p.CA, bi(901), []string{urlA}, nil)
				}
				w := NewCW(o)
				if err := w.Provision(); err != nil {
					chk.Violation("C20|cycle-provision-fails|"+sig, err.Error(), nil)
					return
				}
				vsched.Drain()
				if v := w.Lookup(leaf, world.Chain(leaf, p.CA, p.Root)); v.String() != "REVOKED" {
					chk.Violation("C20|cycle-lookup|"+sig, "listed certificate => "+v.String()+" "+v.Err, nil)
					return
				}
				vsched.Drain()
				// Cleanup comes while the refresh started by the tick is in the middle of its download (the origin's handler
				// performs it: at that point the refresh holds no lock of the repository), the download then completes
				cleaned := false
				net.Routes[urlA] = &world.Behaviour{Label: "v2-cleanup-meanwhile", Fn: func(req *http.Request, body []byte) (int, []byte, error) {
					if !cleaned {
						cleaned = true
						if err := w.Chk.Cleanup(); err != nil {
							chk.Violation("C20|cleanup-error|"+sig, err.Error(), nil)
						}
					}
					return 200, v2, nil
				}}
				vsched.Advance(10*time.Minute + time.Second)
				vsched.Drain()
				if !cleaned {
					chk.Violation("C20|harness|no-refresh-started|"+sig, "the tick did not start a download", nil)
					return
				}
				if os.Getenv("C20DBG") != "" {
					fmt.Println("DBG", sig, "open", vleveldb.OpenPaths())
				}
				if live, sites := vsched.Live(); live > 0 {
					chk.Violation("C20|background-activity-after-cleanup", fmt.Sprintf("%s Cleanup during a refresh: %d goroutine(s) still alive: %v", sig, live, sites), nil)
				}
				if open := vleveldb.OpenPaths(); len(open) > 0 {
					chk.Violation("C20|database-handle-open-after-cleanup|"+sig+" cleanup-during-refresh", fmt.Sprintf("a refresh which was downloading when Cleanup ran left %d database handle(s) open: %v", len(open), open), nil)
				}
				if _, tmps, other := ListDir(dir); len(tmps) > 0 || len(other) > 0 {
					chk.Violation("C20|residue-after-cleanup|"+sig+" cleanup-during-refresh", fmt.Sprintf("work_dir holds %v %v", tmps, other), nil)
				}
				net.Serve(urlA, "v2", v2)
				w2 := NewCW(o)
				if err := w2.Provision(); err != nil {
					chk.Violation("C20|cycle-provision-fails|"+sig+" cleanup-during-refresh", "Provision on the same work_dir after a Cleanup which came during a refresh: "+err.Error(), nil)
					return
				}
				vsched.Drain()
				w2.Chk.Cleanup()
				vsched.Drain()
			})
			if res.Verdict != vsched.OK {
				chk.Violation("C20|cycle-"+res.Verdict.String()+"|"+sig+" cleanup-during-refresh", firstLines(res.Detail, 5), nil)
			}
		}
		// (1a') Cleanup comes while the updater goroutine is still in its very first update run (the one it makes before it
		// starts to wait for ticks and for the stop signal): it must end all the same
		{
			n++
			sig := fmt.Sprintf("backend=%s cleanup-during-the-first-update-run", be(disk))
			res := seqWorld(func() {
				dir := FreshDir("c20k")
				defer os.RemoveAll(dir)
				net := world.NewNet()
				hits, cleaned := 0, false
				var w *CW
				net.Routes[urlA] = &world.Behaviour{Label: "v1-cleanup-at-the-first-update-run", Fn: func(req *http.Request, body []byte) (int, []byte, error) {
					hits++
					// Provision itself fetches the configured list twice (load, update); the next request is the updater's
					if hits == 3 && !cleaned {
						cleaned = true
						if err := w.Chk.Cleanup(); err != nil {
							chk.Violation("C20|cleanup-error|"+sig, err.Error(), nil)
						}
					}
					return 200, v1, nil
				}}
				w = NewCW(CWOpt{Disk: disk, SigMode: config.SignatureValidationModeVerify, Dir: dir, Net: net, Trusted: []*x509.Certificate{p.CA.Cert}, URLs: []string{urlA}, Interval: "10m"})
				if err := w.Provision(); err != nil {
					chk.Violation("C20|cycle-provision-fails|"+sig, err.Error(), nil)
					return
				}
				vsched.Drain()
				if !cleaned {
					// (the updater's first run did not fetch: nothing to observe in this tree)
					w.Chk.Cleanup()
					vsched.Drain()
					return
				}
				vsched.Advance(21 * time.Minute)
				vsched.Drain()
				if live, sites := vsched.Live(); live > 0 {
					chk.Violation("C20|background-activity-after-cleanup", fmt.Sprintf("%s: %d goroutine(s) still alive: %v", sig, live, sites), nil)
				}
				if open := vleveldb.OpenPaths(); len(open) > 0 {
					chk.Violation("C20|database-handle-open-after-cleanup|"+sig, fmt.Sprintf("%d database handle(s) open: %v", len(open), open), nil)
				}
			})
			if res.Verdict != vsched.OK {
				chk.Violation("C20|cycle-"+res.Verdict.String()+"|"+sig, firstLines(res.Detail, 5), nil)
			}
		}
		// (1b) the same during the very first load of a distribution point in fetch_background (the load is staged without
		// the entry lock; when it comes to putting the list in place the repository is closed)
		{
			n++
			sig := fmt.Sprintf("backend=%s cleanup-during-first-background-load", be(disk))
			res := seqWorld(func() {
				dir := FreshDir("c20j")
				defer os.RemoveAll(dir)
				net := world.NewNet()
				o := CWOpt{Disk: disk, SigMode: config.SignatureValidationModeVerify, Dir: dir, Net: net, Background: true, Interval: "10m"}
				w := NewCW(o)
				if err := w.Provision(); err != nil {
					chk.Violation("C20|cycle-provision-fails|"+sig, err.Error(), nil)
					return
				}
				vsched.Drain()
				cleaned := false
				net.Routes[urlA] = &world.Behaviour{Label: "v1-cleanup-meanwhile", Fn: func(req *http.Request, body []byte) (int, []byte, error) {
					if !cleaned {
						cleaned = true
						if err := w.Chk.Cleanup(); err != nil {
							chk.Violation("C20|cleanup-error|"+sig, err.Error(), nil)
						}
					}
					return 200, v1, nil
				}}
				leaf := world.Leaf(p.CA, bi(901), []string{urlA}, nil)
				w.Lookup(leaf, world.Chain(leaf, p.CA, p.Root))
				vsched.Drain()
				if !cleaned {
					chk.Violation("C20|harness|no-background-load-started|"+sig, "the handshake did not start a download", nil)
					return
				}
				if live, sites := vsched.Live(); live > 0 {
					chk.Violation("C20|background-activity-after-cleanup", fmt.Sprintf("%s: %d goroutine(s) still alive: %v", sig, live, sites), nil)
				}
				if open := vleveldb.OpenPaths(); len(open) > 0 {
					chk.Violation("C20|database-handle-open-after-cleanup|"+sig, fmt.Sprintf("a first load which was downloading when Cleanup ran left %d database handle(s) open: %v", len(open), open), nil)
				}
				if _, tmps, other := ListDir(dir); len(tmps) > 0 || len(other) > 0 {
					chk.Violation("C20|residue-after-cleanup|"+sig, fmt.Sprintf("work_dir holds %v %v", tmps, other), nil)
				}
				if net.Unclosed > 0 {
					chk.Violation("C20|response-body-never-closed|"+sig, fmt.Sprintf("%d answer(s) never closed", net.Unclosed), nil)
				}
				net.Serve(urlA, "v1", v1)
				w2 := NewCW(o)
				if err := w2.Provision(); err != nil {
					chk.Violation("C20|cycle-provision-fails|"+sig, "Provision on the same work_dir afterwards: "+err.Error(), nil)
					return
				}
				vsched.Drain()
				w2.Chk.Cleanup()
				vsched.Drain()
			})
			if res.Verdict != vsched.OK {
				chk.Violation("C20|cycle-"+res.Verdict.String()+"|"+sig, firstLines(res.Detail, 5), nil)
			}
		}
		// (3) an entry which never got loaded (its distribution point serves garbage / is down / a fetch is still pending in
		// fetch_background) is released by Cleanup like any other
		for _, kind := range []string{"garbage", "down", "background-pending", "bad-signature", "unknown-signer", "cut-off-after-the-entries", "bad-signature-in-the-background", "http-503", "http-404"} {
			n++
			kind := kind
			sig := fmt.Sprintf("backend=%s never-loaded-entry=%s", be(disk), kind)
			res := seqWorld(func() {
				dir := FreshDir("c20u")
				defer os.RemoveAll(dir)
				net := world.NewNet()
				for cycle := 1; cycle <= 2; cycle++ {
					o := CWOpt{Disk: disk, SigMode: config.SignatureValidationModeVerify, Dir: dir, Net: net, Background: kind == "background-pending" || kind == "bad-signature-in-the-background"}
					switch kind {
					case "bad-signature", "bad-signature-in-the-background":
						// refused only after it was read completely into its staging store
						bs := world.SimpleCRL(p.CA, 1, 901)
						bs.BadSig = true
						net.Serve(urlA, "badsig", bs.DER())
					case "unknown-signer":
						us := world.SimpleCRL(p.OtherCA, 1, 901)
						us.IssuerRaw = p.CA.Cert.RawSubject
						net.Serve(urlA, "unknown-signer", us.DER())
					case "cut-off-after-the-entries":
						net.Serve(urlA, "cut", v1[:len(v1)-20])
					case "http-503":
						net.Routes[urlA] = &world.Behaviour{Label: "503", Status: 503, Body: []byte("<html>503 service unavailable</html>")}
					case "http-404":
						net.Routes[urlA] = &world.Behaviour{Label: "404", Status: 404, Body: []byte("<html>404 not found</html>")}
					case "garbage":
						net.Serve(urlA, "garbage", []byte("<html>503 service unavailable</html>"))
					case "down":
						net.Down(urlA)
					case "background-pending":
						net.Serve(urlA, "v1", v1)
					}
					w := NewCW(o)
					if err := w.Provision(); err != nil {
						chk.Violation("C20|cycle-provision-fails|"+sig, fmt.Sprintf("cycle %d: %v", cycle, err), nil)
						return
					}
					vsched.Drain()
					if kind == "background-pending" {
						vsched.SetHoldSpawns(true)
					}
					leaf := world.Leaf(p.CA, bi(901), []string{urlA}, nil)
					w.Lookup(leaf, world.Chain(leaf, p.CA, p.Root))
					if kind != "background-pending" {
						// while the validator lives: a load which was refused holds nothing - no second database handle, no
						// staging directory (three more attempts: handshake, tick, handshake)
						vsched.Drain()
						w.Chk.VerifUpdateCRLs(true)
						vsched.Drain()
						w.Lookup(leaf, world.Chain(leaf, p.CA, p.Root))
						vsched.Drain()
						if open := vleveldb.OpenPaths(); len(open) > 1 {
							chk.Violation("C20|database-handles-pile-up-while-running|"+sig, fmt.Sprintf("cycle %d: after three refused loads of one distribution point %d database handles are open: %v", cycle, len(open), open), nil)
							return
						}
						if _, tmps, _ := ListDir(dir); len(tmps) > 0 {
							chk.Violation("C20|temp-residue-while-running|"+sig, fmt.Sprintf("cycle %d: after three refused loads the work_dir holds %v", cycle, tmps), nil)
							return
						}
					}
					if err := w.Chk.Cleanup(); err != nil {
						chk.Violation("C20|cleanup-error|"+sig, err.Error(), nil)
					}
					vsched.SetHoldSpawns(false)
					vsched.ReleaseAll()
					vsched.Drain()
					if open := vleveldb.OpenPaths(); len(open) > 0 {
						chk.Violation("C20|database-handle-open-after-cleanup|"+sig, fmt.Sprintf("cycle %d: %d database handle(s) still open after Cleanup: %v", cycle, len(open), open), nil)
						return
					}
					if net.Unclosed > 0 {
						chk.Violation("C20|response-body-never-closed|"+sig, fmt.Sprintf("cycle %d: %d answer(s) of the origin were never closed by the validator (each keeps a connection for good)", cycle, net.Unclosed), nil)
						return
					}
					if _, tmps, other := ListDir(dir); len(tmps) > 0 || len(other) > 0 {
						chk.Violation("C20|residue-after-cleanup|"+sig, fmt.Sprintf("cycle %d: work_dir holds %v %v", cycle, tmps, other), nil)
					}
				}
			})
			if res.Verdict != vsched.OK {
				chk.Violation("C20|cycle-"+res.Verdict.String()+"|"+sig, firstLines(res.Detail, 5), nil)
			}
		}
		// (4) a Provision which fails after the work_dir was registered and a store was opened (the second configured CRL
		// is no CRL): the module is cleaned up (as caddy does), the corrected configuration provisions on the same work_dir
		for _, src := range []string{"crl_urls", "crl_files"} {
			n++
			src := src
			sig := fmt.Sprintf("backend=%s failed-provision source=%s", be(disk), src)
			res := seqWorld(func() {
				dir := FreshDir("c20p")
				defer os.RemoveAll(dir)
				files := FreshDir("c20pf")
				defer os.RemoveAll(files)
				net := world.NewNet()
				net.Serve(urlA, "v1", v1)
				net.Serve(urlB, "garbage", []byte("this is not a CRL"))
				os.WriteFile(filepath.Join(files, "a.crl"), v1, 0644)
				os.WriteFile(filepath.Join(files, "b.crl"), []byte("this is not a CRL"), 0644)
				o := CWOpt{Disk: disk, SigMode: config.SignatureValidationModeVerify, Dir: dir, Net: net, Trusted: []*x509.Certificate{p.CA.Cert}, Interval: "10m"}
				bad, good := o, o
				if src == "crl_urls" {
					bad.URLs, good.URLs = []string{urlA, urlB}, []string{urlA}
				} else {
					bad.Files, good.Files = []string{filepath.Join(files, "a.crl"), filepath.Join(files, "b.crl")}, []string{filepath.Join(files, "a.crl")}
				}
				for round := 1; round <= 2; round++ {
					w := NewCW(bad)
					if err := w.Provision(); err == nil {
						chk.Violation("C20|harness|failed-provision|"+sig, "Provision accepted a configured CRL which is no CRL", nil)
						return
					}
					w.Chk.Cleanup()
					vsched.Drain()
					if live, sites := vsched.Live(); live > 0 {
						chk.Violation("C20|background-activity-after-cleanup", fmt.Sprintf("%s: %d goroutine(s) alive after the failed instance was cleaned up: %v", sig, live, sites), nil)
					}
					for name, reg := range crl.VerifWorkDirsInUse() {
						if reg != 0 {
							chk.Violation("C20|work_dir-still-registered|"+sig, fmt.Sprintf("work_dir registration %q not released by the Cleanup of an instance whose Provision had failed", name), nil)
						}
					}
					if open := vleveldb.OpenPaths(); len(open) > 0 {
						chk.Violation("C20|database-handle-open-after-cleanup|"+sig, fmt.Sprintf("%d database handle(s) still open after the Cleanup of an instance whose Provision had failed: %v", len(open), open), nil)
					}
				}
				w := NewCW(good)
				if err := w.Provision(); err != nil {
					chk.Violation("C20|cycle-provision-fails|"+sig, "the corrected configuration on the same work_dir: "+err.Error(), nil)
					return
				}
				vsched.Drain()
				w.Chk.Cleanup()
				vsched.Drain()
			})
			if res.Verdict != vsched.OK {
				chk.Violation("C20|cycle-"+res.Verdict.String()+"|"+sig, firstLines(res.Detail, 5), nil)
			}
		}
		// (5) a tick which comes shortly after a refresh has finished (a forced refresh, started by a newly seen
		// distribution point in fetch_background, ended 4 minutes earlier; interval 10 minutes) is skipped - and leaves
		// nothing behind: the next ticks refresh, Cleanup ends everything, the next instance refreshes as well
		for _, inst := range []int{1, 2} {
			n++
			inst := inst
			sig := fmt.Sprintf("backend=%s tick-shortly-after-refresh instances=%d", be(disk), inst)
			res := seqWorld(func() {
				net := world.NewNet()
				net.Serve(urlA, "v1", v1)
				net.Serve(urlB, "vb", world.SimpleCRL(p.CA, 1, 903).DER())
				var dirs []string
				defer func() {
					for _, d := range dirs {
						os.RemoveAll(d)
					}
				}()
				mk := func() *CW {
					d := FreshDir("c20t")
					dirs = append(dirs, d)
					w := NewCW(CWOpt{Disk: disk, SigMode: config.SignatureValidationModeVerify, Dir: d, Net: net, Trusted: []*x509.Certificate{p.CA.Cert}, Interval: "10m", Background: true, URLs: []string{urlA}})
					if err := w.Provision(); err != nil {
						panic(err)
					}
					vsched.Drain()
					return w
				}
				var ws []*CW
				for i := 0; i < inst; i++ {
					ws = append(ws, mk())
				}
				vsched.Advance(6 * time.Minute)
				lb := world.Leaf(p.CA, bi(904), []string{urlB}, nil)
				ws[0].Lookup(lb, world.Chain(lb, p.CA, p.Root)) // new distribution point: forced refresh in the background
				vsched.Drain()
				vsched.Advance(4*time.Minute + time.Second) // the tick, 4 minutes after that refresh finished
				vsched.Drain()
				before := net.HitsFor(urlA)
				vsched.Advance(10 * time.Minute) // the next tick
				vsched.Drain()
				if got := net.HitsFor(urlA) - before; got < inst {
					chk.Violation("C20|refresh-stalled-after-skipped-tick|"+sig, fmt.Sprintf("after a tick which was skipped (a refresh had finished 4 minutes earlier) the next tick fetched the configured CRL %d time(s), %d instance(s) are live", got, inst), nil)
				}
				for _, w := range ws {
					w.Chk.Cleanup()
				}
				vsched.Drain()
				if live, sites := vsched.Live(); live > 0 {
					chk.Violation("C20|background-activity-after-cleanup", fmt.Sprintf("%s: %d goroutine(s) still alive after Cleanup: %v", sig, live, sites), nil)
				}
				before = net.HitsFor(urlA)
				w := mk()
				if got := net.HitsFor(urlA) - before; got < 1 {
					chk.Violation("C20|refresh-stalled-after-skipped-tick|"+sig+" next-instance", "an instance provisioned after the cycle never fetched its configured CRL", nil)
				}
				w.Chk.Cleanup()
				vsched.Drain()
				if live, sites := vsched.Live(); live > 0 {
					chk.Violation("C20|background-activity-after-cleanup", fmt.Sprintf("%s next cycle: %d goroutine(s) still alive after Cleanup: %v", sig, live, sites), nil)
				}
			})
			if res.Verdict != vsched.OK {
				chk.Violation("C20|cycle-"+res.Verdict.String()+"|"+sig, firstLines(res.Detail, 5), nil)
			}
		}
		n++
		res := seqWorld(func() {
			dir := FreshDir("c20x")
			defer os.RemoveAll(dir)
			net := world.NewNet()
			o := CWOpt{Disk: disk, SigMode: config.SignatureValidationModeVerify, Dir: dir, Net: net}
			a := NewCW(o)
			if err := a.Provision(); err != nil {
				chk.Violation("C20|cycle-provision-fails|exclusive "+be(disk), err.Error(), nil)
				return
			}
			vsched.Drain()
			b := NewCW(o)
			if err := b.Provision(); err == nil {
				chk.Violation("C20|work_dir-shared|second-instance-accepted|"+be(disk), "a second instance was provisioned on the work_dir of a live one", nil)
				return
			}
			b.Chk.Cleanup() // what caddy does with a module whose Provision failed
			vsched.Drain()
			c := NewCW(o)
			if err := c.Provision(); err == nil {
				chk.Violation("C20|work_dir-shared|after-rejected-duplicate-was-cleaned-up|"+be(disk), "the work_dir of a live instance was handed out again after a rejected duplicate instance had been cleaned up", nil)
				c.Chk.Cleanup()
			}
			a.Chk.Cleanup()
			vsched.Drain()
			d := NewCW(o)
			if err := d.Provision(); err != nil {
				chk.Violation("C20|cycle-provision-fails|exclusive-after-release "+be(disk), err.Error(), nil)
				return
			}
			vsched.Drain()
			d.Chk.Cleanup()
			vsched.Drain()
		})
		if res.Verdict != vsched.OK {
			chk.Violation("C20|cycle-"+res.Verdict.String()+"|exclusive "+be(disk), firstLines(res.Detail, 5), nil)
		}
	}
	// the work_dir becomes unusable while the validator runs (removed; replaced by a file): refreshes may fail - what they
	// create, they create inside the configured work_dir or not at all, the system temp directory stays empty
	for _, disk := range []bool{false, true} {
		for _, how := range []string{"removed", "replaced-by-a-file"} {
			n++
			disk, how := disk, how
			sig := fmt.Sprintf("backend=%s work_dir-%s-while-running", be(disk), how)
			res := seqWorld(func() {
				parent := FreshDir("c20u")
				defer os.RemoveAll(parent)
				dir, systmp := filepath.Join(parent, "work"), filepath.Join(parent, "systmp")
				os.MkdirAll(dir, 0755)
				os.MkdirAll(systmp, 0755)
				oldTmp, hadTmp := os.LookupEnv("TMPDIR")
				os.Setenv("TMPDIR", systmp)
				defer func() {
					if hadTmp {
						os.Setenv("TMPDIR", oldTmp)
					} else {
						os.Unsetenv("TMPDIR")
					}
				}()
				net := world.NewNet()
				net.Serve(urlA, "v1", v1)
				w := NewCW(CWOpt{Disk: disk, SigMode: config.SignatureValidationModeVerify, Dir: dir, Net: net, URLs: []string{urlA}, Trusted: []*x509.Certificate{p.CA.Cert}, Interval: "10m"})
				if err := w.Provision(); err != nil {
					chk.Violation("C20|cycle-provision-fails|"+sig, err.Error(), nil)
					return
				}
				vsched.Drain()
				os.RemoveAll(dir)
				if how == "replaced-by-a-file" {
					os.WriteFile(dir, []byte("not a directory"), 0644)
				}
				net.Serve(urlA, "v2", v2)
				vos.LogTouches = true
				vos.ResetTouched()
				vsched.Advance(10*time.Minute + time.Second)
				vsched.Drain()
				leaf := world.Leaf(p.CA, bi(903), []string{urlB}, nil) // and a first use of another distribution point
				net.Serve(urlB, "vb", v1)
				w.Lookup(leaf, world.Chain(leaf, p.CA, p.Root))
				vsched.Drain()
				touched := append([]vos.Touch{}, vos.Touched...)
				vos.LogTouches = false
				for _, t := range touched {
					pth := t.Path
					if !filepath.IsAbs(pth) {
						pth, _ = filepath.Abs(pth)
					}
					if pth != dir && !strings.HasPrefix(pth, dir+"/") {
						chk.Violation("C20|path-outside-work_dir|"+t.Kind+"|"+sig, fmt.Sprintf("%s: %s touches %q outside the work_dir %q", sig, t.Kind, t.Path, dir), nil)
					}
				}
				if ents, _ := os.ReadDir(systmp); len(ents) > 0 {
					chk.Violation("C20|system-temp-directory-used|"+sig, fmt.Sprintf("%s: %d entries appeared in the system temp directory (first: %s)", sig, len(ents), ents[0].Name()), nil)
				}
				w.Chk.Cleanup()
				vsched.Drain()
			})
			if res.Verdict != vsched.OK {
				chk.Violation("C20|cycle-"+res.Verdict.String()+"|"+sig, firstLines(res.Detail, 5), nil)
			}
		}
	}
	return n
}

// c20Foreign: startup sweep with foreign entries in the work_dir.
func c20Foreign(chk *fw.Check) int {
	p := world.Std()
	n := 0
	doc := world.SimpleCRL(p.CA, 1, 901).DER()
	foreign := map[string]bool{ // name -> is directory
		"crl_tmp": false, "xcrl_1_tmp": false, "crl_1_tmpx": false, "notes.txt": false, "crl_1_tmp.bak": true,
		strings.Repeat("ab", 32): true, "CRL_1_TMP": false, "sub": true,
	}
	// the work_dir itself may carry characters which mean something to pattern matching (glob, regexp)
	// ... it may itself be named like a temporary artefact, and the configured path may be a symbolic link to the directory
	for _, wdName := range []string{"", "crl[1]", "a*b?c", "re(x)+.$", "back\\slash", "crl_work_tmp", "->symlink"} {
		for _, disk := range []bool{false, true} {
			n++
			wdName := wdName
			seqWorld(func() {
				parent := FreshDir("c20s")
				defer os.RemoveAll(parent)
				dir := parent
				cfgDir := ""
				if wdName == "->symlink" {
					dir = filepath.Join(parent, "real")
					os.MkdirAll(dir, 0755)
					cfgDir = filepath.Join(parent, "link")
					if err := os.Symlink(dir, cfgDir); err != nil {
						panic(err)
					}
				} else if wdName != "" {
					dir = filepath.Join(parent, wdName)
					os.MkdirAll(dir, 0755)
				}
				if cfgDir == "" {
					cfgDir = dir
				}
				for name, isDir := range foreign {
					if isDir {
						os.MkdirAll(filepath.Join(dir, name), 0755)
						os.WriteFile(filepath.Join(dir, name, "crl_inner_tmp"), []byte("inner"), 0644)
					} else {
						os.WriteFile(filepath.Join(dir, name), []byte("foreign"), 0644)
					}
				}
				// genuine left-overs that must go
				os.WriteFile(filepath.Join(dir, "crl_123_tmp"), []byte("x"), 0644)
				os.MkdirAll(filepath.Join(dir, "crl_abc_tmp", "deep"), 0755)
				os.WriteFile(filepath.Join(dir, "crl_abc_tmp", "deep", "f"), []byte("x"), 0644)
				before := treeSnapshot(dir, "")
				w := NewCW(CWOpt{Disk: disk, SigMode: config.SignatureValidationModeVerify, Dir: cfgDir})
				w.Net.Serve(urlA, "doc", doc)
				if wdName == "crl[1]" {
					// this start fails later on: a configured crl_url is unreachable. The cleaning is part of every start
					w = NewCW(CWOpt{Disk: disk, SigMode: config.SignatureValidationModeVerify, Dir: cfgDir, URLs: []string{urlB}})
					w.Net.Down(urlB)
					if err := w.Provision(); err == nil {
						chk.Violation("C20|harness|foreign", "Provision succeeded although the configured crl_url is down", nil)
						return
					}
				} else if err := w.Provision(); err != nil {
					chk.Violation("C20|provision-fails|foreign", err.Error(), nil)
					return
				}
				vsched.Drain()
				after := treeSnapshot(dir, "")
				for _, d := range treeDiff(before, after) {
					name := strings.SplitN(d, ":", 2)[1]
					top := strings.Split(name, "/")[0]
					if top == "crl_123_tmp" || top == "crl_abc_tmp" {
						continue
					}
					if strings.HasPrefix(d, "created:") && len(top) == 64 && strings.Trim(top, "0123456789abcdef") == "" {
						continue // the store directory of the configured crl_url (the start which fails later)
					}
					chk.Violation("C20|foreign-entry-touched|"+top, fmt.Sprintf("%s backend: startup cleaning %s (does not match crl_*_tmp)", be(disk), d), nil)
				}
				wd := ""
				if wdName != "" {
					wd = "|work_dir-name=" + wdName
				}
				for _, left := range []string{"crl_123_tmp", "crl_abc_tmp"} {
					if _, ok := after[left]; ok {
						chk.Violation("C20|leftover-temp-not-removed|"+left+wd, fmt.Sprintf("%s backend, work_dir %q: %s survives startup cleaning", be(disk), filepath.Base(dir), left), nil)
					}
				}
				w.Chk.Cleanup()
			})
		}
	}
	return n
}

// c20Histories: load / refresh histories with accepted and rejected documents (the C11 event alphabet); after every
// completed event no temporary artefact may remain in the work_dir and a location the reference holds as loaded
// (disk) must still have its store directory.
func c20Histories(chk *fw.Check, tier string) fw.HStats {
	c := newC11Cast()
	depth := 4
	if tier == "thorough" {
		depth = 6
	}
	total := fw.HStats{}
	for _, cfg := range []c11Cfg{{false, true}, {true, true}, {false, false}} {
		cfg := cfg
		st := fw.BFS(len(c11Events), depth, 0, time.Now().Add(20*time.Minute), func(hist []int) (string, bool) {
			var residue []string
			c11AfterEvent = func(dir, event string) {
				_, tmps, other := ListDir(dir)
				if len(tmps) > 0 || len(other) > 0 {
					residue = append(residue, fmt.Sprintf("after %s: %v %v", event, tmps, other))
				}
			}
			r := c.run(cfg, hist)
			c11AfterEvent = nil
			if r.key == "" && len(residue) == 0 {
				return "", false
			}
			if len(residue) > 0 {
				names := make([]string, len(hist))
				for k, e := range hist {
					names[k] = c11Events[e]
				}
				last := names[len(names)-1]
				prev := ""
				for _, n := range names {
					if strings.HasPrefix(n, "set(") {
						prev = n
					}
				}
				chk.Violation("C20|temp-residue-after-event|"+last+"|served="+prev+"|"+cfg.String(),
					fmt.Sprintf("[%s] temporary or stray artefacts remain in the work_dir: %v; history %v", cfg, residue, names), map[string]interface{}{"driver": "C20", "history": hist, "events": names})
				return "residue" + fmt.Sprint(hist), false
			}
			return r.key, true
		})
		total.States += st.States
		total.Transitions += st.Transitions
	}
	return total
}

// RunC20 is the entry point of the C20 check.
func RunC20(tier string, args []string) int {
	if len(args) > 0 && args[0] == "worker" {
		sc := findC20Scenario(args[1])
		atoi := func(s string) int { n, _ := strconv.Atoi(s); return n }
		out := exploreShardCustom(sc, "C20", atoi(args[2]), atoi(args[3]), time.Unix(int64(atoi(args[4])), 0), atoi(args[5]), atoi(args[6]), nil)
		b, _ := json.Marshal(out)
		fmt.Println(string(b))
		return 0
	}
	chk := fw.NewCheck("C20", tier, "exploration")
	chk.Assumptions = []string{
		"sandbox = parent directory holding the work_dir, a sibling directory and canary files; the tree outside the work_dir is snapshotted (names, sizes, digests) before and after every case; every path passed to the os shim is logged",
		"location alphabet: 20 hostile URL shapes alone and as ordered CDP pairs, both backends; life cycle: k = 1..5 Provision/Cleanup cycles x backend x with/without configured CRLs under the virtual clock; startup sweep with 8 foreign names around the temp pattern",
		"foreign entries that DO match crl_*_tmp are not judged",
	}
	evals, ids := c20LocationPart(chk, tier)
	cycles := c20Lifecycle(chk) + c20Special(chk)
	foreign := c20Foreign(chk)
	hst := c20Histories(chk, tier)
	// all interleavings of a handshake with Cleanup (disk): what is left open afterwards, and the next cycle
	bound, maxExec, perScenario, nshards := 1, 200000, 100*time.Second, 16
	if tier == "thorough" {
		bound, maxExec, perScenario, nshards = 3, 5000000, 15*time.Minute, 32
	}
	var schedReports []schedReport
	schedExecs := 0
	schedExhaustive := true
	for _, sc := range c20Scenarios() {
		outs := runWorkers("C20", sc.Name, bound, maxExec/nshards+1, time.Now().Add(perScenario), nshards)
		rep := mergeWorkerOuts(chk, sc.Name, outs)
		schedReports = append(schedReports, rep)
		schedExecs += rep.Executions
		if rep.Capped {
			schedExhaustive = false
		}
		fmt.Printf("  S %-40s execs=%d per-bound=%v outcomes=%v capped=%v\n", sc.Name, rep.Executions, rep.PerBound, rep.Outcomes, rep.Capped)
	}
	cov := fw.Coverage{
		"schedule_executions":                    schedExecs,
		"schedule_scenarios":                     schedReports,
		"schedule_preemption_bound":              bound,
		"schedule_exploration_complete_to_bound": schedExhaustive,
		"history_states":                         hst.States,
		"history_transitions":                    hst.Transitions,
		"evaluations":                            evals + cycles + foreign + hst.Transitions,
		"distinct_nontrivial":                    len(ids) + cycles + foreign,
		"rule":                                   "location cases (string or ordered pair, x backend) + life-cycle configurations + startup-sweep cases; distinct = distinct store identifiers observed for the location cases (each location case is non-trivial: a CRL is fetched, stored, refreshed and looked up)",
		"location_cases":                         evals,
		"distinct_store_ids":                     len(ids),
		"lifecycle_cases":                        cycles,
		"startup_sweep_cases":                    foreign,
		"samples":                                []string{"http://crl.test/../../../../x/../../etc/cron.d/evil", "[http://crl.test/a%2Fb%2F..%2F..%2Fc.crl, http://crl.test/ünï/名前.crl]", "5 provision/cleanup cycles, disk, configured crl_url"},
		"exhaustive":                             true,
	}
	return chk.Finish(cov)
}

// c20Scenarios: a handshake and Cleanup at the same time (what a configuration reload under traffic produces), every
// interleaving, file and database operations being scheduling points. Whatever the order: once both are through no
// database of the work_dir is open, nothing of the validator runs any more, and the next Provision on the same work_dir
// gets a validator which answers from what is stored there.
func c20Scenarios() []*schedScenario {
	p := world.Std()
	v1 := world.SimpleCRL(p.CA, 1, 901).DER()
	listed := world.Leaf(p.CA, bi(901), []string{urlA}, nil)
	chain := world.Chain(listed, p.CA, p.Root)
	base := CWOpt{Disk: true, SigMode: config.SignatureValidationModeVerify, Interval: "10m"}
	hs := schedOp{Name: "hs(listed)", Fn: func(x *schedCtx) string { return x.W[0].Lookup(listed, chain).String() }}
	post := func(x *schedCtx) string {
		vsched.Drain()
		open := len(vleveldb.OpenPaths())
		live, _ := vsched.Live()
		_, tmps, other := ListDir(x.W[0].Dir)
		o := base
		o.Dir, o.Net = x.W[0].Dir, x.W[0].Net
		w2 := NewCW(o)
		x.W = append(x.W, w2)
		cycle := ""
		if err := w2.Provision(); err != nil {
			cycle = "provision-fails"
		} else {
			vsched.Drain()
			cycle = w2.Lookup(listed, chain).String()
			w2.Chk.Cleanup()
			vsched.Drain()
		}
		return fmt.Sprintf("open-databases=%d live=%d residue=%d next-cycle=%s", open, live, len(tmps)+len(other), cycle)
	}
	judge := func(obs []string) (string, string) {
		last := obs[len(obs)-1]
		if !strings.HasPrefix(last, "open-databases=0 ") {
			return "C20|database-handle-open-after-cleanup|backend=disk handshake-during-cleanup", "a handshake which ran while Cleanup did left a database of the work_dir open: " + last
		}
		if last != "open-databases=0 live=0 residue=0 next-cycle=REVOKED" {
			return "C20|cycle-after-handshake-during-cleanup|backend=disk", "after a handshake which ran while Cleanup did: " + last + " (expected nothing open, nothing running, nothing left behind, and the next validator on the work_dir rejecting the listed certificate)"
		}
		return "", ""
	}
	cfg := vsched.Config{EffectsArePoints: true}
	return []*schedScenario{
		{Name: "k1-known-list-handshake-vs-cleanup/disk", Cfg: cfg, NoSerialOracle: true,
			Setup: func(x *schedCtx) {
				w := NewCW(base)
				x.W = append(x.W, w)
				if err := w.Provision(); err != nil {
					panic(err)
				}
				vsched.Drain()
				w.Net.Serve(urlA, "v1", v1)
				w.Lookup(listed, chain)
				vsched.Drain()
			},
			Ops: []schedOp{hs, cleanupOp(0)}, Post: post, Judge: judge},
		{Name: "k2-first-use-handshake-vs-cleanup/disk", Cfg: cfg, NoSerialOracle: true,
			Setup: func(x *schedCtx) {
				w := NewCW(base)
				x.W = append(x.W, w)
				if err := w.Provision(); err != nil {
					panic(err)
				}
				vsched.Drain()
				w.Net.Serve(urlA, "v1", v1)
			},
			Ops: []schedOp{hs, cleanupOp(0)}, Post: post, Judge: judge},
	}
}

func findC20Scenario(name string) *schedScenario {
	for _, sc := range c20Scenarios() {
		if sc.Name == name {
			return sc
		}
	}
	return nil
}

func init() { registry["C20"] = RunC20 }
