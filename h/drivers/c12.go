package drivers

import (
	"encoding/json"
	"fmt"
	"os"
	"os/exec"
	"path/filepath"
	"sort"
	"strconv"
	"strings"
	"sync"
	"syscall"

	"github.com/gr33nbl00d/caddy-revocation-validator/config"

	"verif/h/fw"
	"verif/h/rt/vsched"
	"verif/h/world"
)

// C12: crash consistency of disk storage. Every effect point (vos / vleveldb
// call, before and - for renames and removals - after the effect) of a short
// history is a crash point: a child process runs the history and SIGKILLs
// itself there; a second child restarts over the crashed work_dir.

type c12Cast struct {
	p      *world.PKI
	probes []*world.Ident
	v      map[string][]byte
	lists  map[string][]int64
}

var c12Serials = []int64{101, 105, 106, 102, 107, 109}

func newC12Cast() *c12Cast {
	p := world.Std()
	c := &c12Cast{p: p, v: map[string][]byte{}, lists: map[string][]int64{}}
	for _, s := range c12Serials {
		c.probes = append(c.probes, world.Leaf(p.CA, bi(s), []string{urlA}, nil))
	}
	c.lists["v1"] = []int64{101, 105, 106}
	c.lists["v2"] = []int64{101, 102, 107}
	c.lists["v3"] = []int64{101, 109}
	for k, l := range c.lists {
		n := int64(k[1] - '0')
		c.v[k] = world.SimpleCRL(p.CA, n, l...).DER()
	}
	bad := world.SimpleCRL(p.CA, 2, c.lists["v2"]...)
	bad.BadSig = true
	c.v["v2bad"] = bad.DER()
	c.v["v2trunc"] = c.v["v2"][:len(c.v["v2"])-25]
	return c
}

func (c *c12Cast) vector(list string) string {
	var out []string
	for _, s := range c12Serials {
		r := "OK"
		for _, x := range c.lists[list] {
			if x == s {
				r = "REVOKED"
			}
		}
		out = append(out, r)
	}
	return strings.Join(out, ",")
}

// histories: steps are "serve:<doc>", "hs" (handshake = first use / lookup), "refresh", "down"
var c12Histories = map[string][]string{
	"first-load-accepted":   {"serve:v1", "hs"},
	"first-load-rejected":   {"serve:v2bad", "hs"},
	"first-load-truncated":  {"serve:v2trunc", "hs"},
	"refresh-accepted":      {"serve:v1", "hs", "serve:v2", "refresh"},
	"refresh-rejected":      {"serve:v1", "hs", "serve:v2bad", "refresh"},
	"refresh-fetch-failure": {"serve:v1", "hs", "down", "refresh"},
	"two-refreshes":         {"serve:v1", "hs", "serve:v2", "refresh", "serve:v3", "refresh"},
}

// acceptedAt returns, for a history, the lists that may legitimately be in force after a crash anywhere in it
// (any list that is complete and acceptable at some point of the history).
func c12Allowed(hist string) []string {
	switch hist {
	case "first-load-accepted":
		return []string{"v1"}
	case "first-load-rejected", "first-load-truncated":
		return nil
	case "refresh-accepted":
		return []string{"v1", "v2"}
	case "refresh-rejected", "refresh-fetch-failure":
		return []string{"v1"}
	case "two-refreshes":
		return []string{"v1", "v2", "v3"}
	}
	return nil
}

// c12Child runs the history and kills itself at effect point dieAt (0 = count only).
func c12Child(hist, dir string, dieAt int) int {
	c := newC12Cast()
	count := 0
	seqWorld(func() {
		vsched.EffectHook = func(kind, arg string) error {
			count++
			if dieAt > 0 && count == dieAt {
				syscall.Kill(os.Getpid(), syscall.SIGKILL)
				select {}
			}
			return nil
		}
		w := NewCW(CWOpt{Disk: true, SigMode: config.SignatureValidationModeVerify, Strict: true, Dir: dir})
		if err := w.Provision(); err != nil {
			panic(err)
		}
		vsched.Drain()
		for _, st := range c12Histories[hist] {
			switch {
			case strings.HasPrefix(st, "serve:"):
				w.Net.Serve(urlA, st, c.v[strings.TrimPrefix(st, "serve:")])
			case st == "down":
				w.Net.Down(urlA)
			case st == "hs":
				w.Lookup(c.probes[0], world.Chain(c.probes[0], c.p.CA, c.p.Root))
			case st == "refresh":
				w.Chk.VerifUpdateCRLs(true)
				vsched.Drain()
			}
		}
		vsched.EffectHook = nil
		// no Cleanup: the counting run ends like a crash after the last effect as well
	})
	fmt.Printf("EFFECTS %d\n", count)
	return 0
}

type c12Restart struct {
	ProvisionErr string   `json:"provision_err"`
	Vector       string   `json:"vector"`
	TmpAfter     []string `json:"tmp_after_provision"`
	OtherAfter   []string `json:"other_after_provision"`
	IDsBefore    []string `json:"ids_before"`
	IDsAfter     []string `json:"ids_after"`
	Panic        string   `json:"panic"`
}

// c12RestartChild: fresh validator over the crashed work_dir, origin down, strict on.
func c12RestartChild(dir string) int {
	c := newC12Cast()
	var r c12Restart
	r.IDsBefore, _, _ = ListDir(dir)
	res := seqWorld(func() {
		w := NewCW(CWOpt{Disk: true, SigMode: config.SignatureValidationModeVerify, Strict: true, Dir: dir})
		w.Net.Down(urlA)
		if err := w.Provision(); err != nil {
			r.ProvisionErr = err.Error()
			return
		}
		vsched.Drain()
		r.IDsAfter, r.TmpAfter, r.OtherAfter = ListDir(dir)
		var out []string
		for _, pr := range c.probes {
			out = append(out, w.Lookup(pr, world.Chain(pr, c.p.CA, c.p.Root)).String())
		}
		r.Vector = strings.Join(out, ",")
		w.Chk.Cleanup()
	})
	if res.Verdict != vsched.OK {
		r.Panic = res.Verdict.String() + ": " + firstLines(res.Detail, 4)
	}
	b, _ := json.Marshal(r)
	fmt.Println("RESTART " + string(b))
	return 0
}

func c12Exec(args ...string) (string, error) {
	cmd := exec.Command(os.Args[0], append([]string{"C12", "--tier", "worker", "--"}, args...)...)
	cmd.Env = append(os.Environ(), "GOMAXPROCS=2")
	b, err := cmd.Output()
	return string(b), err
}

// RunC12 is the entry point of the C12 check.
func RunC12(tier string, args []string) int {
	if len(args) > 0 && args[0] == "child" {
		k, _ := strconv.Atoi(args[3])
		return c12Child(args[1], args[2], k)
	}
	if len(args) > 0 && args[0] == "restart" {
		return c12RestartChild(args[1])
	}
	chk := fw.NewCheck("C12", tier, "fault_enumeration")
	chk.Assumptions = []string{
		"crash model = process death (SIGKILL of a child process at the effect point): every completed write is in the image, nothing unsynced is dropped (the property speaks of the process dying, not of power loss)",
		"crash points = every call of the os / leveldb shims made by the history (create temp, open for write, each Put/Get/Has, close, mkdir, rename, removeall, remove, open database) counted once before the effect and, for rename / removeall, once more after it",
		"restart = second child process: fresh validator over the crashed work_dir, same configuration, origin down, crl_cdp_strict on",
	}
	c := newC12Cast()
	hists := []string{"first-load-accepted", "first-load-rejected", "refresh-accepted", "refresh-rejected"}
	if tier == "thorough" {
		hists = []string{"first-load-accepted", "first-load-rejected", "first-load-truncated", "refresh-accepted", "refresh-rejected", "refresh-fetch-failure", "two-refreshes"}
	}
	type job struct {
		hist string
		k    int
	}
	var jobs []job
	points := map[string]int{}
	for _, h := range hists {
		dir := FreshDir("c12n")
		out, err := c12Exec("child", h, dir, "0")
		os.RemoveAll(dir)
		n := 0
		for _, l := range strings.Split(out, "\n") {
			if strings.HasPrefix(l, "EFFECTS ") {
				n, _ = strconv.Atoi(strings.TrimPrefix(l, "EFFECTS "))
			}
		}
		if err != nil || n == 0 {
			fmt.Fprintf(os.Stderr, "harness error: counting run of %s failed: %v %s\n", h, err, out)
			return 2
		}
		points[h] = n
		for k := 1; k <= n; k++ {
			jobs = append(jobs, job{h, k})
		}
	}
	type result struct {
		job job
		r   c12Restart
		err string
	}
	results := make([]result, len(jobs))
	var wg sync.WaitGroup
	sem := make(chan struct{}, 16)
	for i, j := range jobs {
		wg.Add(1)
		go func(i int, j job) {
			defer wg.Done()
			sem <- struct{}{}
			defer func() { <-sem }()
			dir := filepath.Join(Scratch(), fmt.Sprintf("c12-%s-%d", j.hist, j.k))
			os.RemoveAll(dir)
			os.MkdirAll(dir, 0755)
			defer os.RemoveAll(dir)
			_, err := c12Exec("child", j.hist, dir, fmt.Sprint(j.k))
			if err == nil {
				results[i] = result{job: j, err: "child did not die at its crash point"}
				return
			}
			out, err := c12Exec("restart", dir)
			if err != nil {
				results[i] = result{job: j, err: "restart child failed: " + err.Error() + " " + out}
				return
			}
			for _, l := range strings.Split(out, "\n") {
				if strings.HasPrefix(l, "RESTART ") {
					var r c12Restart
					json.Unmarshal([]byte(strings.TrimPrefix(l, "RESTART ")), &r)
					results[i] = result{job: j, r: r}
					return
				}
			}
			results[i] = result{job: j, err: "restart child printed no result: " + out}
		}(i, j)
	}
	wg.Wait()
	outcomes := fw.NewDistinct()
	nontrivial := 0
	var samples []string
	allERR := strings.TrimSuffix(strings.Repeat("ERR,", len(c12Serials)), ",")
	for _, res := range results {
		j := res.job
		rep := map[string]interface{}{"driver": "C12", "history": j.hist, "crash_point": j.k}
		if res.err != "" {
			fmt.Fprintf(os.Stderr, "harness error: %s crash point %d: %s\n", j.hist, j.k, res.err)
			return 2
		}
		r := res.r
		outcomes.Add(j.hist + " => " + r.Vector)
		if r.Vector != allERR {
			nontrivial++
		}
		if len(samples) < 4 && j.k%17 == 0 {
			samples = append(samples, fmt.Sprintf("%s crash@%d => %s tmp=%v", j.hist, j.k, r.Vector, r.TmpAfter))
		}
		switch {
		case r.Panic != "":
			chk.Violation("C12|restart-panic|"+j.hist, fmt.Sprintf("restart after a crash at point %d of %s: %s", j.k, j.hist, r.Panic), rep)
			continue
		case r.ProvisionErr != "":
			chk.Violation("C12|restart-provision-fails|"+j.hist, fmt.Sprintf("Provision fails on the image of a crash at point %d of %s: %s", j.k, j.hist, r.ProvisionErr), rep)
			continue
		}
		if r.Vector != allERR {
			ok := false
			for _, l := range c12Allowed(j.hist) {
				if r.Vector == c.vector(l) {
					ok = true
				}
			}
			if !ok {
				var al []string
				for _, l := range c12Allowed(j.hist) {
					al = append(al, l+"="+c.vector(l))
				}
				chk.Violation("C12|loaded-data-not-a-complete-accepted-crl|"+j.hist,
					fmt.Sprintf("after a crash at effect point %d of history %s the restarted validator treats the location as loaded with verdicts [%s] for serials %v; allowed: not loaded, or %v", j.k, j.hist, r.Vector, c12Serials, al), rep)
			}
		}
		if len(r.OtherAfter) > 0 {
			chk.Violation("C12|stray-entries-survive-startup|"+j.hist, fmt.Sprintf("crash at point %d of %s: work_dir entries %v (neither a store directory nor matched by the startup sweep) remain after Provision", j.k, j.hist, r.OtherAfter), rep)
		}
		if len(r.TmpAfter) > 0 {
			chk.Violation("C12|temp-artefacts-survive-startup|"+j.hist, fmt.Sprintf("crash at point %d of %s: temporary artefacts %v remain after Provision", j.k, j.hist, r.TmpAfter), rep)
		}
		for _, id := range r.IDsBefore {
			found := false
			for _, a := range r.IDsAfter {
				if a == id {
					found = true
				}
			}
			if !found {
				chk.Violation("C12|live-store-deleted-at-startup|"+j.hist, fmt.Sprintf("crash at point %d of %s: store directory %s was removed by startup cleaning", j.k, j.hist, id), rep)
			}
		}
	}
	var ps []string
	for h, n := range points {
		ps = append(ps, fmt.Sprintf("%s:%d", h, n))
	}
	sort.Strings(ps)
	cov := fw.Coverage{
		"evaluations":              len(jobs),
		"distinct_nontrivial":      nontrivial,
		"rule":                     "one evaluation per (history, crash point); crash points are all effect points of the history; non-trivial = the restarted validator treats the location as loaded (so the on-disk data is actually consulted)",
		"crash_points_per_history": ps,
		"distinct_outcomes":        outcomes.Counts(),
		"samples":                  samples,
		"exhaustive":               true,
	}
	return chk.Finish(cov)
}

func init() { registry["C12"] = RunC12 }
