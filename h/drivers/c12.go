package drivers

import (
	"encoding/json"
	"fmt"
	"net/http"
	"os"
	"os/exec"
	"path/filepath"
	"sort"
	"strconv"
	"strings"
	"sync"
	"syscall"
	"time"

	"github.com/gr33nbl00d/caddy-revocation-validator/config"

	"verif/h/fw"
	"verif/h/rt/vsched"
	"verif/h/world"
)

// C12: crash consistency of disk storage. Every effect point (vos / vleveldb
// call, before and - for renames and removals - after the effect) of a short
// history is a crash point: a child process runs the history and SIGKILLs
// itself there; a second child restarts over the crashed work_dir.

type c12Cast struct {
	p      *world.PKI
	probes []*world.Ident
	v      map[string][]byte
	lists  map[string][]int64
}

var c12Serials = []int64{101, 105, 106, 102, 107, 109}

const c12BigBase, c12BigExtra = int64(200000), 1097

func newC12Cast() *c12Cast {
	p := world.Std()
	c := &c12Cast{p: p, v: map[string][]byte{}, lists: map[string][]int64{}}
	for _, s := range c12Serials {
		c.probes = append(c.probes, world.Leaf(p.CA, bi(s), []string{urlA}, nil))
	}
	c.lists["v1"] = []int64{101, 105, 106}
	c.lists["v2"] = []int64{101, 102, 107}
	c.lists["v3"] = []int64{101, 109}
	for k, l := range c.lists {
		n := int64(k[1] - '0')
		c.v[k] = world.SimpleCRL(p.CA, n, l...).DER()
	}
	// a list of 1100 entries: v1's three and 1097 more (whatever an implementation does in portions of a round number
	// of records happens more than once)
	c.lists["vbig"] = append([]int64{}, c.lists["v1"]...)
	for i := 0; i < c12BigExtra; i++ {
		c.lists["vbig"] = append(c.lists["vbig"], c12BigBase+int64(i))
	}
	c.v["vbig"] = world.SimpleCRL(p.CA, 1, c.lists["vbig"]...).DER()
	bad := world.SimpleCRL(p.CA, 2, c.lists["v2"]...)
	bad.BadSig = true
	c.v["v2bad"] = bad.DER()
	c.v["v2trunc"] = c.v["v2"][:len(c.v["v2"])-25]
	return c
}

func (c *c12Cast) vector(list string) string {
	var out []string
	for _, s := range c12Serials {
		r := "OK"
		for _, x := range c.lists[list] {
			if x == s {
				r = "REVOKED"
			}
		}
		out = append(out, r)
	}
	return strings.Join(out, ",")
}

// histories: steps are "serve:<doc>", "hs" (handshake = first use / lookup), "refresh", "down"
var c12Histories = map[string][]string{
	"first-load-accepted": {"serve:v1", "hs"},
	// the same with a list of 1100 entries; after the restart every single entry is asked for
	"first-load-accepted-1100-entries": {"serve:vbig", "hs"},
	"first-load-rejected":              {"serve:v2bad", "hs"},
	"first-load-truncated":             {"serve:v2trunc", "hs"},
	"refresh-accepted":                 {"serve:v1", "hs", "serve:v2", "refresh"},
	"refresh-rejected":                 {"serve:v1", "hs", "serve:v2bad", "refresh"},
	"refresh-fetch-failure":            {"serve:v1", "hs", "down", "refresh"},
	"two-refreshes":                    {"serve:v1", "hs", "serve:v2", "refresh", "serve:v3", "refresh"},
	// a rejected refresh followed by an accepted one
	"refresh-rejected-then-accepted": {"serve:v1", "hs", "serve:v2bad", "refresh", "serve:v3", "refresh"},
	// a second distribution point is loaded and refreshed next to the first one
	"second-location": {"serve:v1", "hs", "serveB", "hsB", "serve:v2", "refresh"},
}

// acceptedAt returns, for a history, the lists that may legitimately be in force after a crash anywhere in it
// (any list that is complete and acceptable at some point of the history).
func c12Allowed(hist string) []string {
	switch hist {
	case "first-load-accepted":
		return []string{"v1"}
	case "first-load-accepted-1100-entries":
		return []string{"vbig"}
	case "first-load-rejected", "first-load-truncated":
		return nil
	case "refresh-accepted":
		return []string{"v1", "v2"}
	case "refresh-rejected", "refresh-fetch-failure":
		return []string{"v1"}
	case "two-refreshes":
		return []string{"v1", "v2", "v3"}
	case "refresh-rejected-then-accepted":
		return []string{"v1", "v3"}
	case "second-location":
		return []string{"v1", "v2"}
	}
	return nil
}

// c12Child runs the history and kills itself at effect point dieAt (0 = count only).
func c12Child(hist, dir string, dieAt int) int {
	return c12ChildMode(hist, dir, dieAt, false)
}

// c12ChildMode with samePid: at the crash point the process image is replaced by the restarting validator (execve: no
// deferred function runs, every descriptor is closed, all locks are gone - what is left of the process is its id).
// This is how a server restarts which is the init process of its container: the new process has the id of the dead one.
func c12ChildMode(hist, dir string, dieAt int, samePid bool) int {
	c := newC12Cast()
	count := 0
	seqWorld(func() {
		vsched.EffectHook = func(kind, arg string) error {
			count++
			if dieAt > 0 && count == dieAt {
				if samePid {
					err := syscall.Exec(os.Args[0], []string{os.Args[0], "C12", "--tier", "worker", "--", "restart", dir, "0"}, os.Environ())
					fmt.Println("EXEC-FAILED", err)
				}
				syscall.Kill(os.Getpid(), syscall.SIGKILL)
				select {}
			}
			return nil
		}
		w := NewCW(CWOpt{Disk: true, SigMode: config.SignatureValidationModeVerify, Strict: true, Dir: dir})
		if err := w.Provision(); err != nil {
			panic(err)
		}
		vsched.Drain()
		for _, st := range c12Histories[hist] {
			switch {
			case strings.HasPrefix(st, "serve:"):
				w.Net.Serve(urlA, st, c.v[strings.TrimPrefix(st, "serve:")])
			case st == "down":
				w.Net.Down(urlA)
			case st == "serveB":
				w.Net.Serve(urlB, "vb", world.SimpleCRL(c.p.CA, 1, 900).DER())
			case st == "hsB":
				lb := world.Leaf(c.p.CA, bi(901), []string{urlB}, nil)
				w.Lookup(lb, world.Chain(lb, c.p.CA, c.p.Root))
			case st == "hs":
				w.Lookup(c.probes[0], world.Chain(c.probes[0], c.p.CA, c.p.Root))
			case st == "refresh":
				w.Chk.VerifUpdateCRLs(true)
				vsched.Drain()
			}
		}
		vsched.EffectHook = nil
		// no Cleanup: the counting run ends like a crash after the last effect as well
	})
	fmt.Printf("EFFECTS %d\n", count)
	return 0
}

type c12Restart struct {
	ProvisionErr string   `json:"provision_err"`
	Vector       string   `json:"vector"`
	TmpAfter     []string `json:"tmp_after_provision"`
	OtherAfter   []string `json:"other_after_provision"`
	IDsBefore    []string `json:"ids_before"`
	IDsAfter     []string `json:"ids_after"`
	Panic        string   `json:"panic"`
	// StartupEffects is the number of effect points Provision went through (the crash points of a crash during recovery)
	StartupEffects int `json:"startup_effects"`
	// BigRevoked: how many of the 1097 further serials of the 1100-entry list are answered "revoked" (asked only where the location counts as loaded)
	BigRevoked int `json:"big_revoked"`
	// Vector2: the verdicts after the origin came back with list v3 and one refresh + handshake took place (second phase
	// of the restart): whatever the crashed run left, the next accepted load puts exactly that list in force
	Vector2 string `json:"vector_after_next_load"`
	// Busy: the work_dir was provisioned while the other instance of the process was in the middle of a CRL update
	Busy bool `json:"busy"`
}

// c12RestartChild: fresh validator over the crashed work_dir, origin down, strict on.
// With dieAt > 0 the restarting process itself dies at its dieAt-th effect point during Provision (crash during recovery).
func c12RestartChild(dir string, dieAt int, busy bool) int {
	c := newC12Cast()
	var r c12Restart
	r.Busy = busy
	r.IDsBefore, _, _ = ListDir(dir)
	count := 0
	res := seqWorld(func() {
		vsched.EffectHook = func(kind, arg string) error {
			count++
			if dieAt > 0 && count == dieAt {
				syscall.Kill(os.Getpid(), syscall.SIGKILL)
				select {}
			}
			return nil
		}
		// the restarted process hosts another validator instance (own, empty work_dir) which is provisioned first:
		// startup cleaning is per work_dir, not once per process
		other := NewCW(CWOpt{Disk: true, SigMode: config.SignatureValidationModeVerify, Background: busy})
		defer os.RemoveAll(other.Dir)
		if err := other.Provision(); err != nil {
			vsched.EffectHook = nil
			r.ProvisionErr = "other instance: " + err.Error()
			return
		}
		vsched.Drain()
		defer other.Chk.Cleanup()
		w := NewCW(CWOpt{Disk: true, SigMode: config.SignatureValidationModeVerify, Strict: true, Dir: dir, Net: other.Net})
		w.Net.Down(urlA)
		w.Net.Down(urlB)
		// the restart follows the crash at once: by the validator's clock everything in the work_dir was last touched a
		// second ago (the crashed process ran under the same virtual clock, the file system stamped with the real one)
		justNow := vsched.Now().Add(-time.Second)
		filepath.Walk(dir, func(p string, info os.FileInfo, err error) error {
			if err == nil {
				os.Chtimes(p, justNow, justNow)
			}
			return nil
		})
		var perr error
		provision := func() { perr = w.Provision() }
		if busy {
			// ... and is in the middle of a CRL update (the first fetch of a distribution point it has just learned of,
			// started in the background) at the moment the crashed work_dir is provisioned: the origin's answer takes
			// that long
			urlC := "http://crl.test/other-instance.crl"
			done := false
			w.Net.Routes[urlC] = &world.Behaviour{Label: "slow", Fn: func(req *http.Request, body []byte) (int, []byte, error) {
				if !done {
					done = true
					provision()
				}
				return 200, world.SimpleCRL(c.p.CA, 1, 900).DER(), nil
			}}
			lc := world.Leaf(c.p.CA, bi(902), []string{urlC}, nil)
			other.Lookup(lc, world.Chain(lc, c.p.CA, c.p.Root))
			vsched.Drain()
			if !done {
				vsched.EffectHook = nil
				r.ProvisionErr = "harness: the other instance never fetched its CRL"
				return
			}
		} else {
			provision()
		}
		if perr != nil {
			vsched.EffectHook = nil
			r.ProvisionErr = perr.Error()
			return
		}
		vsched.Drain()
		vsched.EffectHook = nil
		r.StartupEffects = count
		r.IDsAfter, r.TmpAfter, r.OtherAfter = ListDir(dir)
		if ents, err := os.ReadDir(os.TempDir()); err == nil {
			for _, e := range ents {
				if strings.HasPrefix(e.Name(), "crl_") && strings.HasSuffix(e.Name(), "_tmp") {
					r.TmpAfter = append(r.TmpAfter, "$TMPDIR/"+e.Name())
				}
			}
		}
		var out []string
		for _, pr := range c.probes {
			out = append(out, w.Lookup(pr, world.Chain(pr, c.p.CA, c.p.Root)).String())
		}
		r.Vector = strings.Join(out, ",")
		bigAsked := !strings.Contains(r.Vector, "ERR")
		if bigAsked {
			for i := 0; i < c12BigExtra; i++ {
				pr := world.Leaf(c.p.CA, bi(c12BigBase+int64(i)), []string{urlA}, nil)
				if w.Lookup(pr, world.Chain(pr, c.p.CA, c.p.Root)).Revoked {
					r.BigRevoked++
				}
			}
		}
		// second phase: the origin is back and serves list v3
		w.Net.Serve(urlA, "v3", c.v["v3"])
		w.Lookup(c.probes[0], world.Chain(c.probes[0], c.p.CA, c.p.Root))
		vsched.Drain()
		w.Chk.VerifUpdateCRLs(true)
		vsched.Drain()
		out = nil
		for _, pr := range c.probes {
			out = append(out, w.Lookup(pr, world.Chain(pr, c.p.CA, c.p.Root)).String())
		}
		r.Vector2 = strings.Join(out, ",")
		w.Chk.Cleanup()
	})
	if res.Verdict != vsched.OK {
		r.Panic = res.Verdict.String() + ": " + firstLines(res.Detail, 4)
	}
	b, _ := json.Marshal(r)
	fmt.Println("RESTART " + string(b))
	return 0
}

func c12Exec(args ...string) (string, error) {
	cmd := exec.Command(os.Args[0], append([]string{"C12", "--tier", "worker", "--"}, args...)...)
	cmd.Env = append(os.Environ(), "GOMAXPROCS=2")
	// the crashing run and the restarts over its image share a private system temp directory (what the validator puts
	// there is as much a left-over as what it puts into the work_dir)
	for _, a := range args {
		if strings.HasPrefix(a, Scratch()) {
			base := a
			for _, suffix := range []string{".busy", ".image"} {
				base = strings.TrimSuffix(base, suffix)
			}
			if i := strings.LastIndex(base, ".r"); i > 0 && !strings.Contains(base[i:], "/") {
				base = base[:i]
			}
			td := base + ".systmp"
			os.MkdirAll(td, 0755)
			cmd.Env = append(cmd.Env, "TMPDIR="+td)
			break
		}
	}
	b, err := cmd.Output()
	return string(b), err
}

// RunC12 is the entry point of the C12 check.
func RunC12(tier string, args []string) int {
	if len(args) > 0 && args[0] == "child" {
		k, _ := strconv.Atoi(args[3])
		return c12Child(args[1], args[2], k)
	}
	if len(args) > 0 && args[0] == "child-samepid" {
		k, _ := strconv.Atoi(args[3])
		return c12ChildMode(args[1], args[2], k, true)
	}
	if len(args) > 0 && args[0] == "restart" {
		dieAt := 0
		if len(args) > 2 {
			dieAt, _ = strconv.Atoi(args[2])
		}
		return c12RestartChild(args[1], dieAt, len(args) > 3 && args[3] == "busy")
	}
	chk := fw.NewCheck("C12", tier, "fault_enumeration")
	chk.Assumptions = []string{
		"crash model = process death (SIGKILL of a child process at the effect point): every completed write is in the image, nothing unsynced is dropped (the property speaks of the process dying, not of power loss)",
		"crash points = every call of the os / leveldb shims made by the history (create temp, open for write, each Put/Get/Has, close, mkdir, rename, removeall, remove, open database) counted once before the effect and, for rename / removeall, once more after it",
		"restart = second child process: fresh validator over the crashed work_dir, same configuration, origin down, crl_cdp_strict on; the process hosts another validator instance with its own work_dir, provisioned first - idle, and (second restart of the same image) in the middle of a CRL update",
	}
	c := newC12Cast()
	hists := []string{"first-load-accepted", "first-load-rejected", "refresh-accepted", "refresh-rejected", "first-load-accepted-1100-entries"}
	if tier == "thorough" {
		hists = []string{"first-load-accepted", "first-load-accepted-1100-entries", "first-load-rejected", "first-load-truncated", "refresh-accepted", "refresh-rejected", "refresh-fetch-failure", "two-refreshes", "refresh-rejected-then-accepted", "second-location"}
	}
	// second level: the restarted process dies as well, at every effect point of its Provision (startup sweep, opening
	// the stores), and a third process restarts over that image.
	// (not for the 1100-entry history: its more than a thousand crash points differ from the small history's only in
	// how much of the list has been written, the startup after them goes through the same steps)
	doubleCrash := func(h string) bool { return h != "first-load-accepted-1100-entries" }
	type job struct {
		hist string
		k    int
		j    int // 0: single crash; > 0: the restart dies at its j-th startup effect point; -1: single crash, restart while the other instance is busy
	}
	var jobs []job
	points := map[string]int{}
	completed := map[string]c12Restart{}
	for _, h := range hists {
		dir := FreshDir("c12n")
		out, err := c12Exec("child", h, dir, "0")
		// the run which went through the whole history and then stopped (no crash inside an operation): a restart finds
		// exactly the list the history accepted last
		if err == nil {
			if rout, rerr := c12Exec("restart", dir); rerr == nil {
				for _, l := range strings.Split(rout, "\n") {
					if strings.HasPrefix(l, "RESTART ") {
						var r c12Restart
						json.Unmarshal([]byte(strings.TrimPrefix(l, "RESTART ")), &r)
						completed[h] = r
					}
				}
			}
		}
		os.RemoveAll(dir)
		os.RemoveAll(dir + ".systmp")
		n := 0
		for _, l := range strings.Split(out, "\n") {
			if strings.HasPrefix(l, "EFFECTS ") {
				n, _ = strconv.Atoi(strings.TrimPrefix(l, "EFFECTS "))
			}
		}
		if err != nil || n == 0 {
			fmt.Fprintf(os.Stderr, "harness error: counting run of %s failed: %v %s\n", h, err, out)
			return 2
		}
		points[h] = n
		for k := 1; k <= n; k++ {
			jobs = append(jobs, job{h, k, 0})
		}
	}
	type result struct {
		job job
		r   c12Restart
		err string
	}
	var mu sync.Mutex
	beyondEnd := 0
	var results []result
	add := func(r result) {
		mu.Lock()
		results = append(results, r)
		mu.Unlock()
	}
	parse := func(out string) (c12Restart, bool) {
		for _, l := range strings.Split(out, "\n") {
			if strings.HasPrefix(l, "RESTART ") {
				var r c12Restart
				json.Unmarshal([]byte(strings.TrimPrefix(l, "RESTART ")), &r)
				return r, true
			}
		}
		return c12Restart{}, false
	}
	var wg sync.WaitGroup
	sem := make(chan struct{}, 16)
	for _, j := range jobs {
		wg.Add(1)
		go func(j job) {
			defer wg.Done()
			sem <- struct{}{}
			defer func() { <-sem }()
			// every other work_dir carries characters which mean something to pattern matching (the startup sweep must not care)
			dir := filepath.Join(Scratch(), fmt.Sprintf("c12-%s-%d", j.hist, j.k))
			if j.k%2 == 1 {
				dir = filepath.Join(Scratch(), fmt.Sprintf("c12-%s-[%d]*", j.hist, j.k))
			}
			os.RemoveAll(dir)
			os.MkdirAll(dir, 0755)
			defer os.RemoveAll(dir)
			defer os.RemoveAll(dir + ".systmp")
			_, err := c12Exec("child", j.hist, dir, fmt.Sprint(j.k))
			if err == nil {
				// in this work_dir the history went through fewer effect points than in the counting run (possible only if
				// the implementation's file operations depend on the directory's name): there is no such crash point here
				mu.Lock()
				beyondEnd++
				mu.Unlock()
				return
			}
			idsImage, _, _ := ListDir(dir)
			// the same crash point once more, the restart taking place under the process id of the crashed run
			if j.hist != "first-load-accepted-1100-entries" || j.k%16 == 0 {
				pidDir := dir + ".samepid"
				os.RemoveAll(pidDir)
				os.MkdirAll(pidDir, 0755)
				out, err := c12Exec("child-samepid", j.hist, pidDir, fmt.Sprint(j.k))
				os.RemoveAll(pidDir)
				os.RemoveAll(pidDir + ".systmp")
				jp := job{j.hist, j.k, -2}
				if rp, ok := parse(out); err == nil && ok {
					add(result{job: jp, r: rp})
				} else {
					add(result{job: jp, err: fmt.Sprintf("restart under the process id of the crashed run failed: %v %s", err, out)})
					return
				}
			}
			// the same image restarted while the other validator instance of the process is busy updating
			if j.hist != "first-load-accepted-1100-entries" || j.k%16 == 0 {
				busyDir := dir + ".busy"
				os.RemoveAll(busyDir)
				if out, err := exec.Command("cp", "-a", dir, busyDir).CombinedOutput(); err != nil {
					add(result{job: j, err: "cannot copy the crash image: " + string(out)})
					return
				}
				out, err := c12Exec("restart", busyDir, "0", "busy")
				os.RemoveAll(busyDir)
				jb := job{j.hist, j.k, -1}
				if rb, ok := parse(out); err == nil && ok {
					rb.IDsBefore = idsImage
					add(result{job: jb, r: rb})
				} else {
					add(result{job: jb, err: fmt.Sprintf("restart child (other instance busy) failed: %v %s", err, out)})
					return
				}
			}
			image := dir + ".image"
			if doubleCrash(j.hist) {
				os.RemoveAll(image)
				if out, err := exec.Command("cp", "-a", dir, image).CombinedOutput(); err != nil {
					add(result{job: j, err: "cannot copy the crash image: " + string(out)})
					return
				}
				defer os.RemoveAll(image)
			}
			out, err := c12Exec("restart", dir)
			if err != nil {
				add(result{job: j, err: "restart child failed: " + err.Error() + " " + out})
				return
			}
			r, ok := parse(out)
			if !ok {
				add(result{job: j, err: "restart child printed no result: " + out})
				return
			}
			add(result{job: j, r: r})
			if !doubleCrash(j.hist) {
				return
			}
			for jj := 1; jj <= r.StartupEffects; jj++ {
				j2 := job{j.hist, j.k, jj}
				d2 := fmt.Sprintf("%s.r%d", dir, jj)
				os.RemoveAll(d2)
				if out, err := exec.Command("cp", "-a", image, d2).CombinedOutput(); err != nil {
					add(result{job: j2, err: "cannot copy the crash image: " + string(out)})
					return
				}
				if out1, err := c12Exec("restart", d2, fmt.Sprint(jj)); err == nil {
					// this copy's startup went through fewer effect points than the counting run (the work_dir name differs): the
					// restart simply completed; judge what it reports
					os.RemoveAll(d2)
					if r2, ok := parse(out1); ok {
						r2.IDsBefore = idsImage
						add(result{job: j2, r: r2})
						continue
					}
					add(result{job: j2, err: "restarting child neither died nor reported: " + out1})
					return
				}
				out, err := c12Exec("restart", d2)
				os.RemoveAll(d2)
				if err != nil {
					add(result{job: j2, err: "second restart child failed: " + err.Error() + " " + out})
					return
				}
				r2, ok := parse(out)
				if !ok {
					add(result{job: j2, err: "second restart child printed no result: " + out})
					return
				}
				r2.IDsBefore = idsImage // a store of the first crash image must survive both restarts
				add(result{job: j2, r: r2})
			}
		}(j)
	}
	wg.Wait()
	outcomes := fw.NewDistinct()
	nontrivial := 0
	var samples []string
	allERR := strings.TrimSuffix(strings.Repeat("ERR,", len(c12Serials)), ",")
	sort.Slice(results, func(a, b int) bool {
		x, y := results[a].job, results[b].job
		if x.hist != y.hist {
			return x.hist < y.hist
		}
		if x.k != y.k {
			return x.k < y.k
		}
		return x.j < y.j
	})
	double, busyRuns, samePidRuns := 0, 0, 0
	for _, res := range results {
		j := res.job
		rep := map[string]interface{}{"driver": "C12", "history": j.hist, "crash_point": j.k, "restart_crash_point": j.j}
		hname := j.hist
		if j.j == -2 {
			samePidRuns++
			j.hist += "+restart-under-the-process-id-of-the-crashed-run"
		} else if j.j < 0 {
			busyRuns++
			j.hist += "+restart-while-other-instance-updates"
		}
		if j.j > 0 {
			// same oracle, one level deeper: the restarted process died at its j-th startup effect point, a third one restarted
			double++
			j.hist += "+crash-during-restart"
		}
		if res.err != "" {
			fmt.Fprintf(os.Stderr, "harness error: %s crash point %d: %s\n", j.hist, j.k, res.err)
			return 2
		}
		r := res.r
		outcomes.Add(j.hist + " => " + r.Vector)
		if r.Vector != allERR {
			nontrivial++
		}
		if len(samples) < 4 && j.k%17 == 0 {
			samples = append(samples, fmt.Sprintf("%s crash@%d => %s tmp=%v", j.hist, j.k, r.Vector, r.TmpAfter))
		}
		switch {
		case r.Panic != "":
			chk.Violation("C12|restart-panic|"+j.hist, fmt.Sprintf("restart after a crash at point %d of %s: %s", j.k, j.hist, r.Panic), rep)
			continue
		case r.ProvisionErr != "":
			chk.Violation("C12|restart-provision-fails|"+j.hist, fmt.Sprintf("Provision fails on the image of a crash at point %d of %s: %s", j.k, j.hist, r.ProvisionErr), rep)
			continue
		}
		if r.Vector != allERR {
			ok := false
			for _, l := range c12Allowed(hname) {
				if r.Vector == c.vector(l) {
					ok = true
				}
			}
			if !ok {
				var al []string
				for _, l := range c12Allowed(hname) {
					al = append(al, l+"="+c.vector(l))
				}
				chk.Violation("C12|loaded-data-not-a-complete-accepted-crl|"+j.hist,
					fmt.Sprintf("after a crash at effect point %d of history %s the restarted validator treats the location as loaded with verdicts [%s] for serials %v; allowed: not loaded, or %v", j.k, j.hist, r.Vector, c12Serials, al), rep)
			}
		}
		if hname == "first-load-accepted-1100-entries" && r.Vector != allERR && r.BigRevoked != c12BigExtra {
			chk.Violation("C12|loaded-data-not-a-complete-accepted-crl|"+j.hist,
				fmt.Sprintf("after a crash at effect point %d of history %s the restarted validator treats the location as loaded, but only %d of the list's %d further entries are answered 'revoked'", j.k, j.hist, r.BigRevoked, c12BigExtra), rep)
		}
		if r.Vector2 != c.vector("v3") {
			chk.Violation("C12|next-accepted-load-is-not-what-is-in-force|"+j.hist,
				fmt.Sprintf("crash at effect point %d of history %s, restart, then the origin serves list v3 and a handshake and a refresh take place: verdicts [%s] for serials %v, list v3 means [%s]", j.k, j.hist, r.Vector2, c12Serials, c.vector("v3")), rep)
		}
		if len(r.OtherAfter) > 0 {
			chk.Violation("C12|stray-entries-survive-startup|"+j.hist, fmt.Sprintf("crash at point %d of %s: work_dir entries %v (neither a store directory nor matched by the startup sweep) remain after Provision", j.k, j.hist, r.OtherAfter), rep)
		}
		if len(r.TmpAfter) > 0 {
			chk.Violation("C12|temp-artefacts-survive-startup|"+j.hist, fmt.Sprintf("crash at point %d of %s: temporary artefacts %v remain after Provision", j.k, j.hist, r.TmpAfter), rep)
		}
		for _, id := range r.IDsBefore {
			found := false
			for _, a := range r.IDsAfter {
				if a == id {
					found = true
				}
			}
			if !found {
				chk.Violation("C12|live-store-deleted-at-startup|"+j.hist, fmt.Sprintf("crash at point %d of %s: store directory %s was removed by startup cleaning", j.k, j.hist, id), rep)
			}
		}
	}
	// histories which ran to their end
	final := map[string]string{"first-load-accepted": "v1", "first-load-accepted-1100-entries": "vbig", "first-load-rejected": "", "first-load-truncated": "", "refresh-accepted": "v2",
		"refresh-rejected": "v1", "refresh-fetch-failure": "v1", "two-refreshes": "v3", "refresh-rejected-then-accepted": "v3", "second-location": "v2"}
	completedN := 0
	for _, h := range hists {
		r, ok := completed[h]
		if !ok {
			chk.Violation("C12|harness|completed-run", "no restart result for the completed run of "+h, nil)
			continue
		}
		completedN++
		want := allERR
		if final[h] != "" {
			want = c.vector(final[h])
		}
		outcomes.Add(h + "+completed => " + r.Vector)
		switch {
		case r.Panic != "" || r.ProvisionErr != "":
			chk.Violation("C12|restart-after-completed-history|"+h, fmt.Sprintf("restart after history %s ran to its end: %s %s", h, r.Panic, r.ProvisionErr), nil)
		case r.Vector != want:
			chk.Violation("C12|restart-after-completed-history-loses-the-last-accepted-list|"+h, fmt.Sprintf("history %s ran to its end, the process stopped and was started again (origin down, crl_cdp_strict on): verdicts [%s] for serials %v, the list accepted last means [%s]", h, r.Vector, c12Serials, want), nil)
		case r.Vector2 != c.vector("v3"):
			chk.Violation("C12|next-accepted-load-is-not-what-is-in-force|"+h+"+completed", fmt.Sprintf("after the restart the origin serves v3: verdicts [%s], v3 means [%s]", r.Vector2, c.vector("v3")), nil)
		}
	}
	var ps []string
	for h, n := range points {
		ps = append(ps, fmt.Sprintf("%s:%d", h, n))
	}
	sort.Strings(ps)
	cov := fw.Coverage{
		"evaluations":                            len(results),
		"single_crash_evaluations":               len(results) - double - busyRuns - samePidRuns,
		"restart_under_the_crashed_process_id":   samePidRuns,
		"restart_while_other_instance_updates":   busyRuns,
		"double_crash_evaluations":               double,
		"restarts_after_completed_histories":     completedN,
		"crash_points_beyond_the_end_of_the_run": beyondEnd,
		"distinct_nontrivial":                    nontrivial,
		"rule":                                   "one evaluation per (history, crash point) and, where the second level is on, per (history, crash point, startup effect point of the restart at which the restarting process dies too); crash points are all effect points of the history; non-trivial = the restarted validator treats the location as loaded (so the on-disk data is actually consulted)",
		"crash_points_per_history":               ps,
		"distinct_outcomes":                      outcomes.Counts(),
		"samples":                                samples,
		"exhaustive":                             true,
	}
	return chk.Finish(cov)
}

func init() { registry["C12"] = RunC12 }
