package drivers

import (
	"crypto/x509/pkix"
	"encoding/asn1"
	"encoding/json"
	"fmt"
	"math/big"
	"os"
	"sort"
	"strconv"
	"strings"
	"time"

	"go.uber.org/zap"

	"github.com/gr33nbl00d/caddy-revocation-validator/core"
	"github.com/gr33nbl00d/caddy-revocation-validator/crl/crlreader"
	"github.com/gr33nbl00d/caddy-revocation-validator/crl/crlstore"

	"verif/h/fw"
	"verif/h/world"
)

// C18: MapStore, LevelDbStore and a reference model in lock step.

type c18Model struct {
	meta    *crlreader.CRLMetaInfo
	ext     *crlreader.ExtendedCRLMetaInfo
	signer  []byte
	locs    *core.CRLLocations
	entries map[string]*pkix.RevokedCertificate
}

func newC18Model() *c18Model { return &c18Model{entries: map[string]*pkix.RevokedCertificate{}} }

func (m *c18Model) clone() *c18Model {
	n := *m
	n.entries = map[string]*pkix.RevokedCertificate{}
	for k, v := range m.entries {
		n.entries[k] = v
	}
	return &n
}

type c18Op struct {
	Name    string
	Do      func(s crlstore.CRLStore) error // on a real store
	Ref     func(m *c18Model)               // on the model
	Special string                          // "replace:<k>" | "reopen"
}

type c18Vals struct {
	issuers []pkix.RDNSequence
	serials []*big.Int
	ops     []c18Op
	prefill [][]int // op index sequences for replace-with stores
	signer  *world.Ident
}

func rdn(cn string) pkix.RDNSequence {
	return pkix.RDNSequence{{pkix.AttributeTypeAndValue{Type: []int{2, 5, 4, 10}, Value: "verif"}}, {pkix.AttributeTypeAndValue{Type: []int{2, 5, 4, 3}, Value: cn}}}
}

func newC18Vals() *c18Vals {
	v := &c18Vals{signer: world.Std().CA}
	v.issuers = []pkix.RDNSequence{rdn("issuer A"), rdn("issuer B")}
	nine := new(big.Int).SetBytes([]byte{0x80, 1, 2, 3, 4, 5, 6, 7})
	twenty := new(big.Int).SetBytes([]byte{0x7f, 1, 2, 3, 4, 5, 6, 7, 8, 9, 10, 11, 12, 13, 14, 15, 16, 17, 18, 19})
	v.serials = []*big.Int{big.NewInt(5), nine, twenty}
	t0 := time.Date(2029, 12, 31, 23, 0, 0, 0, time.UTC)
	metas := []*crlreader.CRLMetaInfo{
		{Issuer: v.issuers[0], ThisUpdate: t0, NextUpdate: t0.Add(48 * time.Hour)},
		{Issuer: v.issuers[1], ThisUpdate: t0.Add(time.Hour)},
	}
	for i, mi := range metas {
		mi := mi
		v.ops = append(v.ops, c18Op{Name: fmt.Sprintf("start(meta%d)", i), Do: func(s crlstore.CRLStore) error { return s.StartUpdateCrl(mi) }, Ref: func(m *c18Model) { m.meta = mi }})
	}
	for ii := range v.issuers {
		for si := range v.serials {
			for ei := 0; ei < 2; ei++ {
				ii, si, ei := ii, si, ei
				rc := &pkix.RevokedCertificate{SerialNumber: v.serials[si], RevocationTime: t0.Add(-time.Duration(si+1) * time.Hour)}
				if ei == 1 {
					rc.Extensions = []pkix.Extension{world.ReasonExt(1 + si)}
				}
				iss := v.issuers[ii]
				v.ops = append(v.ops, c18Op{Name: fmt.Sprintf("insert(%c,s%d,ext%d)", 'A'+ii, si, ei),
					Do: func(s crlstore.CRLStore) error {
						// like the CRL reader, the caller hands over one issuer variable for all entries and only changes
						// what it holds: a store must key on the name it is given, not on the identity of the variable
						*c18IssuerVar = iss
						return s.InsertRevokedCert(&crlreader.CRLEntry{Issuer: c18IssuerVar, RevokedCertificate: rc})
					},
					Ref: func(m *c18Model) { m.entries[c18Key(iss, rc.SerialNumber)] = rc }})
			}
		}
	}
	exts := []*crlreader.ExtendedCRLMetaInfo{{CRLNumber: nil}, {CRLNumber: big.NewInt(5)}}
	for i, e := range exts {
		e := e
		v.ops = append(v.ops, c18Op{Name: fmt.Sprintf("extmeta(%d)", i), Do: func(s crlstore.CRLStore) error { return s.UpdateExtendedMetaInfo(e) }, Ref: func(m *c18Model) { m.ext = e }})
	}
	sc := &core.CertificateChainEntry{RawCertificate: v.signer.Cert.Raw, Certificate: v.signer.Cert}
	v.ops = append(v.ops, c18Op{Name: "signer(ca)", Do: func(s crlstore.CRLStore) error { return s.UpdateSignatureCertificate(sc) }, Ref: func(m *c18Model) { m.signer = sc.RawCertificate }})
	locs := []*core.CRLLocations{{CRLDistributionPoints: []string{"http://b/y.crl", "http://a/x.crl"}}, {CRLUrl: "http://c/z.crl"}}
	for i, l := range locs {
		l := l
		v.ops = append(v.ops, c18Op{Name: fmt.Sprintf("locations(%d)", i), Do: func(s crlstore.CRLStore) error { return s.UpdateCRLLocations(l) }, Ref: func(m *c18Model) { m.locs = l }})
	}
	// replace-with: a second store pre-filled by a fixed sequence
	v.prefill = [][]int{{}, {0, 2, 15}, {1, 9, 14, 16, 17}, {0, 2, 5}, {3, 12}}
	for k := range v.prefill {
		v.ops = append(v.ops, c18Op{Name: fmt.Sprintf("replace-with(prefill%d)", k), Special: fmt.Sprintf("replace:%d", k)})
	}
	v.ops = append(v.ops, c18Op{Name: "close+reopen", Special: "reopen"})
	return v
}

func c18Key(iss pkix.RDNSequence, serial *big.Int) string {
	return iss.String() + "#" + serial.String()
}

// observe renders every getter of a real store.
func (v *c18Vals) observe(s crlstore.CRLStore) string {
	var sb strings.Builder
	for ii := range v.issuers {
		for si := range v.serials {
			iss := v.issuers[ii]
			st, err := s.GetCertRevocationStatus(&iss, v.serials[si])
			switch {
			case err != nil:
				fmt.Fprintf(&sb, "L%d%d=ERR;", ii, si)
			case st.Revoked:
				fmt.Fprintf(&sb, "L%d%d=R(%s);", ii, si, renderRC(st.CRLRevokedCertEntry))
			default:
				fmt.Fprintf(&sb, "L%d%d=-;", ii, si)
			}
		}
	}
	if m, err := s.GetCRLMetaInfo(); err != nil {
		sb.WriteString("meta=ERR;")
	} else {
		fmt.Fprintf(&sb, "meta=%s|%d|%d;", m.Issuer.String(), m.ThisUpdate.Unix(), zeroOrUnix(m.NextUpdate))
	}
	if e, err := s.GetCRLExtMetaInfo(); err != nil {
		sb.WriteString("ext=ERR;")
	} else {
		fmt.Fprintf(&sb, "ext=%v;", e.CRLNumber)
	}
	if c, err := s.GetCRLSignatureCert(); err != nil {
		sb.WriteString("signer=ERR;")
	} else {
		fmt.Fprintf(&sb, "signer=%d/%v;", len(c.RawCertificate), c.Certificate != nil && c.Certificate.SerialNumber != nil)
	}
	if l, err := s.GetCRLLocations(); err != nil {
		sb.WriteString("locs=ERR;")
	} else {
		fmt.Fprintf(&sb, "locs=%v|%s|%s;", l.CRLDistributionPoints, l.CRLUrl, l.CRLFile)
	}
	fmt.Fprintf(&sb, "empty=%v", s.IsEmpty())
	return sb.String()
}

func zeroOrUnix(t time.Time) int64 {
	if t.IsZero() {
		return 0
	}
	return t.Unix()
}

func renderRC(rc *pkix.RevokedCertificate) string {
	if rc == nil {
		return "nil"
	}
	var ex []string
	for _, e := range rc.Extensions {
		ex = append(ex, fmt.Sprintf("%s/%v/%x", e.Id, e.Critical, e.Value))
	}
	return fmt.Sprintf("%s@%d%v", rc.SerialNumber, rc.RevocationTime.Unix(), ex)
}

// observeModel renders what the reference model says the getters return.
func (v *c18Vals) observeModel(m *c18Model) string {
	var sb strings.Builder
	for ii := range v.issuers {
		for si := range v.serials {
			if rc, ok := m.entries[c18Key(v.issuers[ii], v.serials[si])]; ok {
				fmt.Fprintf(&sb, "L%d%d=R(%s);", ii, si, renderRC(rc))
			} else {
				fmt.Fprintf(&sb, "L%d%d=-;", ii, si)
			}
		}
	}
	if m.meta == nil {
		sb.WriteString("meta=ERR;")
	} else {
		fmt.Fprintf(&sb, "meta=%s|%d|%d;", m.meta.Issuer.String(), m.meta.ThisUpdate.Unix(), zeroOrUnix(m.meta.NextUpdate))
	}
	if m.ext == nil {
		sb.WriteString("ext=ERR;")
	} else {
		fmt.Fprintf(&sb, "ext=%v;", m.ext.CRLNumber)
	}
	if m.signer == nil {
		sb.WriteString("signer=ERR;")
	} else {
		fmt.Fprintf(&sb, "signer=%d/true;", len(m.signer))
	}
	if m.locs == nil {
		sb.WriteString("locs=ERR;")
	} else {
		fmt.Fprintf(&sb, "locs=%v|%s|%s;", m.locs.CRLDistributionPoints, m.locs.CRLUrl, m.locs.CRLFile)
	}
	// a store is "empty" (= holds no CRL) as long as no CRL was started in it
	fmt.Fprintf(&sb, "empty=%v", m.meta == nil)
	return sb.String()
}

// c18Run replays an op sequence on both backends and the model; returns canonical key and the first divergence.
var emptyDiv *c14Viol

func (v *c18Vals) run(seq []int) (key string, viol *c14Viol) {
	dir := FreshDir("c18")
	defer os.RemoveAll(dir)
	logger := zap.NewNop()
	mf, _ := crlstore.CreateStoreFactory(crlstore.Map, dir, logger)
	lf, _ := crlstore.CreateStoreFactory(crlstore.LevelDB, dir, logger)
	ms, err1 := mf.CreateStore("main", false)
	ls, err2 := lf.CreateStore("main", false)
	if err1 != nil || err2 != nil {
		panic(fmt.Sprint("create stores: ", err1, err2))
	}
	defer func() {
		defer func() { recover() }()
		ls.Close()
	}()
	// a second CRL's stores live in the same directory: whatever is done to one store leaves the other's alone
	ms2, err3 := mf.CreateStore("second", false)
	ls2, err4 := lf.CreateStore("second", false)
	if err3 != nil || err4 != nil {
		panic(fmt.Sprint("create second stores: ", err3, err4))
	}
	defer func() {
		defer func() { recover() }()
		ls2.Close()
	}()
	model2 := newC18Model()
	model := newC18Model()
	var names []string
	check := func(step string) *c14Viol {
		if om2, ol2, or2 := v.observe(ms2), v.observe(ls2), v.observeModel(model2); om2 != or2 || ol2 != or2 {
			which := diffField(om2, ol2, or2)
			if which != "empty:memory" {
				return &c14Viol{"C18|diverge|second-store-in-the-same-directory|" + which + "|after=" + opClass(step), fmt.Sprintf("after %v the getters of the OTHER store in the same directory disagree in %s:\n  memory: %s\n  disk:   %s\n  model:  %s", names, which, om2, ol2, or2)}
			}
		}
		om, ol, or := v.observe(ms), v.observe(ls), v.observeModel(model)
		if om != or || ol != or {
			which := diffField(om, ol, or)
			what := fmt.Sprintf("after %v the getters disagree in %s:\n  memory: %s\n  disk:   %s\n  model:  %s", names, which, om, ol, or)
			if which == "empty:memory" {
				// IsEmpty of the memory backend alone: reported (one signature), exploration continues so that it cannot mask anything else
				emptyDiv = &c14Viol{"C18|diverge|empty:memory", what}
				return nil
			}
			return &c14Viol{"C18|diverge|" + which + "|after=" + opClass(step), what}
		}
		return nil
	}
	for _, oi := range seq {
		op := v.ops[oi]
		names = append(names, op.Name)
		var e1, e2 error
		func() {
			defer func() {
				if r := recover(); r != nil {
					e1 = fmt.Errorf("PANIC: %v", r)
				}
			}()
			switch {
			case strings.HasPrefix(op.Special, "replace:"):
				k, _ := strconv.Atoi(strings.TrimPrefix(op.Special, "replace:"))
				// the replacing store is created under the same identifier (what the repository does) or under one of
				// its own: a replacement takes over content, not names
				ident := "main"
				if k%2 == 1 {
					ident = fmt.Sprintf("staging-%d", k)
				}
				nm, _ := mf.CreateStore(ident, true)
				nl, err := lf.CreateStore(ident, true)
				if err != nil {
					panic(err)
				}
				nmodel := newC18Model()
				for _, pi := range v.prefill[k] {
					if err := v.ops[pi].Do(nm); err != nil {
						panic(err)
					}
					if err := v.ops[pi].Do(nl); err != nil {
						panic(err)
					}
					v.ops[pi].Ref(nmodel)
				}
				// the other CRL's replacement is staged before this one is swapped in and swapped in after it
				k2 := (k + 1) % len(v.prefill)
				nm2, _ := mf.CreateStore("second", true)
				nl2, err := lf.CreateStore("second", true)
				if err != nil {
					panic(err)
				}
				nmodel2 := newC18Model()
				for _, pi := range v.prefill[k2] {
					if err := v.ops[pi].Do(nm2); err != nil {
						panic(err)
					}
					if err := v.ops[pi].Do(nl2); err != nil {
						panic(err)
					}
					v.ops[pi].Ref(nmodel2)
				}
				e1 = ms.Update(nm)
				e2 = ls.Update(nl)
				model = nmodel
				if e1 == nil && e2 == nil {
					e1 = ms2.Update(nm2)
					e2 = ls2.Update(nl2)
					model2 = nmodel2
				}
			case op.Special == "reopen":
				ls.Close()
				var err error
				ls, err = lf.CreateStore("main", false)
				if err != nil {
					panic(err)
				}
			default:
				e1 = op.Do(ms)
				e2 = op.Do(ls)
				op.Ref(model)
			}
		}()
		if e1 != nil || e2 != nil {
			return "", &c14Viol{"C18|op-error|" + opClass(op.Name), fmt.Sprintf("operation %s failed after %v: memory=%v disk=%v", op.Name, names[:len(names)-1], e1, e2)}
		}
		if vi := check(op.Name); vi != nil {
			return "", vi
		}
	}
	return v.observeModel(model), nil
}

func opClass(n string) string {
	if i := strings.Index(n, "("); i > 0 {
		return n[:i]
	}
	return n
}

func diffField(a, b, c string) string {
	fa, fb, fc := strings.Split(a, ";"), strings.Split(b, ";"), strings.Split(c, ";")
	var out []string
	for i := range fc {
		x, y := "", ""
		if i < len(fa) {
			x = fa[i]
		}
		if i < len(fb) {
			y = fb[i]
		}
		if x != fc[i] || y != fc[i] {
			name := fc[i]
			if j := strings.Index(name, "="); j > 0 {
				name = name[:j]
			}
			if strings.HasPrefix(name, "L") {
				name = "lookup"
			}
			who := ""
			if x != fc[i] {
				who += "memory"
			}
			if y != fc[i] {
				who += "disk"
			}
			out = append(out, name+":"+who)
		}
	}
	sort.Strings(out)
	var ded []string
	for i, o := range out {
		if i == 0 || o != out[i-1] {
			ded = append(ded, o)
		}
	}
	return strings.Join(ded, ",")
}

// c18IssuerVar is the one issuer variable all inserts of the operation alphabet go through.
var c18IssuerVar = new(pkix.RDNSequence)

// c18Shapes: value-shape sweep, depth 1-2 (each shape written and read back on both backends).
func c18Shapes(chk *fw.Check) int {
	n := 0
	t2060 := time.Date(2060, 5, 6, 7, 8, 9, 0, time.UTC)
	issuers := map[string]pkix.RDNSequence{
		"non-ascii": {{pkix.AttributeTypeAndValue{Type: []int{2, 5, 4, 3}, Value: "Zürich ✓ 名前"}}},
		"multi-rdn": {{pkix.AttributeTypeAndValue{Type: []int{2, 5, 4, 3}, Value: "a"}, pkix.AttributeTypeAndValue{Type: []int{2, 5, 4, 11}, Value: "b"}}},
		"empty-cn":  {{pkix.AttributeTypeAndValue{Type: []int{2, 5, 4, 3}, Value: ""}}},
		"plain":     rdn("plain"),
	}
	serials := map[string]*big.Int{"zero": big.NewInt(0), "negative": big.NewInt(-5), "one": big.NewInt(1), "big": new(big.Int).Lsh(big.NewInt(1), 159)}
	extss := map[string][]pkix.Extension{
		"none":        nil,
		"critical":    {{Id: asn1.ObjectIdentifier{2, 5, 29, 21}, Critical: true, Value: []byte{0x0a, 0x01, 0x01}}},
		"empty-value": {{Id: asn1.ObjectIdentifier{1, 2, 3}, Value: []byte{}}},
	}
	times := map[string]time.Time{"utc": time.Date(2029, 1, 1, 0, 0, 0, 0, time.UTC), "generalized": t2060}
	dir := FreshDir("c18s")
	defer os.RemoveAll(dir)
	logger := zap.NewNop()
	mf, _ := crlstore.CreateStoreFactory(crlstore.Map, dir, logger)
	lf, _ := crlstore.CreateStoreFactory(crlstore.LevelDB, dir, logger)
	id := 0
	for in, iss := range issuers {
		for sn, ser := range serials {
			for en, ex := range extss {
				for tn, tm := range times {
					id++
					iss := iss
					rc := &pkix.RevokedCertificate{SerialNumber: ser, RevocationTime: tm, Extensions: ex}
					ms, _ := mf.CreateStore(fmt.Sprint("s", id), false)
					ls, err := lf.CreateStore(fmt.Sprint("s", id), false)
					if err != nil {
						panic(err)
					}
					for bn, s := range map[string]crlstore.CRLStore{"memory": ms, "disk": ls} {
						n++
						shape := fmt.Sprintf("issuer=%s serial=%s ext=%s time=%s", in, sn, en, tn)
						func() {
							defer func() {
								if r := recover(); r != nil {
									chk.Violation("C18|shape-panic|"+bn, fmt.Sprintf("%s backend panics on shape %s: %v", bn, shape, r), shape)
								}
							}()
							if err := s.InsertRevokedCert(&crlreader.CRLEntry{Issuer: &iss, RevokedCertificate: rc}); err != nil {
								chk.Violation("C18|shape-insert-error|serial="+sn+" ext="+en+" time="+tn, fmt.Sprintf("%s backend cannot store shape %s: %v", bn, shape, err), shape)
								return
							}
							st, err := s.GetCertRevocationStatus(&iss, ser)
							if err != nil || !st.Revoked {
								chk.Violation("C18|shape-lost|serial="+sn+" ext="+en+" time="+tn+" issuer="+in, fmt.Sprintf("%s backend: inserted entry of shape %s is not found again (err=%v)", bn, shape, err), shape)
								return
							}
							if renderRC(st.CRLRevokedCertEntry) != renderRC(rc) {
								chk.Violation("C18|shape-changed|serial="+sn+" ext="+en+" time="+tn, fmt.Sprintf("%s backend returns %s for stored %s (shape %s)", bn, renderRC(st.CRLRevokedCertEntry), renderRC(rc), shape), shape)
							}
						}()
					}
					ls.Close()
				}
			}
		}
	}
	// what an entry's extensions say is content, never an instruction to the store: every CRLReason (also removeFromCRL
	// and certificateHold), alone and written over an earlier entry of the same pair, invalidityDate, holdInstructionCode
	{
		iss := rdn("plain")
		tm := time.Date(2029, 1, 1, 0, 0, 0, 0, time.UTC)
		shapes := map[string][]pkix.Extension{
			"reason+invalidityDate": {world.ReasonExt(1), world.InvalidityDateExt(tm.Add(-time.Hour))},
			"holdInstructionCode":   {world.ReasonExt(6), {Id: asn1.ObjectIdentifier{2, 5, 29, 23}, Value: []byte{0x06, 0x07, 0x2a, 0x86, 0x48, 0xce, 0x38, 0x02, 0x01}}},
		}
		for code := 0; code <= 10; code++ {
			shapes[fmt.Sprintf("reasonCode-%d", code)] = []pkix.Extension{world.ReasonExt(code)}
		}
		for en, ex := range shapes {
			for _, over := range []bool{false, true} {
				id++
				ser := big.NewInt(int64(4000 + id))
				rc := &pkix.RevokedCertificate{SerialNumber: ser, RevocationTime: tm, Extensions: ex}
				ms, _ := mf.CreateStore(fmt.Sprint("s", id), false)
				ls, err := lf.CreateStore(fmt.Sprint("s", id), false)
				if err != nil {
					panic(err)
				}
				for bn, st := range map[string]crlstore.CRLStore{"memory": ms, "disk": ls} {
					n++
					shape := fmt.Sprintf("ext=%s written-over-a-plain-entry-of-the-pair=%v", en, over)
					func() {
						defer func() {
							if r := recover(); r != nil {
								chk.Violation("C18|shape-panic|"+bn, fmt.Sprintf("%s backend panics on shape %s: %v", bn, shape, r), shape)
							}
						}()
						if over {
							if err := st.InsertRevokedCert(&crlreader.CRLEntry{Issuer: &iss, RevokedCertificate: &pkix.RevokedCertificate{SerialNumber: ser, RevocationTime: tm.Add(-24 * time.Hour)}}); err != nil {
								chk.Violation("C18|shape-insert-error|ext=none", fmt.Sprintf("%s backend cannot store a plain entry: %v", bn, err), shape)
								return
							}
						}
						if err := st.InsertRevokedCert(&crlreader.CRLEntry{Issuer: &iss, RevokedCertificate: rc}); err != nil {
							chk.Violation("C18|shape-insert-error|ext="+en, fmt.Sprintf("%s backend cannot store shape %s: %v", bn, shape, err), shape)
							return
						}
						got, err := st.GetCertRevocationStatus(&iss, ser)
						if err != nil || !got.Revoked {
							chk.Violation("C18|shape-lost|ext="+en, fmt.Sprintf("%s backend: inserted entry of shape %s is not found again (err=%v)", bn, shape, err), shape)
							return
						}
						if renderRC(got.CRLRevokedCertEntry) != renderRC(rc) {
							chk.Violation("C18|shape-changed|ext="+en, fmt.Sprintf("%s backend returns %s for stored %s (shape %s)", bn, renderRC(got.CRLRevokedCertEntry), renderRC(rc), shape), shape)
						}
					}()
				}
				ls.Close()
			}
		}
	}
	// metadata / locations shapes
	metaShapes := map[string]*crlreader.CRLMetaInfo{
		"no-nextupdate": {Issuer: rdn("m"), ThisUpdate: times["utc"]},
		"non-ascii":     {Issuer: issuers["non-ascii"], ThisUpdate: times["utc"], NextUpdate: times["utc"].Add(time.Hour)},
	}
	locShapes := map[string]*core.CRLLocations{
		"empty":      {},
		"empty-list": {CRLDistributionPoints: []string{}},
		"file":       {CRLFile: "/tmp/x y/ü.crl"},
		"long":       {CRLDistributionPoints: []string{strings.Repeat("http://x/", 500)}},
		// order and repetition of distribution points are part of the value (the loader tries them in this order)
		"unsorted":        {CRLDistributionPoints: []string{"ldap://z/cn=crl", "http://primary.test/x.crl", "http://backup.test/x.crl"}},
		"repeated":        {CRLDistributionPoints: []string{"http://b/y.crl", "http://a/x.crl", "http://b/y.crl"}},
		"url+file+points": {CRLUrl: "http://c/z.crl", CRLFile: "/var/crl/z.crl", CRLDistributionPoints: []string{"http://q/2.crl", "http://q/1.crl"}},
	}
	for mn, mi := range metaShapes {
		for ln, lo := range locShapes {
			id++
			ms, _ := mf.CreateStore(fmt.Sprint("m", id), false)
			ls, _ := lf.CreateStore(fmt.Sprint("m", id), false)
			for bn, s := range map[string]crlstore.CRLStore{"memory": ms, "disk": ls} {
				n++
				shape := "meta=" + mn + " locations=" + ln
				if err := s.StartUpdateCrl(mi); err != nil {
					chk.Violation("C18|shape-meta-error|"+mn, fmt.Sprintf("%s: %v", bn, err), shape)
					continue
				}
				if err := s.UpdateCRLLocations(lo); err != nil {
					chk.Violation("C18|shape-locations-error|"+ln, fmt.Sprintf("%s: %v", bn, err), shape)
					continue
				}
				g, err := s.GetCRLMetaInfo()
				if err != nil || g.Issuer.String() != mi.Issuer.String() || !g.ThisUpdate.Equal(mi.ThisUpdate) || zeroOrUnix(g.NextUpdate) != zeroOrUnix(mi.NextUpdate) {
					chk.Violation("C18|shape-meta-changed|"+mn, fmt.Sprintf("%s backend: meta info read back differs (%v, %+v)", bn, err, g), shape)
				}
				l, err := s.GetCRLLocations()
				if err != nil || strings.Join(l.CRLDistributionPoints, ",") != strings.Join(lo.CRLDistributionPoints, ",") || l.CRLFile != lo.CRLFile || l.CRLUrl != lo.CRLUrl {
					chk.Violation("C18|shape-locations-changed|"+ln, fmt.Sprintf("%s backend: locations read back differ (%v, %+v)", bn, err, l), shape)
				}
			}
			ls.Close()
		}
	}
	return n
}

// RunC18 is the entry point of the C18 check.
func RunC18(tier string, args []string) int {
	v := newC18Vals()
	if len(args) > 0 && args[0] == "hworker" {
		wtier := args[1]
		shard, _ := strconv.Atoi(args[2])
		n, _ := strconv.Atoi(args[3])
		depth := 3
		if wtier == "thorough" {
			depth = 5
		}
		out := hWorkerOut{Outcomes: map[string]int{}}
		vs := newViolSet()
		for first := range v.ops {
			if first%n != shard {
				continue
			}
			first := first
			st := fw.BFS(len(v.ops), depth-1, 0, time.Now().Add(40*time.Minute), func(h []int) (string, bool) {
				seq := append([]int{first}, h...)
				emptyDiv = nil
				key, viol := v.run(seq)
				if emptyDiv != nil {
					vs.add(emptyDiv.Sig, emptyDiv.What, map[string]interface{}{"driver": "C18", "seq": seq})
				}
				if viol != nil {
					var names []string
					for _, oi := range seq {
						names = append(names, v.ops[oi].Name)
					}
					vs.add(viol.Sig, viol.What, map[string]interface{}{"driver": "C18", "ops": names, "seq": seq})
					return fmt.Sprint("viol", seq), false
				}
				return key, true
			})
			out.Stats.States += st.States
			out.Stats.Transitions += st.Transitions
			out.Stats.Pruned += st.Pruned
			if st.MaxDepth+1 > out.Stats.MaxDepth {
				out.Stats.MaxDepth = st.MaxDepth + 1
			}
		}
		out.Violations = vs.list()
		b, _ := json.Marshal(out)
		fmt.Println(string(b))
		return 0
	}
	chk := fw.NewCheck("C18", tier, "model_checking")
	chk.Assumptions = []string{
		"operation alphabet: start(2) insert(issuer 2 x serial 3 x ext 2) extmeta(2) signer locations(2) replace-with(3 pre-filled stores, created under the same or under another identifier) close+reopen; all sequences up to depth 3 (quick) / 4 (thorough) below every first operation, deduplicated on the reference model state; after every operation ALL getters of MapStore, LevelDbStore and the model are compared",
		"reference model: plain Go map + structs; a store is 'empty' until a CRL was started in it",
		"value-shape sweep: issuer(4) x serial(4 incl. zero, negative, 2^159) x extensions(3) x date form(2), meta(2) x locations(4) round trips on both backends",
	}
	nshapes := c18Shapes(chk)
	total := runHWorkers(chk, "C18", tier, 16)
	var opNames []string
	for _, o := range v.ops {
		opNames = append(opNames, o.Name)
	}
	cov := fw.Coverage{
		"states":                        total.Stats.States,
		"transitions":                   total.Stats.Transitions,
		"traces_validated_against_impl": total.Stats.Transitions,
		"max_depth":                     total.Stats.MaxDepth,
		"merged_transitions":            total.Stats.Pruned,
		"shape_roundtrips":              nshapes,
		"operation_alphabet":            opNames,
		"samples":                       []interface{}{[]string{"locations(0)", "close+reopen", "start(meta1)"}, []string{"insert(A,s1,ext1)", "replace-with(prefill2)", "insert(B,s2,ext0)"}},
		"exhaustive":                    !total.Stats.Capped,
	}
	return chk.Finish(cov)
}

func init() { registry["C18"] = RunC18 }
