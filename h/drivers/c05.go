package drivers

import (
	"crypto/x509"
	"crypto/x509/pkix"
	"fmt"
	"math/big"
	"os"
	"strings"
	"time"

	"go.uber.org/zap"
	xocsp "golang.org/x/crypto/ocsp"

	"github.com/gr33nbl00d/caddy-revocation-validator/config"
	"github.com/gr33nbl00d/caddy-revocation-validator/ocsp"

	"verif/h/fw"
	"verif/h/rt/vsched"
	"verif/h/world"
)

// OW is an OCSP world: scripted responders + one OCSPRevocationChecker.
type OW struct {
	Net *world.Net
	Cfg *config.OCSPConfig
	Chk *ocsp.OCSPRevocationChecker
}

func NewOW(strict bool, defDur time.Duration, trusted []*x509.Certificate, net *world.Net) *OW {
	if net == nil {
		net = world.NewNet()
	}
	w := &OW{Net: net, Cfg: &config.OCSPConfig{OCSPAIAStrict: strict, DefaultCacheDurationParsed: defDur, TrustedResponderCerts: trusted}}
	if w.Cfg.TrustedResponderCerts == nil {
		w.Cfg.TrustedResponderCerts = []*x509.Certificate{}
	}
	w.Chk = &ocsp.OCSPRevocationChecker{}
	if err := w.Chk.Provision(w.Cfg, zap.NewNop()); err != nil {
		panic(err)
	}
	return w
}

func (w *OW) Lookup(leaf *world.Ident, chain [][]*x509.Certificate) (v Verdict) {
	defer func() {
		if r := recover(); r != nil {
			if fmt.Sprintf("%T", r) == "vsched.abortSentinel" {
				panic(r)
			}
			v = Verdict{Panic: fmt.Sprint(r)}
		}
	}()
	cert, chains := freshHandshake(leaf.Cert, chain)
	st, err := w.Chk.IsRevoked(cert, chains)
	return mkVerdict(st, err)
}

const ocspURL = "http://ocsp.test/r1"

// ---------------------------------------------------------------- C05 cast

type c05Cast struct {
	p          *world.PKI
	issuer     *world.Ident // RSA issuing CA (deterministic signatures)
	leaf       *world.Ident
	delegated  *world.Ident // issued by issuer, EKU OCSPSigning
	delegNoEKU *world.Ident
	stranger   *world.Ident
	sibling    *world.Ident
	chain      [][]*x509.Certificate

	strangerEKU  *world.Ident // self-signed stranger whose certificate claims id-kp-OCSPSigning
	siblingDeleg *world.Ident // responder with OCSPSigning EKU issued by the sibling CA (same DN as the issuer, other key)
	delegAny     *world.Ident // issued by the issuer, EKU anyExtendedKeyUsage
	delegClient  *world.Ident // issued by the issuer, EKU clientAuth only
	leafAny      *world.Ident // a client certificate with EKU clientAuth + any (it answers about itself)
	// client certificates without authority key identifier whose own subject looks like the issuer's name (other letter
	// case, doubled blank, other attribute order): they answer about themselves, certificate not embedded
	leafLike map[string]*world.Ident
	// foreignResponder: a responder certificate (OCSPSigning) of an unrelated CA, configured as trusted responder
	// certificate: it may answer for that CA's certificates, not for this issuer's
	foreignResponder *world.Ident
	// aiaStranger: self-made CA-like certificate with the issuer's name and the key identifier the odd client's AKI names
	aiaStranger *world.Ident
}

func newC05Cast() *c05Cast {
	p := world.Std()
	c := &c05Cast{p: p, issuer: p.CARSA}
	c.leaf = world.Issue(c.issuer, world.CertOpt{CN: "c05 client", Serial: big.NewInt(4242), KeyKind: "rsa", KeyIdx: 1, OCSP: []string{ocspURL}})
	c.delegated = world.Issue(c.issuer, world.CertOpt{CN: "delegated responder", Serial: big.NewInt(51), KeyKind: "rsa", KeyIdx: 2, ExtKeyUsage: []x509.ExtKeyUsage{x509.ExtKeyUsageOCSPSigning}})
	c.delegNoEKU = world.Issue(c.issuer, world.CertOpt{CN: "delegated responder without eku", Serial: big.NewInt(52), KeyKind: "rsa", KeyIdx: 3})
	c.stranger = world.Issue(nil, world.CertOpt{CN: "stranger responder", Serial: big.NewInt(53), KeyKind: "rsa", KeyIdx: 4})
	c.sibling = world.Issue(p.Root, world.CertOpt{Subject: &c.issuer.Cert.Subject, IsCA: true, KeyKind: "rsa", KeyIdx: 5, Serial: big.NewInt(54)})
	c.strangerEKU = world.Issue(nil, world.CertOpt{CN: "stranger responder with eku", Serial: big.NewInt(55), KeyKind: "rsa", KeyIdx: 4, ExtKeyUsage: []x509.ExtKeyUsage{x509.ExtKeyUsageOCSPSigning}})
	c.siblingDeleg = world.Issue(c.sibling, world.CertOpt{CN: "sibling delegated responder", Serial: big.NewInt(56), KeyKind: "rsa", KeyIdx: 6, ExtKeyUsage: []x509.ExtKeyUsage{x509.ExtKeyUsageOCSPSigning}})
	c.delegAny = world.Issue(c.issuer, world.CertOpt{CN: "delegated any eku", Serial: big.NewInt(57), KeyKind: "rsa", KeyIdx: 2, ExtKeyUsage: []x509.ExtKeyUsage{x509.ExtKeyUsageAny}})
	c.delegClient = world.Issue(c.issuer, world.CertOpt{CN: "delegated clientauth eku", Serial: big.NewInt(58), KeyKind: "rsa", KeyIdx: 3, ExtKeyUsage: []x509.ExtKeyUsage{x509.ExtKeyUsageClientAuth}})
	c.leafAny = world.Issue(c.issuer, world.CertOpt{CN: "c05 client any eku", Serial: big.NewInt(4243), KeyKind: "rsa", KeyIdx: 7, OCSP: []string{ocspURL}, ExtKeyUsage: []x509.ExtKeyUsage{x509.ExtKeyUsageClientAuth, x509.ExtKeyUsageAny}})
	c.chain = world.Chain(c.leaf, c.issuer, p.Root)
	c.foreignResponder = world.Issue(p.OtherCA, world.CertOpt{CN: "responder of the other CA", Serial: big.NewInt(59), KeyKind: "rsa", KeyIdx: 6, ExtKeyUsage: []x509.ExtKeyUsage{x509.ExtKeyUsageOCSPSigning}})
	c.leafLike = map[string]*world.Ident{}
	for i, v := range []struct {
		name string
		dn   []byte
	}{
		{"client-own-named-like-issuer-case", world.RawDN("O", "verif", "CN", "VERIF ISSUING CA RSA")},
		{"client-own-named-like-issuer-blank", world.RawDN("O", "verif", "CN", "verif  issuing CA rsa")},
		{"client-own-named-like-issuer-order", world.RawDN("CN", "verif issuing CA rsa", "O", "verif")},
		// ... and a client whose certificate carries exactly the distinguished name of its issuer
		{"client-own-named-like-issuer-exactly", nil},
	} {
		if v.dn == nil {
			v.dn = c.issuer.Cert.RawSubject
		}
		l := world.Issue(c.issuer, world.CertOpt{CN: v.name, RawSubject: v.dn, Serial: big.NewInt(int64(4250 + i)), KeyKind: "rsa", KeyIdx: 7, OCSP: []string{ocspURL}, NoAKI: true})
		l = world.WithoutExtension(l, c.issuer, world.OIDAKI)
		if len(l.Cert.AuthorityKeyId) != 0 || (string(l.Cert.RawSubject) == string(c.issuer.Cert.RawSubject)) != (v.name == "client-own-named-like-issuer-exactly") {
			panic("c05 cast: look-alike leaf")
		}
		c.leafLike[v.name] = l
	}
	for _, n := range []string{"rekeyed-CA-configured-as-trusted-responder-client-AKI-names-neither-key", "issuer-embedded-client-AKI-names-neither-key-rekeyed-CA-trusted"} {
		l := world.Issue(c.issuer, world.CertOpt{CN: "c05 client odd aki", Serial: big.NewInt(4260), KeyKind: "rsa", KeyIdx: 1, OCSP: []string{ocspURL},
			ExtraExt: []pkix.Extension{world.AKIExt([]byte{0xde, 0xad, 0xbe, 0xef, 1, 2, 3, 4, 5, 6, 7, 8, 9, 10, 11, 12, 13, 14, 15, 16}, nil, nil)}})
		if string(l.Cert.AuthorityKeyId) == string(c.issuer.Cert.SubjectKeyId) || string(l.Cert.AuthorityKeyId) == string(c.sibling.Cert.SubjectKeyId) || len(l.Cert.AuthorityKeyId) == 0 {
			panic("c05 cast: odd-AKI leaf")
		}
		c.leafLike[n] = l
	}
	noSKI := world.Issue(c.issuer, world.CertOpt{CN: "c05 client without ski", Serial: big.NewInt(4280), KeyKind: "rsa", KeyIdx: 7, OCSP: []string{ocspURL}, NoSKI: true})
	if len(noSKI.Cert.SubjectKeyId) != 0 {
		panic("c05 cast: SKI still present")
	}
	c.leafLike["client-own-bare-client-without-subject-key-identifier"] = noSKI
	oddKeyID := []byte{0xaa, 0xbb, 0xcc, 0xdd, 1, 2, 3, 4, 5, 6, 7, 8, 9, 10, 11, 12, 13, 14, 15, 16}
	c.aiaStranger = world.Issue(nil, world.CertOpt{CN: "aia stranger", RawSubject: c.issuer.Cert.RawSubject, IsCA: true, KeyKind: "rsa", KeyIdx: 4, Serial: big.NewInt(60), SKI: oddKeyID})
	c.leafLike["stranger-served-at-the-caIssuers-address"] = world.Issue(c.issuer, world.CertOpt{CN: "c05 client with caIssuers", Serial: big.NewInt(4281), KeyKind: "rsa", KeyIdx: 1, OCSP: []string{ocspURL},
		IssuerURL: []string{c05IssuerURL}, ExtraExt: []pkix.Extension{world.AKIExt(oddKeyID, nil, nil)}})
	return c
}

const c05IssuerURL = "http://ca.test/issuing-ca.cer"

type c05Case struct {
	Signer      string // issuer | delegated-eku | delegated-no-eku | client-own | stranger-embedded | stranger-bare | sibling-ca | issuer-embedded
	OtherSerial bool
	Status      int // ocsp.Good/Revoked/Unknown
	RespStatus  int // 0 successful, 1 malformed, 2 internal, 3 tryLater, 6 unauthorized
	FlipBit     int // -1 none
	FlipSeed    string
	// AfterSibling: before this case, the same checker looks up a client of the sibling CA (same name as the issuer,
	// other key) and gets an authentic answer signed by that sibling: nothing learnt there applies to this certificate
	AfterSibling bool
}

func (c c05Case) String() string {
	st := map[int]string{xocsp.Good: "good", xocsp.Revoked: "revoked", xocsp.Unknown: "unknown"}[c.Status]
	s := fmt.Sprintf("signer=%s status=%s respStatus=%d otherSerial=%v", c.Signer, st, c.RespStatus, c.OtherSerial)
	if c.FlipBit >= 0 {
		s += fmt.Sprintf(" flip=%d", c.FlipBit)
	}
	if c.AfterSibling {
		s += " after-lookup-of-a-sibling-CA-client"
	}
	return s
}

var c05Signers = []string{"issuer", "delegated-eku", "delegated-no-eku", "client-own", "stranger-embedded", "stranger-bare", "sibling-ca", "delegated-eku-bare",
	"delegated-eku-any", "delegated-eku-clientauth", "client-own-eku-any", "stranger-embedded-ocspsigning", "sibling-delegated-eku",
	"client-own-named-like-issuer-case", "client-own-named-like-issuer-blank", "client-own-named-like-issuer-order", "client-own-named-like-issuer-exactly",
	"configured-trusted-responder-of-another-CA-bare", "configured-trusted-responder-of-another-CA-embedded",
	"rekeyed-CA-configured-as-trusted-responder-client-AKI-names-neither-key", "issuer-embedded-client-AKI-names-neither-key-rekeyed-CA-trusted",
	// the client certificate carries no subject key identifier and answers about itself, its certificate not sent along
	"client-own-bare-client-without-subject-key-identifier",
	// the client certificate's authority key identifier names no certificate at hand; its caIssuers address serves a
	// self-made certificate carrying exactly that key identifier and the issuer's name, which signs the answer
	"stranger-served-at-the-caIssuers-address"}

// leafFor: the certificate whose status is asked (a special leaf for the case where the client answers about itself)
func (k *c05Cast) leafFor(c c05Case) *world.Ident {
	if c.Signer == "client-own-eku-any" {
		return k.leafAny
	}
	if l, ok := k.leafLike[c.Signer]; ok {
		return l
	}
	return k.leaf
}

func (k *c05Cast) build(c c05Case) (body []byte, authentic bool) {
	if c.RespStatus != 0 {
		return world.OCSPErrorResponse(c.RespStatus), false
	}
	a := world.OCSPAnswer{Status: c.Status, Serial: k.leafFor(c).Cert.SerialNumber, Issuer: k.issuer,
		ThisUpdate: vsched.Epoch.Add(-time.Minute), NextUpdate: time.Time{}}
	if c.OtherSerial {
		a.Serial = big.NewInt(999)
	}
	switch c.Signer {
	case "issuer":
		a.Signer = k.issuer
		authentic = true
	case "delegated-eku":
		a.Signer, a.EmbedCert = k.delegated, true
		authentic = true
	case "delegated-eku-bare":
		a.Signer = k.delegated // authorised responder but its certificate is not sent along: cannot be verified
		authentic = false
	case "delegated-no-eku":
		a.Signer, a.EmbedCert = k.delegNoEKU, true
	case "client-own":
		a.Signer, a.EmbedCert = k.leaf, true
	case "stranger-embedded":
		a.Signer, a.EmbedCert = k.stranger, true
	case "stranger-bare":
		a.Signer = k.stranger
	case "sibling-ca":
		a.Signer = k.sibling
	case "delegated-eku-any":
		a.Signer, a.EmbedCert = k.delegAny, true
	case "delegated-eku-clientauth":
		a.Signer, a.EmbedCert = k.delegClient, true
	case "client-own-eku-any":
		a.Signer, a.EmbedCert = k.leafAny, true
	case "stranger-embedded-ocspsigning":
		a.Signer, a.EmbedCert = k.strangerEKU, true
	case "configured-trusted-responder-of-another-CA-bare":
		a.Signer = k.foreignResponder
	case "configured-trusted-responder-of-another-CA-embedded":
		a.Signer, a.EmbedCert = k.foreignResponder, true
	case "sibling-delegated-eku":
		a.Signer, a.EmbedCert = k.siblingDeleg, true
	case "client-own-bare-client-without-subject-key-identifier":
		a.Signer, a.Issuer = k.leafLike[c.Signer], k.issuer
	case "stranger-served-at-the-caIssuers-address":
		a.Signer = k.aiaStranger
	case "rekeyed-CA-configured-as-trusted-responder-client-AKI-names-neither-key":
		// the client certificate's authority key identifier names a key which no certificate at hand carries; a
		// certificate with the issuer's name and ANOTHER key (the re-keyed CA of a former generation) is configured as
		// trusted responder certificate and signs: that key is provably not the issuer's key
		a.Signer = k.sibling
	case "issuer-embedded-client-AKI-names-neither-key-rekeyed-CA-trusted":
		a.Signer, a.EmbedCert = k.sibling, true
	case "client-own-named-like-issuer-case", "client-own-named-like-issuer-blank", "client-own-named-like-issuer-order", "client-own-named-like-issuer-exactly":
		// signed by the client's own key, the certificate is not sent along: only a checker which takes the client
		// certificate for its own issuer can verify this
		a.Signer, a.Issuer = k.leafLike[c.Signer], k.leafLike[c.Signer]
	}
	if c.OtherSerial {
		authentic = false
	}
	body = world.BuildOCSP(a)
	if c.FlipBit >= 0 {
		d := append([]byte{}, body...)
		d[c.FlipBit/8] ^= 1 << (uint(c.FlipBit) % 8)
		body = d
		// a mutated response is still authentic iff an independent verification against the issuer succeeds
		// for this very serial (then it *is* an issuer-signed statement about this certificate)
		authentic = false
		if r, err := xocsp.ParseResponseForCert(body, k.leaf.Cert, k.issuer.Cert); err == nil && r.SerialNumber.Cmp(k.leaf.Cert.SerialNumber) == 0 {
			if r.Certificate == nil || r.Certificate.Equal(k.issuer.Cert) || hasOCSPSigning(r.Certificate) {
				authentic = true
			}
		}
	}
	return
}

// c05Run: strict on, single responder, default cache duration 10 min.
// used  = the first call returned a verdict (no error): the response decided.
// cached = with the responder down the second call still returns a verdict.
func (k *c05Cast) run(c c05Case) (used, cached bool, v1, v2 Verdict, authentic bool) {
	body, authentic := k.build(c)
	res := seqWorld(func() {
		var trusted []*x509.Certificate
		if strings.HasPrefix(c.Signer, "configured-trusted-responder") {
			trusted = []*x509.Certificate{k.foreignResponder.Cert}
		}
		if strings.Contains(c.Signer, "client-AKI-names-neither-key") {
			trusted = []*x509.Certificate{k.sibling.Cert}
		}
		w := NewOW(true, 10*time.Minute, trusted, nil)
		if c.AfterSibling {
			const sibURL = "http://ocsp.test/sibling"
			sl := world.Issue(k.sibling, world.CertOpt{CN: "c05 client of the sibling CA", Serial: big.NewInt(4300), KeyKind: "rsa", KeyIdx: 1, OCSP: []string{sibURL}})
			w.Net.Serve(sibURL, "sibling-good", world.BuildOCSP(world.OCSPAnswer{Status: xocsp.Good, Serial: sl.Cert.SerialNumber, Issuer: k.sibling, Signer: k.sibling, ThisUpdate: vsched.Epoch.Add(-time.Minute)}))
			if v := w.Lookup(sl, world.Chain(sl, k.sibling, k.p.Root)); v.String() != "OK" {
				panic("c05 prelude: sibling client lookup: " + v.String() + " " + v.Err)
			}
		}
		w.Net.Serve(ocspURL, "scripted", body)
		w.Net.Serve(c05IssuerURL, "caIssuers", k.aiaStranger.Cert.Raw)
		leaf := k.leafFor(c)
		chain := world.Chain(leaf, k.issuer, k.p.Root)
		v1 = w.Lookup(leaf, chain)
		w.Net.Down(ocspURL)
		v2 = w.Lookup(leaf, chain)
		w.Chk.Cleanup()
	})
	if res.Verdict != vsched.OK {
		v1.Panic = res.Verdict.String() + ": " + firstLines(res.Detail, 3)
	}
	used = v1.Err == "" && v1.Panic == ""
	cached = v2.Err == "" && v2.Panic == ""
	return
}

// c05Reload: the whole module, two generations of the configuration in one process. The file named by
// trusted_responder_certs_files holds a certificate with the issuer's name and another key (a former generation of
// the re-keyed CA) while the first validator instance lives; then the file is replaced - same name, same size, same
// modification time - by an unrelated responder certificate and a new instance is provisioned. For the new instance a
// response signed with the former certificate's key is signed by nobody it knows: no answer. (What the first instance
// makes of it is not judged.)
func c05Reload(chk *fw.Check, k *c05Cast) (evals int) {
	leaf := world.Issue(k.issuer, world.CertOpt{CN: "c05 client without aki", Serial: big.NewInt(4270), KeyKind: "rsa", KeyIdx: 1, OCSP: []string{ocspURL}, NoAKI: true})
	leaf = world.WithoutExtension(leaf, k.issuer, world.OIDAKI)
	for _, status := range []int{xocsp.Good, xocsp.Revoked} {
		for _, embed := range []bool{false, true} {
			evals++
			var v1, v2 Verdict
			var perr string
			res := seqWorld(func() {
				net := world.NewNet()
				files := FreshDir("c05r")
				defer os.RemoveAll(files)
				body := world.BuildOCSP(world.OCSPAnswer{Status: status, Serial: leaf.Cert.SerialNumber, Issuer: k.sibling, Signer: k.sibling, EmbedCert: embed, ThisUpdate: vsched.Epoch.Add(-time.Minute)})
				net.Serve(ocspURL, "signed-by-former-generation", body)
				chain := world.Chain(leaf, k.issuer, k.p.Root)
				for gen, cert := range []*x509.Certificate{k.sibling.Cert, k.foreignResponder.Cert} {
					f := WritePEMSameStat(files, "responder.pem", cert)
					w := NewTW(TWOpt{Mode: "ocsp_only", Net: net, OCSP: &config.OCSPConfig{OCSPAIAStrict: true, TrustedResponderCertsFiles: []string{f}}})
					if err := w.Provision(); err != nil {
						perr = fmt.Sprintf("generation %d: %v", gen+1, err)
						return
					}
					vsched.Drain()
					v := w.Handshake(chain)
					if gen == 0 {
						v1 = v
					} else {
						v2 = v
					}
					w.Cleanup()
					vsched.Drain()
				}
			})
			label := fmt.Sprintf("status=%d embedded=%v", status, embed)
			if perr != "" || res.Verdict != vsched.OK {
				chk.Violation("C05|harness|reload", label+": "+perr+" "+res.Verdict.String()+" "+firstLines(res.Detail, 3), nil)
				continue
			}
			if v2.Panic != "" || v2.Err == "" {
				chk.Violation("C05|unauthentic-used|signer=certificate-the-trusted-responder-file-held-before-it-was-replaced",
					fmt.Sprintf("%s: the validator provisioned after the trusted responder file was replaced (same size, same modification time) let a response signed with the replaced certificate's key decide: %s (the instance before the replacement: %s)", label, v2, v1), nil)
			}
		}
	}
	return
}

// RunC05 is the entry point of the C05 check.
func RunC05(tier string, args []string) int {
	chk := fw.NewCheck("C05", tier, "exploration")
	chk.Assumptions = []string{
		"authenticity of a generated response is known by construction (who signed it, for which serial, which status); a bit-flipped response counts as authentic only if an independent x/crypto/ocsp verification against the issuer certificate for this serial still succeeds (the signature then still covers an identical tbsResponseData)",
		"observation through the real checker with ocsp_aia_strict on: an unauthentic response must be treated as 'no answer' (strict error) and must not be served from the cache afterwards",
	}
	k := newC05Cast()
	evals, authN := 0, 0
	outcomes := fw.NewDistinct()
	var samples []string
	judge := func(c c05Case) {
		evals++
		used, cached, v1, v2, authentic := k.run(c)
		outcomes.Add(fmt.Sprintf("auth=%v used=%v cached=%v %s/%s", authentic, used, cached, v1, v2))
		if v1.Panic != "" || v2.Panic != "" {
			chk.Violation("C05|panic|"+normaliseNumbers(firstLines(v1.Panic+v2.Panic, 1)), "panic while handling an OCSP response ["+c.String()+"]: "+v1.Panic+v2.Panic, c)
			return
		}
		if authentic {
			authN++
			return
		}
		if used || cached {
			feature := "signer=" + c.Signer
			if c.AfterSibling {
				feature += " after-lookup-of-a-sibling-CA-client"
			}
			switch {
			case c.FlipBit >= 0:
				feature = "bitflip seed=" + c.FlipSeed
			case c.RespStatus != 0:
				feature = fmt.Sprintf("respStatus=%d", c.RespStatus)
			case c.OtherSerial && (c.Signer == "issuer" || c.Signer == "delegated-eku"):
				feature = "other-serial"
			}
			what := "decided the verdict"
			if cached && !used {
				what = "was cached"
			} else if cached {
				what = "decided the verdict and was cached"
			}
			chk.Violation("C05|unauthentic-used|"+feature, fmt.Sprintf("an OCSP response that is not authentic %s: %s (call1=%s call2=%s)", what, c, v1, v2), c)
			if len(samples) < 3 {
				samples = append(samples, c.String())
			}
		}
	}
	for _, s := range c05Signers {
		for _, other := range []bool{false, true} {
			for _, st := range []int{xocsp.Good, xocsp.Revoked, xocsp.Unknown} {
				judge(c05Case{Signer: s, OtherSerial: other, Status: st, FlipBit: -1})
			}
		}
	}
	for _, rs := range []int{1, 2, 3, 5, 6} {
		judge(c05Case{Signer: "issuer", Status: xocsp.Good, RespStatus: rs, FlipBit: -1})
	}
	// replay: an authentic answer about this certificate is looked up first; then a second certificate of the same issuer
	// is presented and the responder sends the very same bytes again - they say nothing about the second one
	for _, st := range []int{xocsp.Good, xocsp.Revoked} {
		evals++
		body, _ := k.build(c05Case{Signer: "issuer", Status: st, FlipBit: -1})
		second := world.Issue(k.issuer, world.CertOpt{CN: "c05 second client", Serial: big.NewInt(4245), KeyKind: "rsa", KeyIdx: 1, OCSP: []string{ocspURL}})
		var v1, v2, v3 Verdict
		seqWorld(func() {
			w := NewOW(true, 10*time.Minute, nil, nil)
			w.Net.Serve(ocspURL, "scripted", body)
			v1 = w.Lookup(k.leaf, k.chain)
			v2 = w.Lookup(second, world.Chain(second, k.issuer, k.p.Root))
			w.Net.Down(ocspURL)
			v3 = w.Lookup(second, world.Chain(second, k.issuer, k.p.Root))
			w.Chk.Cleanup()
		})
		outcomes.Add(fmt.Sprintf("replay %s/%s/%s", v1, v2, v3))
		if v1.Err != "" || v1.Panic != "" {
			chk.Violation("C05|harness|replay-setup", "the authentic answer about the first certificate was not used: "+v1.Err+v1.Panic, nil)
		} else if v2.Err == "" || v3.Err == "" {
			chk.Violation("C05|unauthentic-used|replayed-bytes-of-an-answer-about-another-certificate", fmt.Sprintf("after a lookup of certificate X, the same response bytes (about X) %s for certificate Y of the same issuer (second lookup %s, with the responder down %s)", map[bool]string{true: "decided the verdict", false: "were cached"}[v2.Err == ""], v2, v3), nil)
		}
	}
	// two-step histories on one checker: first a client of the sibling CA, then this certificate
	for _, s := range c05Signers {
		for _, st := range []int{xocsp.Good, xocsp.Revoked} {
			judge(c05Case{Signer: s, Status: st, FlipBit: -1, AfterSibling: true})
		}
	}
	// every single-bit flip of an authentic good and an authentic revoked response (issuer-signed, and delegated)
	flips := 0
	seeds := []c05Case{
		{Signer: "issuer", Status: xocsp.Good, FlipBit: -1, FlipSeed: "issuer-good"},
		{Signer: "issuer", Status: xocsp.Revoked, FlipBit: -1, FlipSeed: "issuer-revoked"},
	}
	if tier == "thorough" {
		seeds = append(seeds, c05Case{Signer: "delegated-eku", Status: xocsp.Good, FlipBit: -1, FlipSeed: "delegated-good"},
			c05Case{Signer: "delegated-eku", Status: xocsp.Revoked, FlipBit: -1, FlipSeed: "delegated-revoked"},
			c05Case{Signer: "issuer", Status: xocsp.Unknown, FlipBit: -1, FlipSeed: "issuer-unknown"})
	}
	for _, seed := range seeds {
		body, _ := k.build(seed)
		for bit := 0; bit < len(body)*8; bit++ {
			c := seed
			c.FlipBit = bit
			judge(c)
			flips++
		}
	}
	reloads := c05Reload(chk, k)
	evals += reloads
	if len(samples) == 0 {
		samples = []string{c05Case{Signer: "stranger-bare", Status: xocsp.Good, FlipBit: -1}.String(), c05Case{Signer: "issuer", Status: xocsp.Revoked, FlipBit: 777, FlipSeed: "issuer-revoked"}.String()}
	}
	// all schedules (<= 2 preemptions) of two lookups at the same moment on one checker: certificates of two issuers
	// which name the same responder address and carry the same serial number - each gets the answer about itself
	srep := exploreInProcess(chk, "C05", ocspSharedResponderScenario("C05"), 2)
	fmt.Printf("  S %-40s execs=%d per-bound=%v outcomes=%v\n", srep.Scenario, srep.Executions, srep.PerBound, srep.Outcomes)
	cov := fw.Coverage{
		"schedule_scenario":   srep,
		"evaluations":         evals + srep.Executions,
		"distinct_nontrivial": evals - authN,
		"rule":                "signer (issuer, delegated responder with / without OCSPSigning EKU, authorised responder without embedded certificate, client's own certificate, stranger with / without embedded certificate, sibling CA, client certificates named like their issuer answering about themselves) x serial (this, other) x status (good, revoked, unknown); OCSP error statuses; every single-bit flip of an authentic good and an authentic revoked response. Each case = fresh checker, strict on, call, responder down, call again. Non-trivial = response not authentic by construction.",
		"samples":             samples,
		"bitflip_cases":       flips,
		"authentic_cases":     authN,
		"outcome_classes":     outcomes.Counts(),
		"exhaustive":          true,
	}
	return chk.Finish(cov)
}

func init() { registry["C05"] = RunC05 }

func hasOCSPSigning(c *x509.Certificate) bool {
	for _, e := range c.ExtKeyUsage {
		if e == x509.ExtKeyUsageOCSPSigning {
			return true
		}
	}
	return false
}
