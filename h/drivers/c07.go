package drivers

import (
	"bufio"
	"bytes"
	"crypto"
	"crypto/x509"
	"crypto/x509/pkix"
	"encoding/asn1"
	"encoding/hex"
	"encoding/json"
	"fmt"
	"github.com/gr33nbl00d/caddy-revocation-validator/crl/crlloader"
	"go.uber.org/zap"
	"math/big"
	"os"
	"os/exec"
	"path/filepath"
	"runtime"
	"sort"
	"strconv"
	"strings"
	"time"

	"github.com/gr33nbl00d/caddy-revocation-validator/core"
	"github.com/gr33nbl00d/caddy-revocation-validator/core/asn1parser"
	"github.com/gr33nbl00d/caddy-revocation-validator/crl/crlreader/extensionsupport"

	"verif/h/fw"
	"verif/h/world"
)

// A c07 case is (target, bytes, label). The case sequence is generated
// deterministically by c07Cases; workers take indices i mod n.

type c07Case struct {
	Target string // readcrl | aki | ski | generalname | rdn | issuer | download
	Data   []byte
	Label  string
	Lazy   bool // extend lazily (depth 2) when the parser asks for more bytes
}

// ---------------------------------------------------------------- token alphabet

func c07LengthForms(full bool) [][]byte {
	forms := [][]byte{{0x00}, {0x01}, {0x7f}, {0x80}, {0xff}}
	ns := []int{1, 2, 4, 8, 15}
	if full {
		ns = []int{1, 2, 3, 4, 5, 6, 7, 8, 9, 10, 11, 12, 13, 14, 15}
	}
	for _, n := range ns {
		mk := func(first, rest, last byte) []byte {
			b := []byte{0x80 | byte(n)}
			for i := 0; i < n; i++ {
				v := rest
				if i == 0 {
					v = first
				}
				if i == n-1 && n > 1 {
					v = last
				}
				b = append(b, v)
			}
			return b
		}
		forms = append(forms, mk(0, 0, 0), mk(0, 0, 1), mk(0x7f, 0xff, 0xff), mk(0xff, 0xff, 0xff), mk(0x80, 0, 0))
		if n == 2 {
			forms = append(forms, []byte{0x82, 0x01, 0x00}, []byte{0x82, 0x40, 0x01})
		}
		if n == 3 {
			forms = append(forms, []byte{0x83, 0x01, 0x40, 0x01}, []byte{0x83, 0x10, 0x00, 0x00})
		}
		if n == 4 {
			forms = append(forms, []byte{0x84, 0x00, 0x01, 0x40, 0x01}, []byte{0x84, 0x01, 0x00, 0x00, 0x00})
		}
	}
	return forms
}

var c07Tags = []byte{0x30, 0x31, 0x02, 0x03, 0x04, 0x05, 0x06, 0x0c, 0x17, 0x18, 0xa0, 0xa1, 0x80}

func c07Tokens(full bool) [][]byte {
	var toks [][]byte
	for _, t := range c07Tags {
		for _, l := range c07LengthForms(full) {
			toks = append(toks, append([]byte{t}, l...))
		}
	}
	toks = append(toks, []byte{0x00}, []byte{0xff})
	return toks
}

// derBoundaries returns the offsets at which a TLV header starts (all nesting
// levels of constructed elements) plus the header length at each.
func derBoundaries(der []byte) (offs []int, hdr []int) {
	var walk func(base int, b []byte, depth int)
	walk = func(base int, b []byte, depth int) {
		pos := 0
		for pos < len(b) && depth < 8 {
			if pos+2 > len(b) {
				return
			}
			tag := b[pos]
			l := int(b[pos+1])
			h := 2
			if l&0x80 != 0 {
				n := l & 0x7f
				if n == 0 || n > 4 || pos+2+n > len(b) {
					return
				}
				l = 0
				for i := 0; i < n; i++ {
					l = l<<8 | int(b[pos+2+i])
				}
				h = 2 + n
			}
			if pos+h+l > len(b) {
				return
			}
			offs = append(offs, base+pos)
			hdr = append(hdr, h)
			if tag&0x20 != 0 {
				walk(base+pos+h, b[pos+h:pos+h+l], depth+1)
			}
			pos += h + l
		}
	}
	walk(0, der, 0)
	return
}

// ---------------------------------------------------------------- case generation

func c07Seeds() map[string][]byte {
	p := world.Std()
	seeds := map[string][]byte{}
	s1 := world.SimpleCRL(p.CA, 5, 101, 102, 103)
	s1.Entries[1].Exts = []pkix.Extension{world.ReasonExt(1)}
	seeds["v2-ec"] = s1.DER()
	s2 := world.SimpleCRL(p.CARSA, 6, 7, 8)
	seeds["v2-rsa"] = s2.DER()
	s3 := world.SimpleCRL(p.CA, 0)
	s3.Version, s3.Exts = 0, nil
	s3.Entries = []world.RevEntry{{Serial: big.NewInt(77), Date: s3.ThisUpdate}}
	seeds["v1"] = s3.DER()
	s4 := world.SimpleCRL(p.CA, 9)
	seeds["v2-empty"] = s4.DER()
	return seeds
}

func c07Cases(tier string, emit func(c c07Case)) {
	// the loader in front of the reader: Content-Length is a length field too
	for _, body := range [][]byte{[]byte("sixteen bytes!!!\n"), c07Seeds()["v2-ec"], {}} {
		for _, announced := range []int64{int64(len(body)), int64(len(body)) - 1, int64(len(body)) + 1000, 1 << 31, 3 << 30, 1 << 40, 1 << 62, 1<<63 - 1, -5} {
			if announced == 0 {
				continue
			}
			emit(c07Case{"download", body, fmt.Sprintf("download body=%d announced=%d", len(body), announced), false})
		}
	}
	full := tier == "thorough"
	seeds := c07Seeds()
	var names []string
	for n := range seeds {
		names = append(names, n)
	}
	sort.Strings(names)
	toks := c07Tokens(true)
	sub := c07Tokens(false)
	cutToks := toks
	if !full {
		cutToks = sub
	}
	// 1. truncations of every seed, DER and PEM (LF and CRLF)
	for _, n := range names {
		der := seeds[n]
		for i := 0; i <= len(der); i++ {
			emit(c07Case{"readcrl", der[:i], fmt.Sprintf("trunc %s DER @%d", n, i), false})
		}
		for _, crlf := range []bool{false, true} {
			pm := world.PEM(der, crlf)
			for i := 0; i <= len(pm); i++ {
				emit(c07Case{"readcrl", pm[:i], fmt.Sprintf("trunc %s PEM crlf=%v @%d", n, crlf, i), false})
			}
		}
	}
	// 2. byte substitutions
	for _, n := range names {
		if !full && n != "v2-ec" && n != "v1" {
			continue
		}
		der := seeds[n]
		for i := 0; i < len(der); i++ {
			if full {
				for v := 0; v < 256; v++ {
					if byte(v) == der[i] {
						continue
					}
					d := append([]byte{}, der...)
					d[i] = byte(v)
					emit(c07Case{"readcrl", d, fmt.Sprintf("subst %s @%d=%02x", n, i, v), false})
				}
			} else {
				for bit := 0; bit < 8; bit++ {
					d := append([]byte{}, der...)
					d[i] ^= 1 << bit
					emit(c07Case{"readcrl", d, fmt.Sprintf("flip %s @%d bit%d", n, i, bit), false})
				}
				for _, v := range []byte{0x00, 0x80, 0x84, 0x88, 0x8f, 0xff} {
					if v == der[i] {
						continue
					}
					d := append([]byte{}, der...)
					d[i] = v
					emit(c07Case{"readcrl", d, fmt.Sprintf("subst %s @%d=%02x", n, i, v), false})
				}
			}
		}
	}
	// 3. token DFS at every TLV boundary: (a) header replaced by the token, rest kept;
	//    (b) prefix + token then EOF, lazily extended by a second token while the parser asks for more
	for _, n := range names {
		if !full && n != "v2-ec" && n != "v1" {
			continue
		}
		der := seeds[n]
		offs, hdr := derBoundaries(der)
		for k, off := range offs {
			for ti, t := range toks {
				d := append(append(append([]byte{}, der[:off]...), t...), der[off+hdr[k]:]...)
				emit(c07Case{"readcrl", d, fmt.Sprintf("hdr %s @%d tok#%d=%x", n, off, ti, t), false})
			}
			for ti, t := range cutToks {
				d2 := append(append([]byte{}, der[:off]...), t...)
				emit(c07Case{"readcrl", d2, fmt.Sprintf("cut %s @%d tok#%d=%x", n, off, ti, t), true})
			}
		}
		// the same header mutations inside PEM armour (one seed)
		if n == "v2-ec" {
			for k, off := range offs {
				for ti, t := range sub {
					d := append(append(append([]byte{}, der[:off]...), t...), der[off+hdr[k]:]...)
					emit(c07Case{"readcrl", world.PEM(d, false), fmt.Sprintf("hdr-pem %s @%d tok#%d=%x", n, off, ti, t), false})
				}
			}
		}
	}
	// 4. PEM framing alphabet
	der := seeds["v2-ec"]
	pm := string(world.PEM(der, false))
	lines := strings.Split(strings.TrimRight(pm, "\n"), "\n")
	body := strings.Join(lines[1:len(lines)-1], "")
	frames := map[string]string{
		"no-end-line":          strings.Join(lines[:len(lines)-1], "\n") + "\n",
		"armour-only":          lines[0] + "\n" + lines[len(lines)-1] + "\n",
		"begin-only":           lines[0] + "\n",
		"begin-no-newline":     lines[0],
		"five-dashes":          "-----",
		"ten-dashes":           "----------\n",
		"empty":                "",
		"only-newlines":        "\n\n\n",
		"line65":               lines[0] + "\n" + rewrap(body, 65) + lines[len(lines)-1] + "\n",
		"line66":               lines[0] + "\n" + rewrap(body, 66) + lines[len(lines)-1] + "\n",
		"line67":               lines[0] + "\n" + rewrap(body, 67) + lines[len(lines)-1] + "\n",
		"line1000":             lines[0] + "\n" + rewrap(body, 1000) + lines[len(lines)-1] + "\n",
		"one-line":             lines[0] + "\n" + body + "\n" + lines[len(lines)-1] + "\n",
		"no-final-newline":     strings.TrimRight(pm, "\n"),
		"cr-only":              strings.ReplaceAll(pm, "\n", "\r"),
		"mixed-crlf":           strings.Replace(pm, "\n", "\r\n", 3),
		"blank-lines":          strings.ReplaceAll(pm, "\n", "\n\n"),
		"leading-blank":        "\n" + pm,
		"leading-spaces":       "   " + pm,
		"garbage-in-body":      lines[0] + "\n!!!!" + rewrap(body, 64) + lines[len(lines)-1] + "\n",
		"double-begin":         lines[0] + "\n" + pm,
		"nul-bytes":            lines[0] + "\n\x00\x00\x00\x00\n" + lines[len(lines)-1] + "\n",
		"huge-header-line":     "-----BEGIN " + strings.Repeat("A", 100000) + "-----\n" + rewrap(body, 64) + lines[len(lines)-1] + "\n",
		"body-1MiB-no-newline": lines[0] + "\n" + strings.Repeat("A", 1<<20),
		// a complete list followed by something else than a well-formed END line
		"end-line-four-dashes":   strings.Join(lines[:len(lines)-1], "\n") + "\n-----END X509 CRL----\n",
		"end-line-no-dashes":     strings.Join(lines[:len(lines)-1], "\n") + "\nEND X509 CRL\n",
		"end-line-lowercase":     strings.Join(lines[:len(lines)-1], "\n") + "\n-----end x509 crl-----\n",
		"text-after-end":         pm + "this list was issued by the verif test CA\n",
		"base64-after-end":       pm + "QUJDRA==\n",
		"binary-after-end":       pm + "\x00\x01\x02\xff\xfe\n",
		"second-list-after-end":  pm + pm,
		"text-in-front-of-begin": "Certificate Revocation List (CRL):\n    Version 2 (0x1)\n" + pm,
		"der-followed-by-text":   string(der) + "trailing text\n",
		"der-followed-by-der":    string(der) + string(der),
		// very many lines of one kind in a row (whatever the reader does per line it must not pile up: stack, memory)
		"4M-armour-lines": lines[0] + "\n" + strings.Repeat("----------\n", 4<<20) + rewrap(body, 64) + lines[len(lines)-1] + "\n",
		"4M-begin-lines":  strings.Repeat(lines[0]+"\n", 1<<20) + rewrap(body, 64) + lines[len(lines)-1] + "\n",
		"4M-blank-lines":  lines[0] + "\n" + strings.Repeat("\n", 4<<20) + rewrap(body, 64) + lines[len(lines)-1] + "\n",
	}
	var fnames []string
	for k := range frames {
		fnames = append(fnames, k)
	}
	sort.Strings(fnames)
	for _, k := range fnames {
		emit(c07Case{"readcrl", []byte(frames[k]), "pem-frame " + k, false})
	}
	// 5. hostile key identifiers, general names and RDN bytes reaching the chain matcher
	small := c07Tokens(false)
	for ti, t := range small {
		emit(c07Case{"aki", t, fmt.Sprintf("aki tok#%d=%x", ti, t), false})
		emit(c07Case{"aki", append([]byte{0x30, byte(len(t))}, t...), fmt.Sprintf("aki seq(tok#%d=%x)", ti, t), false})
		emit(c07Case{"aki", append([]byte{0x30, byte(len(t) + 2), 0x80, 0x00}, t...), fmt.Sprintf("aki seq(keyid,tok#%d=%x)", ti, t), false})
		emit(c07Case{"aki", append(append([]byte{0x30, byte(len(t) + 5), 0xa1, byte(len(t))}, t...), 0x82, 0x01, 0x05), fmt.Sprintf("aki issuer(tok#%d=%x)+serial", ti, t), false})
		emit(c07Case{"aki", append(append([]byte{0x30, byte(len(t) + 7), 0xa1, byte(len(t) + 2), 0xa4, byte(len(t))}, t...), 0x82, 0x01, 0x02), fmt.Sprintf("aki dirname(tok#%d=%x)+serial", ti, t), false})
		emit(c07Case{"ski", t, fmt.Sprintf("ski tok#%d=%x", ti, t), false})
		emit(c07Case{"generalname", t, fmt.Sprintf("generalname tok#%d=%x", ti, t), false})
		emit(c07Case{"generalname", append([]byte{0xa4, byte(len(t))}, t...), fmt.Sprintf("generalname a4(tok#%d=%x)", ti, t), false})
		emit(c07Case{"rdn", t, fmt.Sprintf("rdn tok#%d=%x", ti, t), false})
		emit(c07Case{"rdn", append([]byte{0x30, byte(len(t))}, t...), fmt.Sprintf("rdn seq(tok#%d=%x)", ti, t), false})
	}
	// 6. signature algorithm identifiers the validator does not implement, as outer and / or inner algorithm, with and
	//    without NULL parameters (zero signature value: refusing needs no key)
	p := world.Std()
	for _, oid := range world.OtherAlgOIDs {
		for _, noNull := range []bool{false, true} {
			other := world.SigAlg{Name: oid.String(), OID: oid, Hash: crypto.SHA256, NoNullParams: noNull}
			for _, where := range []string{"both", "outer", "inner"} {
				s := world.SimpleCRL(p.CA, 5, 101, 102)
				s.Signer = nil
				ec := world.SHA256EC
				switch where {
				case "both":
					s.Alg = other
				case "outer":
					s.Alg, s.InnerAlg = other, &ec
				case "inner":
					s.Alg, s.InnerAlg = ec, &other
				}
				emit(c07Case{"readcrl", s.DER(), fmt.Sprintf("algorithm %s (%s, null-params=%v)", oid, where, !noNull), false})
			}
		}
	}
	// 7. CRL issuer names which mirror the shape and attribute types of a chain certificate's subject, every attribute
	//    value re-typed (a name is attacker-chosen bytes: values need not be strings)
	for _, id := range []*world.Ident{p.CA, p.Root, p.OtherCA} {
		var seq pkix.RDNSequence
		if _, err := asn1.Unmarshal(id.Cert.RawSubject, &seq); err != nil {
			continue
		}
		for ri := range seq {
			for ai := range seq[ri] {
				text, _ := seq[ri][ai].Value.(string)
				values := map[string][]byte{
					"octet-string": append([]byte{0x04, byte(len(text))}, text...), "integer": {0x02, 0x01, 0x05}, "big-integer": append([]byte{0x02, byte(len(text))}, text...),
					"null": {0x05, 0x00}, "boolean": {0x01, 0x01, 0xff}, "bit-string": {0x03, 0x02, 0x00, 0x55}, "sequence": {0x30, 0x03, 0x0c, 0x01, 0x41}, "set": {0x31, 0x00},
					"utctime": append([]byte{0x17, 0x0d}, "260102030405Z"...), "oid": {0x06, 0x03, 0x55, 0x04, 0x03}, "enumerated": {0x0a, 0x01, 0x01}, "context-0": {0x80, 0x01, 0x41},
					"bmpstring": {0x1e, 0x04, 0x00, 0x41, 0x00, 0x42}, "teletex-latin1": {0x14, 0x03, 0x4d, 0xfc, 0x6c}, "universalstring": {0x1c, 0x04, 0x00, 0x00, 0x00, 0x41}, "numericstring": {0x12, 0x02, 0x31, 0x32}, "empty-utf8": {0x0c, 0x00},
				}
				var names []string
				for k := range values {
					names = append(names, k)
				}
				sort.Strings(names)
				for _, vn := range names {
					var rdns []byte
					for rj := range seq {
						var set []byte
						for aj := range seq[rj] {
							oid, _ := asn1.Marshal(seq[rj][aj].Type)
							var val []byte
							if rj == ri && aj == ai {
								val = values[vn]
							} else {
								val, _ = asn1.Marshal(seq[rj][aj].Value)
							}
							atv := append(append([]byte{}, oid...), val...)
							set = append(set, append([]byte{0x30, byte(len(atv))}, atv...)...)
						}
						rdns = append(rdns, append([]byte{0x31, byte(len(set))}, set...)...)
					}
					emit(c07Case{"issuer", append([]byte{0x30, byte(len(rdns))}, rdns...), fmt.Sprintf("issuer like %q rdn#%d value=%s", id.Cert.Subject.CommonName, ri, vn), false})
				}
			}
		}
	}
	// 7b. CRL issuer names which agree with a chain certificate's subject up to some RDN and then have a SET with
	//     fewer attributes (down to none), or more, than the certificate's; also against a certificate whose subject
	//     has an RDN with two attributes
	for _, id := range []*world.Ident{p.CA, p.Root, p.OtherCA, c07MultiValuedCA()} {
		var seq pkix.RDNSequence
		if _, err := asn1.Unmarshal(id.Cert.RawSubject, &seq); err != nil {
			continue
		}
		encode := func(sets [][]pkix.AttributeTypeAndValue) []byte {
			var rdns []byte
			for _, set := range sets {
				var sb []byte
				for _, a := range set {
					atv, _ := asn1.Marshal(a)
					sb = append(sb, atv...)
				}
				rdns = append(rdns, append([]byte{0x31, byte(len(sb))}, sb...)...)
			}
			return append([]byte{0x30, byte(len(rdns))}, rdns...)
		}
		for ri := range seq {
			for keep := 0; keep <= len(seq[ri])+1; keep++ {
				if keep == len(seq[ri]) {
					continue
				}
				var sets [][]pkix.AttributeTypeAndValue
				for rj := range seq {
					set := append([]pkix.AttributeTypeAndValue{}, seq[rj]...)
					if rj == ri {
						if keep < len(set) {
							set = set[:keep]
						} else {
							set = append(set, pkix.AttributeTypeAndValue{Type: []int{2, 5, 4, 11}, Value: "extra"})
						}
					}
					sets = append(sets, set)
				}
				emit(c07Case{"issuer", encode(sets), fmt.Sprintf("issuer like %q rdn#%d with %d of %d attributes", id.Cert.Subject.CommonName, ri, keep, len(seq[ri])), false})
			}
		}
	}
	// deep nesting of context tags for GetGeneralNameType (recursion)
	for _, depth := range []int{10, 100, 1000, 2000, 5000} {
		var b []byte
		for i := 0; i < depth; i++ {
			b = append(b, 0xa0, 0x7f)
		}
		emit(c07Case{"generalname", b, fmt.Sprintf("generalname nested-context x%d", depth), false})
	}
}

// c07MultiValuedCA: a CA whose subject has an RDN with two attributes (OU + CN in one SET)
func c07MultiValuedCA() *world.Ident {
	raw, err := asn1.Marshal(pkix.RDNSequence{
		{{Type: []int{2, 5, 4, 10}, Value: "verif"}},
		{{Type: []int{2, 5, 4, 11}, Value: "unit"}, {Type: []int{2, 5, 4, 3}, Value: "multi valued CA"}},
	})
	if err != nil {
		panic(err)
	}
	return world.Issue(nil, world.CertOpt{CN: "multi valued CA", RawSubject: raw, IsCA: true, KeyKind: "ec", KeyIdx: 4, Serial: big.NewInt(91)})
}

func rewrap(body string, n int) string {
	var sb strings.Builder
	for len(body) > n {
		sb.WriteString(body[:n])
		sb.WriteByte('\n')
		body = body[n:]
	}
	sb.WriteString(body)
	sb.WriteByte('\n')
	return sb.String()
}

// ---------------------------------------------------------------- running one case

type c07Outcome struct {
	Class     string // "", panic, alloc, (hang / fatal are detected by the parent)
	Detail    string
	Result    string // short classification of the normal result for outcome statistics
	Alloc     uint64
	WantsMore bool
}

var c07Dir string

// The reader copies partial reads through a recursion that re-allocates the remaining size (at most 80 KiB)
// per partial read, so legitimate allocation is up to ~80 KiB per 48 byte PEM line: the bound is generous but
// still orders of magnitude below what an unbacked length field costs.
func c07AllocBound(n int) uint64 { return 1<<20 + 2048*uint64(n) }

func c07Run(c c07Case) (out c07Outcome) {
	var m0, m1 runtime.MemStats
	runtime.ReadMemStats(&m0)
	func() {
		defer func() {
			if r := recover(); r != nil {
				buf := make([]byte, 4096)
				buf = buf[:runtime.Stack(buf, false)]
				out.Class = "panic"
				out.Detail = fmt.Sprintf("%v @ %s", r, c07PanicSite(string(buf)))
			}
		}()
		switch c.Target {
		case "readcrl":
			_, err, pan := readCRLBytes(c07Dir, c.Data, &recProc{})
			if pan != "" {
				panic(pan)
			}
			if err != nil {
				out.Result = "err"
				if strings.Contains(err.Error(), "end of file reached while still expecting") || strings.Contains(err.Error(), "EOF") {
					out.WantsMore = true
					out.Result = "err-eof"
				}
			} else {
				out.Result = "ok"
			}
		case "aki":
			p := world.Std()
			exts := []pkix.Extension{{Id: asn1.ObjectIdentifier{2, 5, 29, 35}, Value: c.Data}}
			chains := core.NewCertificateChains(world.Chain(p.Stranger, p.CA, p.Root), []*x509.Certificate{p.OtherCA.Cert})
			iss, _ := asn1parser.ParseSubjectRDNSequence(p.CA.Cert)
			_, err := core.FindCertificateIssuerCandidates(iss, &exts, x509.ECDSA, chains)
			out.Result = errClass(err)
		case "ski":
			// candidate certificate whose SKI extension value is hostile
			p := world.Std()
			evil := *p.CA.Cert
			evil.Extensions = nil
			for _, e := range p.CA.Cert.Extensions {
				if e.Id.Equal(asn1.ObjectIdentifier{2, 5, 29, 14}) {
					e.Value = c.Data
				}
				evil.Extensions = append(evil.Extensions, e)
			}
			exts := []pkix.Extension{world.AKIExt(p.CA.Cert.SubjectKeyId, nil, nil)}
			chains := core.NewCertificateChains([][]*x509.Certificate{{p.Stranger.Cert, &evil}}, nil)
			iss, _ := asn1parser.ParseSubjectRDNSequence(p.CA.Cert)
			_, err := core.FindCertificateIssuerCandidates(iss, &exts, x509.ECDSA, chains)
			out.Result = errClass(err)
		case "issuer":
			// a CRL issuer name (attacker-chosen bytes) which the reader accepted, matched by name against the certificates
			// of the chain and the trusted signers (no authority key identifier in the CRL)
			iss, err := asn1parser.ParseRDNSequence(c.Data)
			if err != nil {
				out.Result = "err"
				break
			}
			p := world.Std()
			chains := core.NewCertificateChains(world.Chain(p.Stranger, p.CA, p.Root), []*x509.Certificate{p.OtherCA.Cert, p.CARSA.Cert})
			for _, alg := range []x509.PublicKeyAlgorithm{x509.ECDSA, x509.RSA} {
				_, err = core.FindCertificateIssuerCandidates(iss, &[]pkix.Extension{}, alg, chains)
			}
			out.Result = errClass(err)
		case "download":
			// the URL loader against an origin whose Content-Length header announces something else than it sends
			var announced int64
			fmt.Sscanf(c.Label[strings.Index(c.Label, "announced=")+len("announced="):], "%d", &announced)
			net := world.NewNet()
			const u = "http://crl.test/lying-length.crl"
			net.Routes[u] = &world.Behaviour{Label: "lying", Body: c.Data, ContentLength: announced}
			l := crlloader.URLLoader{UrlString: u, Logger: zap.NewNop()}
			f := filepath.Join(c07Dir, "download.tmp")
			err := l.LoadCRL(f)
			if got, _ := os.ReadFile(f); err == nil && !bytes.Equal(got, c.Data) {
				err = fmt.Errorf("downloaded file differs from what the origin sent")
				out.Class, out.Detail = "wrong-file", err.Error()
			}
			os.Remove(f)
			out.Result = errClass(err)
		case "generalname":
			g := extensionsupport.GeneralName{Raw: c.Data}
			_, err := g.GetGeneralNameType()
			out.Result = errClass(err)
		case "rdn":
			_, err := asn1parser.ParseRDNSequence(c.Data)
			out.Result = errClass(err)
			r := bufio.NewReader(bytes.NewReader(c.Data))
			asn1parser.ReadBigInt(r)
			r = bufio.NewReader(bytes.NewReader(c.Data))
			asn1parser.ParseOctetString(r)
			r = bufio.NewReader(bytes.NewReader(c.Data))
			asn1parser.ParseBitString(r)
			r = bufio.NewReader(bytes.NewReader(c.Data))
			asn1parser.ReadUtcTime(r)
		}
	}()
	runtime.ReadMemStats(&m1)
	out.Alloc = m1.TotalAlloc - m0.TotalAlloc
	if out.Class == "" && out.Alloc > c07AllocBound(len(c.Data)) {
		out.Class = "alloc"
		out.Detail = fmt.Sprintf("allocated %d bytes for a %d byte input (bound %d)", out.Alloc, len(c.Data), c07AllocBound(len(c.Data)))
	}
	return
}

func errClass(err error) string {
	if err != nil {
		return "err"
	}
	return "ok"
}

func c07PanicSite(stack string) string {
	for _, l := range strings.Split(stack, "\n") {
		if strings.HasPrefix(l, "github.com/gr33nbl00d/caddy-revocation-validator") && !strings.Contains(l, "readCRLBytes") {
			j := strings.LastIndex(l, "(")
			if j > 0 {
				l = l[:j]
			}
			return strings.TrimPrefix(l, "github.com/gr33nbl00d/caddy-revocation-validator/")
		}
	}
	return "?"
}

// c07Feature reduces a case label to the stable feature that identifies the
// defect class: for allocation / panic findings that is the *function that
// fails* plus the length-form class of the offending token, not the offset.
func c07Sig(c c07Case, o c07Outcome) string {
	switch o.Class {
	case "panic":
		d := o.Detail
		if i := strings.Index(d, " @ "); i >= 0 {
			msg, site := d[:i], d[i+3:]
			// normalise numbers in runtime messages
			msg = normaliseNumbers(msg)
			return "C07|panic|" + c.Target + "|" + site + "|" + msg
		}
		return "C07|panic|" + c.Target + "|" + normaliseNumbers(d)
	case "alloc":
		return "C07|alloc|" + c.Target + "|" + c07TokClass(c.Label)
	}
	return "C07|" + o.Class + "|" + c.Target + "|" + c07TokClass(c.Label)
}

func normaliseNumbers(s string) string {
	var sb strings.Builder
	inNum := false
	for _, r := range s {
		if r >= '0' && r <= '9' {
			if !inNum {
				sb.WriteByte('#')
				inNum = true
			}
			continue
		}
		inNum = false
		sb.WriteRune(r)
	}
	return sb.String()
}

// c07TokClass extracts "tag/lenform" from labels like "hdr v2-ec @12 tok#55=1784..."
func c07TokClass(label string) string {
	if i := strings.LastIndex(label, "="); i >= 0 && strings.Contains(label, "tok#") {
		hx := label[i+1:]
		hx = strings.TrimRight(hx, ")+serial")
		b, err := hex.DecodeString(hx)
		if err == nil && len(b) >= 2 {
			return fmt.Sprintf("kind=%s tag=%02x lenform=%02x", strings.Fields(label)[0], b[0], b[1])
		}
	}
	f := strings.Fields(label)
	if len(f) >= 2 {
		return f[0] + " " + f[1]
	}
	return label
}

// ---------------------------------------------------------------- worker / parent

type c07WorkerOut struct {
	Evaluations int               `json:"evaluations"`
	Lazy2       int               `json:"lazy_depth2_cases"`
	Outcomes    map[string]int    `json:"outcomes"`
	Violations  []workerViolation `json:"violations"`
	MaxAlloc    uint64            `json:"max_alloc"`
	MaxAllocLbl string            `json:"max_alloc_label"`
	Next        int               `json:"next"`
}

func c07Worker(tier string, shard, nshards, resume int, progress string) int {
	c07Dir = FreshDir("c07")
	out := c07WorkerOut{Outcomes: map[string]int{}}
	viol := map[string]*workerViolation{}
	add := func(c c07Case, o c07Outcome) {
		sig := c07Sig(c, o)
		if v, ok := viol[sig]; ok {
			v.Count++
			return
		}
		viol[sig] = &workerViolation{Sig: sig, What: fmt.Sprintf("%s: %s [case: %s, %d bytes]", o.Class, o.Detail, c.Label, len(c.Data)),
			Replay: map[string]interface{}{"driver": "C07", "target": c.Target, "label": c.Label, "data_hex": hex.EncodeToString(clip(c.Data, 4096))}, Count: 1}
	}
	pf, _ := os.OpenFile(progress, os.O_CREATE|os.O_WRONLY, 0644)
	sub := c07Tokens(false)
	if tier != "thorough" {
		// 24-token core for the second level in the quick tier
		sub = nil
		for _, tag := range []byte{0x30, 0x02, 0x17, 0x03} {
			for _, l := range [][]byte{{0x00}, {0x01}, {0x84, 0x7f, 0xff, 0xff, 0xff}, {0x84, 0x00, 0x01, 0x40, 0x01}, {0x88, 0xff, 0xff, 0xff, 0xff, 0xff, 0xff, 0xff, 0xff}, {0x8f, 0x7f, 0xff, 0xff, 0xff, 0xff, 0xff, 0xff, 0xff, 0xff, 0xff, 0xff, 0xff, 0xff, 0xff, 0xff}} {
				sub = append(sub, append([]byte{tag}, l...))
			}
		}
	}
	idx := 0
	run := func(c c07Case) c07Outcome {
		if pf != nil {
			rec := fmt.Sprintf("%-10d %s %s %s\n", idx, c.Target, hex.EncodeToString(clip(c.Data, 300)), c.Label)
			if len(rec) > 900 {
				rec = rec[:900] + "\n"
			}
			pf.WriteAt([]byte(rec+strings.Repeat(" ", 900-len(rec)+1)), 0)
		}
		o := c07Run(c)
		out.Evaluations++
		if o.Alloc > out.MaxAlloc {
			out.MaxAlloc, out.MaxAllocLbl = o.Alloc, c.Label
		}
		if o.Class != "" {
			out.Outcomes[o.Class]++
			add(c, o)
		} else {
			out.Outcomes[c.Target+":"+o.Result]++
		}
		return o
	}
	c07Cases(tier, func(c c07Case) {
		my := idx%nshards == shard && idx >= resume
		if my {
			o := run(c)
			if c.Lazy && o.WantsMore && o.Class == "" {
				for ti, t := range sub {
					c2 := c07Case{c.Target, append(append([]byte{}, c.Data...), t...), fmt.Sprintf("%s +tok#%d=%x", c.Label, ti, t), false}
					run(c2)
					out.Lazy2++
				}
			}
		}
		idx++
	})
	out.Next = idx
	var sigs []string
	for s := range viol {
		sigs = append(sigs, s)
	}
	sort.Strings(sigs)
	for _, s := range sigs {
		out.Violations = append(out.Violations, *viol[s])
	}
	b, _ := json.Marshal(out)
	fmt.Println(string(b))
	return 0
}

func clip(b []byte, n int) []byte {
	if len(b) > n {
		return b[:n]
	}
	return b
}

// procCPUSeconds: user + system CPU time of a process so far (from /proc/<pid>/stat; 0 if unreadable).
func procCPUSeconds(pid int) float64 {
	b, err := os.ReadFile(fmt.Sprintf("/proc/%d/stat", pid))
	if err != nil {
		return 0
	}
	s := string(b)
	if i := strings.LastIndex(s, ")"); i >= 0 {
		s = s[i+1:]
	}
	f := strings.Fields(s)
	if len(f) < 13 {
		return 0
	}
	ut, _ := strconv.ParseFloat(f[11], 64)
	st, _ := strconv.ParseFloat(f[12], 64)
	return (ut + st) / 100
}

// RunC07 is the entry point of the C07 check.
func RunC07(tier string, args []string) int {
	if len(args) > 0 && args[0] == "worker" {
		atoi := func(s string) int { n, _ := strconv.Atoi(s); return n }
		return c07Worker(args[1], atoi(args[2]), atoi(args[3]), atoi(args[4]), args[5])
	}
	chk := fw.NewCheck("C07", tier, "exploration")
	chk.Assumptions = []string{
		"allocation monitor: runtime.MemStats.TotalAlloc delta per case <= 1 MiB + 2048 x input length",
		"workers run under `ulimit -v 6 GiB`; a worker that dies (fatal error: out of memory, stack overflow) or burns 15 s of CPU on one case (or sits blocked for 5 minutes) is attributed to the case recorded in its progress file",
		"hostile continuations are explored to depth 1 over the full token alphabet and depth 2 over the sub-alphabet, lazily (only where the parser asked for more bytes)",
	}
	nshards := 16
	total := c07WorkerOut{Outcomes: map[string]int{}}
	type wres struct {
		out   c07WorkerOut
		fatal []string
	}
	results := make([]wres, nshards)
	done := make(chan int, nshards)
	for i := 0; i < nshards; i++ {
		go func(i int) {
			defer func() { done <- i }()
			resume := 0
			for attempt := 0; attempt < 40; attempt++ {
				progress := filepath.Join(Scratch(), fmt.Sprintf("c07.%d.progress", i))
				os.Remove(progress)
				cmdline := fmt.Sprintf("ulimit -v 6291456; exec %q C07 --tier worker -- worker %s %d %d %d %q", os.Args[0], tier, i, nshards, resume, progress)
				cmd := exec.Command("/bin/bash", "-c", cmdline)
				cmd.Env = append(os.Environ(), "GOMAXPROCS=2")
				var stdout, stderr bytes.Buffer
				cmd.Stdout, cmd.Stderr = &stdout, &stderr
				if err := cmd.Start(); err != nil {
					results[i].fatal = append(results[i].fatal, "cannot start worker: "+err.Error())
					return
				}
				exited := make(chan error, 1)
				go func() { exited <- cmd.Wait() }()
				var werr error
				hang := false
				// no progress is judged by the CPU time the worker has burnt on the current case (a loop which does not
				// consume input spins), not by the wall clock: a starved worker on a busy machine is not a hang. A worker
				// which is blocked without using CPU is given 5 minutes.
				last, lastChange, cpuAtChange := "", time.Now(), procCPUSeconds(cmd.Process.Pid)
			wait:
				for {
					select {
					case werr = <-exited:
						break wait
					case <-time.After(2 * time.Second):
						b, _ := os.ReadFile(progress)
						cur := string(clip(b, 10))
						cpu := procCPUSeconds(cmd.Process.Pid)
						if cur != last {
							last, lastChange, cpuAtChange = cur, time.Now(), cpu
						} else if cpu-cpuAtChange > 15 || time.Since(lastChange) > 5*time.Minute {
							hang = true
							cmd.Process.Kill()
							werr = <-exited
							break wait
						}
					}
				}
				lines := strings.Split(strings.TrimSpace(stdout.String()), "\n")
				var o c07WorkerOut
				if werr == nil && json.Unmarshal([]byte(lines[len(lines)-1]), &o) == nil {
					mergeC07(&results[i].out, &o)
					return
				}
				// the worker died: attribute to the case in the progress file and resume after it
				b, _ := os.ReadFile(progress)
				rec := strings.TrimSpace(string(b))
				f := strings.Fields(rec)
				if len(f) < 3 {
					results[i].fatal = append(results[i].fatal, fmt.Sprintf("worker %d died without progress record: %v %s", i, werr, firstLines(stderr.String(), 5)))
					return
				}
				k, _ := strconv.Atoi(f[0])
				class := "fatal"
				if hang {
					class = "hang"
				}
				msg := firstLines(stderr.String(), 2)
				label := strings.Join(f[3:], " ")
				c := c07Case{Target: f[1], Label: label}
				results[i].out.Violations = append(results[i].out.Violations, workerViolation{
					Sig:    "C07|" + class + "|" + f[1] + "|" + c07TokClass(label) + "|" + normaliseNumbers(firstLines(msg, 1)),
					What:   fmt.Sprintf("%s: worker process died/hung on case [%s]: %s", class, label, msg),
					Replay: map[string]interface{}{"driver": "C07", "target": c.Target, "label": label, "data_hex": f[2]},
					Count:  1,
				})
				results[i].out.Evaluations++
				resume = k + 1
			}
		}(i)
	}
	for i := 0; i < nshards; i++ {
		<-done
	}
	for i := range results {
		for _, f := range results[i].fatal {
			fmt.Fprintln(os.Stderr, "harness error:", f)
			return 2
		}
		mergeC07(&total, &results[i].out)
	}
	for _, v := range total.Violations {
		for k := 0; k < v.Count; k++ {
			chk.Violation(v.Sig, v.What, v.Replay)
		}
	}
	nontrivial := 0
	for k, n := range total.Outcomes {
		if !strings.HasSuffix(k, ":ok") {
			nontrivial += n
		}
	}
	cov := fw.Coverage{
		"evaluations":         total.Evaluations,
		"distinct_nontrivial": nontrivial,
		"rule":                "every truncation of 4 seeds (DER, PEM-LF, PEM-CRLF); single-bit flips + 6 hostile values per byte (quick) / all 255 substitutions per byte (thorough); at every TLV boundary of the seeds (all nesting levels) every token of tag(13) x length-form alphabet (0x00,0x01,0x7f,0x80,0xff and every long form 0x81..0x8f with zero / one / 7fff.. / ffff.. / 8000.. payloads) both replacing the header and as a cut continuation, lazily extended by a second token where the parser asked for more bytes; PEM framing alphabet; hostile AKI / SKI / GeneralName / RDN bytes. Cases are distinct by construction; non-trivial = the parser did not simply accept the input.",
		"samples":             []string{"trunc v2-ec DER @57", "hdr v2-ec @4 tok=17847fffffff (thisUpdate header claims 2 GiB)", "pem-frame line1000", "aki dirname(tok=3084ffffffff)+serial"},
		"outcome_classes":     total.Outcomes,
		"lazy_depth2_cases":   total.Lazy2,
		"max_alloc_bytes":     total.MaxAlloc,
		"max_alloc_case":      total.MaxAllocLbl,
		"exhaustive":          true,
	}
	return chk.Finish(cov)
}

func mergeC07(a, b *c07WorkerOut) {
	a.Evaluations += b.Evaluations
	a.Lazy2 += b.Lazy2
	if a.Outcomes == nil {
		a.Outcomes = map[string]int{}
	}
	for k, n := range b.Outcomes {
		a.Outcomes[k] += n
	}
	a.Violations = append(a.Violations, b.Violations...)
	if b.MaxAlloc > a.MaxAlloc {
		a.MaxAlloc, a.MaxAllocLbl = b.MaxAlloc, b.MaxAllocLbl
	}
}

func init() { registry["C07"] = RunC07 }
