package drivers

import (
	"bytes"
	"crypto/sha1"
	"crypto/x509/pkix"
	"encoding/asn1"
	"encoding/json"
	"fmt"
	"math/big"
	"os"
	"strconv"
	"time"

	xocsp "golang.org/x/crypto/ocsp"

	"github.com/gr33nbl00d/caddy-revocation-validator/config"
	"github.com/gr33nbl00d/caddy-revocation-validator/core"

	"verif/h/fw"
	"verif/h/rt/vleveldb"
	"verif/h/rt/vsched"
	"verif/h/world"
)

const (
	urlA = "http://crl.test/a.crl"
	urlB = "http://crl.test/b.crl"
)

type c13cast struct {
	p          *world.PKI
	L1, L2, L3 *world.Ident // L1 serial 101, L2 serial 102 (CDP a), L3 serial 103 (CDP b)
	v1, v2     []byte       // CRL a: v1 lists {101,105}, v2 lists {101,102}
	vb         []byte       // CRL b lists {103}
	v2bad      []byte       // v2 with a bad signature
}

func newC13cast() *c13cast {
	p := world.Std()
	c := &c13cast{p: p}
	c.L1 = world.Leaf(p.CA, bi(101), []string{urlA}, nil)
	c.L2 = world.Leaf(p.CA, bi(102), []string{urlA}, nil)
	c.L3 = world.Leaf(p.CA, bi(103), []string{urlB}, nil)
	// every list carries what lists in the field carry: an extension this validator does not evaluate (not critical) at
	// the list and a private one at an entry - whatever the reader keeps about such things is kept per read
	mk := func(n int64, serials ...int64) *world.CRLSpec {
		s := world.SimpleCRL(p.CA, n, serials...)
		s.Exts = append(s.Exts, world.UnknownExt(false, 10))
		s.Entries[0].Exts = []pkix.Extension{world.ReasonExt(1), {Id: asn1.ObjectIdentifier{1, 3, 6, 1, 4, 1, 99999, 7, int(n)}, Value: []byte{0x05, 0x00}}}
		return s
	}
	c.v1 = mk(1, 101, 105).DER()
	c.v2 = mk(2, 101, 102).DER()
	c.vb = mk(1, 103).DER()
	bad := mk(3, 101, 102)
	bad.BadSig = true
	c.v2bad = bad.DER()
	return c
}

func (c *c13cast) hs(w int, leaf *world.Ident) schedOp {
	return schedOp{Name: fmt.Sprintf("hs(%s)", leaf.Cert.SerialNumber), Fn: func(x *schedCtx) string {
		return x.W[w].Lookup(leaf, world.Chain(leaf, c.p.CA, c.p.Root)).String()
	}}
}

func refreshOp(w int) schedOp {
	return schedOp{Name: "refresh", Fn: func(x *schedCtx) string {
		x.W[w].Chk.VerifUpdateCRLs(true)
		return "done"
	}}
}

func cleanupOp(w int) schedOp {
	return schedOp{Name: "cleanup", Fn: func(x *schedCtx) string {
		if err := x.W[w].Chk.Cleanup(); err != nil {
			return "ERR"
		}
		return "done"
	}}
}

func (c *c13cast) mkWorld(x *schedCtx, o CWOpt) *CW {
	var w *CW
	if len(x.W) > 0 {
		o.Net = x.W[0].Net
	}
	w = NewCW(o)
	x.W = append(x.W, w)
	if err := w.Provision(); err != nil {
		panic("provision: " + err.Error())
	}
	vsched.Drain() // the ticker goroutine's initial updateCRLs(false) completes here
	return w
}

func c13Scenarios(disk bool) []*schedScenario {
	c := newC13cast()
	be := "mem"
	if disk {
		be = "disk"
	}
	name := func(s string) string { return s + "/" + be }
	base := CWOpt{Disk: disk, SigMode: config.SignatureValidationModeVerify}
	bg := base
	bg.Background = true
	var scs []*schedScenario

	// s1: two handshakes, same CDP, first use, fetch_actively
	scs = append(scs, &schedScenario{Name: name("s1-first-use-active"),
		Setup: func(x *schedCtx) {
			w := c.mkWorld(x, base)
			w.Net.Serve(urlA, "v1", c.v1)
		},
		Ops: []schedOp{c.hs(0, c.L1), c.hs(0, c.L2)},
	})
	// s2: handshake || refresh || handshake on a loaded entry (origin now serves v2)
	scs = append(scs, &schedScenario{Name: name("s2-refresh-vs-handshakes"),
		Setup: func(x *schedCtx) {
			w := c.mkWorld(x, base)
			w.Net.Serve(urlA, "v1", c.v1)
			w.Lookup(c.L1, world.Chain(c.L1, c.p.CA, c.p.Root))
			w.Net.Serve(urlA, "v2", c.v2)
		},
		Ops: []schedOp{c.hs(0, c.L2), refreshOp(0), c.hs(0, c.L1)},
	})
	// s2b: first-use active fetch || periodic refresh
	scs = append(scs, &schedScenario{Name: name("s2b-first-use-vs-refresh"),
		Setup: func(x *schedCtx) {
			w := c.mkWorld(x, base)
			w.Net.Serve(urlA, "v1", c.v1)
		},
		Ops: []schedOp{c.hs(0, c.L1), refreshOp(0), c.hs(0, c.L2)},
	})
	// s3: fetch_background: handshake spawns the fetch; second handshake same CDP; third other CDP
	scs = append(scs, &schedScenario{Name: name("s3-background-fetch"), Class: "background", ThoroughOnly: true,
		Setup: func(x *schedCtx) {
			w := c.mkWorld(x, bg)
			w.Net.Serve(urlA, "v1", c.v1)
			w.Net.Serve(urlB, "vb", c.vb)
		},
		Ops: []schedOp{c.hs(0, c.L1), c.hs(0, c.L2), c.hs(0, c.L3)},
	})
	scs = append(scs, &schedScenario{Name: name("s3q-background-fetch-2"), Class: "background",
		Setup: func(x *schedCtx) {
			w := c.mkWorld(x, bg)
			w.Net.Serve(urlA, "v1", c.v1)
			w.Net.Serve(urlB, "vb", c.vb)
		},
		Ops: []schedOp{c.hs(0, c.L1), c.hs(0, c.L3)},
		// at rest both lists are in force, and both can still be refreshed: the second origin publishes a list which no
		// longer names 103, the ticker fires, 103 is accepted
		Post: func(x *schedCtx) string {
			vsched.Drain()
			w := x.W[0]
			a := w.Lookup(c.L1, world.Chain(c.L1, c.p.CA, c.p.Root)).String()
			b := w.Lookup(c.L3, world.Chain(c.L3, c.p.CA, c.p.Root)).String()
			w.Net.Serve(urlB, "vb2", world.SimpleCRL(c.p.CA, 2, 199).DER())
			w.Chk.VerifUpdateCRLs(true)
			vsched.Drain()
			return "at-rest:" + a + "/" + b + " after-next-refresh:" + w.Lookup(c.L3, world.Chain(c.L3, c.p.CA, c.p.Root)).String()
		},
		Judge: func(obs []string) (string, string) {
			if last := obs[len(obs)-1]; last != "at-rest:REVOKED/REVOKED after-next-refresh:OK" {
				return "C13|first-loads-in-the-background|at-rest", "two distribution points seen for the first time at the same moment (fetch_background); afterwards: " + last + " (expected both lists in force, and the second one replaced by the next refresh)"
			}
			return "", ""
		},
	})
	// s3r: fetch_background: two handshakes see a distribution point for the first time at the same moment while a third
	// client presents the listed certificate twice in a row. What the repository holds for the distribution point never
	// goes back from "loaded" to "not loaded": once the listed certificate was rejected it stays rejected, and at rest it is.
	scs = append(scs, &schedScenario{Name: name("s3r-background-first-use-twice-vs-reader"), Class: "background", NoSerialOracle: true,
		Setup: func(x *schedCtx) {
			w := c.mkWorld(x, bg)
			w.Net.Serve(urlA, "v1", c.v1)
		},
		Ops: []schedOp{c.hs(0, c.L1), c.hs(0, c.L1), {Name: "hs(101);hs(101)", Fn: func(x *schedCtx) string {
			a := x.W[0].Lookup(c.L1, world.Chain(c.L1, c.p.CA, c.p.Root)).String()
			b := x.W[0].Lookup(c.L1, world.Chain(c.L1, c.p.CA, c.p.Root)).String()
			return a + ";" + b
		}}},
		Post: func(x *schedCtx) string {
			vsched.Drain()
			return "at-rest:" + x.W[0].Lookup(c.L1, world.Chain(c.L1, c.p.CA, c.p.Root)).String()
		},
		Judge: func(obs []string) (string, string) {
			if obs[2] == "REVOKED;OK" {
				return "C13|loaded-list-unloaded|first-use-twice", "a client was rejected (the list was in force) and accepted right afterwards while two other handshakes saw the distribution point for the first time"
			}
			if obs[3] != "at-rest:REVOKED" {
				return "C13|loaded-list-unloaded|first-use-twice", "at rest the listed certificate reads " + obs[3]
			}
			return "", ""
		},
	})
	// s4: state "last refresh failed signature verification", then two handshakes
	scs = append(scs, &schedScenario{Name: name("s4-after-failed-verification"),
		Setup: func(x *schedCtx) {
			w := c.mkWorld(x, base)
			w.Net.Serve(urlA, "v1", c.v1)
			w.Lookup(c.L1, world.Chain(c.L1, c.p.CA, c.p.Root))
			w.Net.Serve(urlA, "v2bad", c.v2bad)
			w.Chk.VerifUpdateCRLs(true)
		},
		Ops: []schedOp{c.hs(0, c.L1), c.hs(0, c.L2)},
	})
	// s5a: handshake || Cleanup ; s5b: refresh || Cleanup
	scs = append(scs, &schedScenario{Name: name("s5a-handshake-vs-cleanup"),
		Setup: func(x *schedCtx) {
			w := c.mkWorld(x, base)
			w.Net.Serve(urlA, "v1", c.v1)
			w.Lookup(c.L1, world.Chain(c.L1, c.p.CA, c.p.Root))
		},
		Ops:   []schedOp{c.hs(0, c.L1), cleanupOp(0)},
		ErrOK: func(op int) bool { return op == 0 },
	})
	scs = append(scs, &schedScenario{Name: name("s5b-refresh-vs-cleanup"),
		Setup: func(x *schedCtx) {
			w := c.mkWorld(x, base)
			w.Net.Serve(urlA, "v1", c.v1)
			w.Lookup(c.L1, world.Chain(c.L1, c.p.CA, c.p.Root))
			w.Net.Serve(urlA, "v2", c.v2)
		},
		Ops: []schedOp{refreshOp(0), cleanupOp(0)},
		// once both are through, nothing of the validator holds the work_dir any more
		Post: func(x *schedCtx) string {
			vsched.Drain()
			return fmt.Sprintf("open-databases=%d", len(vleveldb.OpenPaths()))
		},
	})
	// s6: config-CRL update (UpdateCRL with fresh chains) || handshake
	scs = append(scs, &schedScenario{Name: name("s6-configupdate-vs-handshake"),
		Setup: func(x *schedCtx) {
			o := base
			o.URLs = []string{urlA}
			o.Trusted = nil
			var w *CW
			w = NewCW(o)
			x.W = append(x.W, w)
			w.Net.Serve(urlA, "v1", c.v1)
			w.Cfg.TrustedSignatureCerts = append(w.Cfg.TrustedSignatureCerts, c.p.CA.Cert)
			if err := w.Provision(); err != nil {
				panic("provision: " + err.Error())
			}
			vsched.Drain()
			w.Net.Serve(urlA, "v2", c.v2)
		},
		Ops: []schedOp{
			{Name: "UpdateCRL", Fn: func(x *schedCtx) string {
				w := x.W[0]
				chains := core.NewCertificateChains(nil, w.Cfg.TrustedSignatureCerts)
				if err := w.Repo().UpdateCRL(&core.CRLLocations{CRLUrl: urlA}, chains); err != nil {
					return "ERR"
				}
				return "done"
			}},
			c.hs(0, c.L2),
		},
	})
	// s8: OCSP: two concurrent lookups on one checker (same and different certificate) || Cleanup of a second instance sharing the process-global cache
	if !disk {
		oc := newC14Cast()
		ocspLookup := func(inst int, cert int) schedOp {
			return schedOp{Name: fmt.Sprintf("ocsp(V%d,c%d)", inst, cert), Fn: func(x *schedCtx) string {
				ows := x.Vals["ow"].([]*OW)
				return ows[inst].Lookup(oc.certs[cert], world.Chain(oc.certs[cert], oc.issuers[cert], oc.p.Root)).String()
			}}
		}
		scs = append(scs, &schedScenario{Name: "s8-ocsp-lookups-vs-cleanup", Class: "ocsp",
			Setup: func(x *schedCtx) {
				net := world.NewNet()
				for ci := range oc.certs {
					iss := oc.issuers[ci]
					ser := oc.certs[ci].Cert.SerialNumber
					_ = ser
					net.Routes[oc.urls[ci]] = &world.Behaviour{Label: "good", Fn: func(req *httpRequestAlias, body []byte) (int, []byte, error) {
						r, err := xocsp.ParseRequest(body)
						if err != nil {
							return 400, nil, nil
						}
						st := xocsp.Good
						if iss == oc.caA && r.SerialNumber.Cmp(oc.c1.Cert.SerialNumber) == 0 {
							// c1 of issuer A is revoked: a lookup which ends up judging another lookup's response answers OK
							st = xocsp.Revoked
						}
						return 200, world.BuildOCSP(world.OCSPAnswer{Status: st, Serial: r.SerialNumber, Issuer: iss, Signer: iss, ThisUpdate: vsched.Epoch.Add(-time.Minute)}), nil
					}}
				}
				x.Vals["ow"] = []*OW{NewOW(false, 10*time.Minute, nil, net), NewOW(false, 10*time.Minute, nil, net)}
				// V1 has looked up c1 before so that its second lookup is a cache hit
				x.Vals["ow"].([]*OW)[1].Lookup(oc.certs[1], world.Chain(oc.certs[1], oc.issuers[1], oc.p.Root))
			},
			Ops: []schedOp{ocspLookup(0, 0), ocspLookup(0, 2), {Name: "cleanup(V1)", Fn: func(x *schedCtx) string {
				x.Vals["ow"].([]*OW)[1].Chk.Cleanup()
				return "done"
			}}},
		})
		// s8b: the same uncached certificate is looked up twice on one checker and once on a second checker at the same
		// time (all three miss, fetch and add to the process-wide table)
		scs = append(scs, &schedScenario{Name: "s8b-ocsp-same-certificate-thrice", Class: "ocsp",
			Setup: func(x *schedCtx) {
				net := world.NewNet()
				for ci := range oc.certs {
					iss := oc.issuers[ci]
					net.Routes[oc.urls[ci]] = &world.Behaviour{Label: "ocsp", Fn: func(req *httpRequestAlias, body []byte) (int, []byte, error) {
						r, err := xocsp.ParseRequest(body)
						if err != nil {
							return 400, nil, nil
						}
						st := xocsp.Good
						if iss == oc.caA && r.SerialNumber.Cmp(oc.c1.Cert.SerialNumber) == 0 {
							st = xocsp.Revoked
						}
						return 200, world.BuildOCSP(world.OCSPAnswer{Status: st, Serial: r.SerialNumber, Issuer: iss, Signer: iss, ThisUpdate: vsched.Epoch.Add(-time.Minute)}), nil
					}}
				}
				x.Vals["ow"] = []*OW{NewOW(false, 10*time.Minute, nil, net), NewOW(false, 10*time.Minute, nil, net)}
			},
			Ops: []schedOp{ocspLookup(0, 0), ocspLookup(0, 0), ocspLookup(1, 0)},
		})
	}
	if !disk {
		// s8c: a cached "good" has outlived its lifetime (it was read now and then, so the table still holds it), the
		// responder meanwhile says "revoked"; two lookups of that certificate arrive at the same time, on one checker and
		// on two. Whoever refreshes, nobody is served the expired status: both answers are "revoked", as in every
		// sequential order.
		oc := newC14Cast()
		for _, two := range []bool{false, true} {
			two := two
			nm := "s8c-ocsp-two-lookups-after-expiry"
			if two {
				nm += "-two-checkers"
			}
			look := func(inst int) schedOp {
				return schedOp{Name: fmt.Sprintf("ocsp(V%d,c2)", inst), Fn: func(x *schedCtx) string {
					ows := x.Vals["ow"].([]*OW)
					return ows[inst].Lookup(oc.certs[2], world.Chain(oc.certs[2], oc.issuers[2], oc.p.Root)).String()
				}}
			}
			second := 0
			if two {
				second = 1
			}
			scs = append(scs, &schedScenario{Name: nm, Class: "ocsp",
				Setup: func(x *schedCtx) {
					net := world.NewNet()
					revoked := false
					net.Routes[oc.urls[2]] = &world.Behaviour{Label: "ocsp", Fn: func(req *httpRequestAlias, body []byte) (int, []byte, error) {
						r, err := xocsp.ParseRequest(body)
						if err != nil {
							return 400, nil, nil
						}
						st := xocsp.Good
						if revoked {
							st = xocsp.Revoked
						}
						return 200, world.BuildOCSP(world.OCSPAnswer{Status: st, Serial: r.SerialNumber, Issuer: oc.caA, Signer: oc.caA, ThisUpdate: vsched.Epoch.Add(-time.Minute)}), nil
					}}
					ows := []*OW{NewOW(false, 10*time.Minute, nil, net), NewOW(false, 10*time.Minute, nil, net)}
					x.Vals["ow"] = ows
					chain := world.Chain(oc.certs[2], oc.issuers[2], oc.p.Root)
					if v := ows[0].Lookup(oc.certs[2], chain); v.String() != "OK" {
						panic("s8c setup: " + v.String() + v.Err)
					}
					// read twice within the lifetime (keeps the table entry alive), then let the lifetime end
					vsched.Advance(6 * time.Minute)
					ows[0].Lookup(oc.certs[2], chain)
					revoked = true
					vsched.Advance(6 * time.Minute)
				},
				Ops: []schedOp{look(0), look(second)},
				Judge: func(obs []string) (string, string) {
					for i := 0; i < 2; i++ {
						if obs[i] != "REVOKED" {
							return "C13|expired-status-served|ocsp", fmt.Sprintf("two lookups 12 minutes after a 'good' with a 10 minute lifetime was cached, the responder says 'revoked': lookup %d answered %s", i+1, obs[i])
						}
					}
					return "", ""
				},
			})
		}
	}
	if !disk {
		scs = append(scs, ocspSharedResponderScenario("C13"), ocspTwoLifetimesScenario("C13"), ocspTwoPoliciesScenario("C13"))
	}
	// s10: first use of two different distribution points at the same time (two new entries in the repository map)
	scs = append(scs, &schedScenario{Name: name("s10-first-use-two-locations"),
		Setup: func(x *schedCtx) {
			w := c.mkWorld(x, base)
			w.Net.Serve(urlA, "v1", c.v1)
			w.Net.Serve(urlB, "vb", c.vb)
		},
		Ops: []schedOp{c.hs(0, c.L1), c.hs(0, c.L3)},
	})
	// s10b: the same with certificates of two different CAs and three unrelated trusted signature certificates
	// configured (what one handshake puts together as its chains must not reach the other one)
	{
		ca2 := world.Issue(c.p.Root, world.CertOpt{CN: "c13 second issuing CA", IsCA: true, KeyKind: "ec", KeyIdx: 6, Serial: big.NewInt(66)})
		extra := world.Issue(nil, world.CertOpt{CN: "c13 unrelated CA", IsCA: true, KeyKind: "ec", KeyIdx: 7, Serial: big.NewInt(67)})
		l2 := world.Leaf(ca2, bi(113), []string{urlB}, nil)
		vb2 := world.SimpleCRL(ca2, 1, 113).DER()
		o := base
		o.Trusted = []*x509Cert{c.p.OtherCA.Cert, c.p.CARSA.Cert, extra.Cert}
		scs = append(scs, &schedScenario{Name: name("s10b-first-use-two-CAs-three-trusted-signers"),
			Setup: func(x *schedCtx) {
				w := c.mkWorld(x, o)
				w.Net.Serve(urlA, "v1", c.v1)
				w.Net.Serve(urlB, "vb2", vb2)
			},
			Ops: []schedOp{c.hs(0, c.L1), {Name: "hs(113,CA2)", Fn: func(x *schedCtx) string {
				return x.W[0].Lookup(l2, world.Chain(l2, ca2, c.p.Root)).String()
			}}},
		})
	}
	// s11: two CRLs are loaded; a handshake walks over both while a tick refreshes both (the first one to a new version)
	scs = append(scs, &schedScenario{Name: name("s11-lookup-over-two-crls-vs-refresh"),
		Setup: func(x *schedCtx) {
			w := c.mkWorld(x, base)
			w.Net.Serve(urlA, "v1", c.v1)
			w.Net.Serve(urlB, "vb", c.vb)
			w.Lookup(c.L1, world.Chain(c.L1, c.p.CA, c.p.Root))
			w.Lookup(c.L3, world.Chain(c.L3, c.p.CA, c.p.Root))
			w.Net.Serve(urlA, "v2", c.v2)
		},
		Ops: []schedOp{c.hs(0, c.L3), refreshOp(0), c.hs(0, c.L2)},
	})
	// s12: a second validator instance is provisioned (process-wide registry, update mutex, startup sweep of its own
	// work_dir, configured CRL loaded) while the first one serves a handshake and refreshes
	scs = append(scs, &schedScenario{Name: name("s12-provision-second-instance-vs-first"), ThoroughOnly: disk,
		Setup: func(x *schedCtx) {
			w := c.mkWorld(x, base)
			w.Net.Serve(urlA, "v1", c.v1)
			w.Net.Serve(urlB, "vb", c.vb)
			w.Lookup(c.L1, world.Chain(c.L1, c.p.CA, c.p.Root))
		},
		Ops: []schedOp{
			{Name: "provision(V2)", Fn: func(x *schedCtx) string {
				o := base
				o.Net = x.W[0].Net
				o.URLs = []string{urlB}
				o.Trusted = []*x509Cert{c.p.CA.Cert}
				w2 := NewCW(o)
				x.W = append(x.W, w2) // torn down with the scenario
				if err := w2.Provision(); err != nil {
					return "ERR"
				}
				// the configured CRL must be in force for the second instance as soon as Provision returned
				l := world.Leaf(c.p.CA, bi(103), nil, nil)
				return "provisioned," + w2.Lookup(l, world.Chain(l, c.p.CA, c.p.Root)).String()
			}},
			c.hs(0, c.L1), refreshOp(0),
		},
	})
	// s13: fetch_background: a distribution point is seen for the first time while a refresh of the already known CRL
	// is under way; once everything has come to rest the new CRL must be in force (whoever loads it)
	scs = append(scs, &schedScenario{Name: name("s13-new-location-during-refresh-background"), Class: "background",
		Setup: func(x *schedCtx) {
			w := c.mkWorld(x, bg)
			w.Net.Serve(urlA, "v1", c.v1)
			w.Net.Serve(urlB, "vb", c.vb)
			w.Lookup(c.L3, world.Chain(c.L3, c.p.CA, c.p.Root))
			vsched.Drain()
		},
		Ops: []schedOp{refreshOp(0), c.hs(0, c.L1)},
		Post: func(x *schedCtx) string {
			vsched.Drain()
			return "at-rest:" + x.W[0].Lookup(c.L1, world.Chain(c.L1, c.p.CA, c.p.Root)).String()
		},
	})
	// s14: two validator instances, each with its own update interval bookkeeping: more than half an interval after
	// both refreshed last, the ticker of each fires (a non-forced refresh) while a handshake arrives. At rest both
	// instances serve the list published before the ticks - in every order, also the sequential ones.
	scs = append(scs, &schedScenario{Name: name("s14-ticks-of-two-instances"),
		Setup: func(x *schedCtx) {
			w := c.mkWorld(x, base)
			w.Net.Serve(urlA, "v1", c.v1)
			w2 := c.mkWorld(x, base)
			w.Lookup(c.L1, world.Chain(c.L1, c.p.CA, c.p.Root))
			w2.Lookup(c.L1, world.Chain(c.L1, c.p.CA, c.p.Root))
			vsched.Advance(31 * time.Minute) // the tickers fire once (interval 30 min)
			vsched.Drain()
			w.Net.Serve(urlA, "v2", c.v2)
			vsched.Advance(16 * time.Minute) // 17 minutes after the last refresh of either instance
			vsched.Drain()
		},
		Ops: []schedOp{
			{Name: "tick(V1)", Fn: func(x *schedCtx) string { x.W[0].Chk.VerifUpdateCRLs(false); return "done" }},
			{Name: "tick(V2)", Fn: func(x *schedCtx) string { x.W[1].Chk.VerifUpdateCRLs(false); return "done" }},
			c.hs(1, c.L2),
		},
		Post: func(x *schedCtx) string {
			vsched.Drain()
			return "at-rest:V1=" + x.W[0].Lookup(c.L2, world.Chain(c.L2, c.p.CA, c.p.Root)).String() + "/V2=" + x.W[1].Lookup(c.L2, world.Chain(c.L2, c.p.CA, c.p.Root)).String()
		},
		Judge: func(obs []string) (string, string) {
			if last := obs[len(obs)-1]; last != "at-rest:V1=REVOKED/V2=REVOKED" {
				return "C13|tick-dropped|two-instances", "after the ticker of each of two instances fired (17 minutes after the last refresh, interval 30 minutes) a certificate revoked in the list published before the ticks reads " + last
			}
			return "", ""
		},
	})
	// s15: fetch_background: a handshake names a distribution point whose URI cannot be stored (an octet which is not
	// valid UTF-8) while another handshake and a refresh are under way: every call returns
	scs = append(scs, &schedScenario{Name: name("s15-unstorable-location-background"), Class: "background",
		Setup: func(x *schedCtx) {
			w := c.mkWorld(x, bg)
			w.Net.Serve(urlA, "v1", c.v1)
		},
		Ops: []schedOp{c.hs(0, world.Leaf(c.p.CA, bi(140), []string{"http://crl.test/caf\xe9.crl"}, nil)), c.hs(0, c.L1), refreshOp(0)},
		Post: func(x *schedCtx) string {
			vsched.Drain()
			return "at-rest:" + x.W[0].Lookup(c.L1, world.Chain(c.L1, c.p.CA, c.p.Root)).String()
		},
	})
	// s17: a refresh of a list in force while a handshake sees another distribution point for the first time and fails
	// to load it (the origin serves no CRL): whatever the failed load tidies up, the refresh of the other list completes -
	// at rest the first list is in force in its new version
	scs = append(scs, &schedScenario{Name: name("s17-refresh-vs-failing-first-load-of-another-list"),
		Setup: func(x *schedCtx) {
			w := c.mkWorld(x, base)
			w.Net.Serve(urlA, "v1", c.v1)
			w.Lookup(c.L1, world.Chain(c.L1, c.p.CA, c.p.Root))
			w.Net.Serve(urlA, "v2", c.v2)
			w.Net.Serve(urlB, "no-crl", []byte("<html>this is not a CRL</html>"))
		},
		Ops: []schedOp{refreshOp(0), c.hs(0, c.L3)},
		Post: func(x *schedCtx) string {
			vsched.Drain()
			w := x.W[0]
			return "at-rest:101=" + w.Lookup(c.L1, world.Chain(c.L1, c.p.CA, c.p.Root)).String() + " 102=" + w.Lookup(c.L2, world.Chain(c.L2, c.p.CA, c.p.Root)).String()
		},
		Judge: func(obs []string) (string, string) {
			if last := obs[len(obs)-1]; last != "at-rest:101=REVOKED 102=REVOKED" {
				return "C13|refresh-lost|failing-first-load-of-another-list", "a refresh ran while the first load of another distribution point failed; afterwards " + last + " (the refreshed list names 101 and 102)"
			}
			return "", ""
		},
	})
	// s9: two validator instances refreshing concurrently + a handshake
	scs = append(scs, &schedScenario{Name: name("s9-two-instances"),
		Setup: func(x *schedCtx) {
			w := c.mkWorld(x, base)
			w.Net.Serve(urlA, "v1", c.v1)
			w.Net.Serve(urlB, "vb", c.vb)
			w2 := c.mkWorld(x, base)
			w.Lookup(c.L1, world.Chain(c.L1, c.p.CA, c.p.Root))
			w2.Lookup(c.L3, world.Chain(c.L3, c.p.CA, c.p.Root))
			w.Net.Serve(urlA, "v2", c.v2)
		},
		Ops: []schedOp{refreshOp(0), refreshOp(1), c.hs(0, c.L2)},
	})
	// on disk the file and database operations are scheduling points as well (what another thread does to the work_dir
	// can fall between any two of them)
	if disk {
		for _, sc := range scs {
			sc.Cfg.EffectsArePoints = true
		}
	}
	return scs
}

func findScenario(name string) *schedScenario {
	for _, disk := range []bool{false, true} {
		for _, sc := range c13Scenarios(disk) {
			if sc.Name == name {
				return sc
			}
		}
	}
	return nil
}

// RunC13 is the entry point of the C13 check.
func RunC13(tier string, args []string) int {
	if len(args) > 0 && args[0] == "worker" {
		// worker <scenario> <bound> <maxExec> <deadlineUnix> <shard> <nshards>
		sc := findScenario(args[1])
		if sc == nil {
			fmt.Fprintln(os.Stderr, "unknown scenario", args[1])
			return 2
		}
		atoi := func(s string) int { n, _ := strconv.Atoi(s); return n }
		out := exploreShard(sc, sc.Class, atoi(args[2]), atoi(args[3]), time.Unix(int64(atoi(args[4])), 0), atoi(args[5]), atoi(args[6]), true)
		b, _ := json.Marshal(out)
		fmt.Println(string(b))
		return 0
	}
	chk := fw.NewCheck("C13", tier, "model_checking")
	chk.Assumptions = []string{
		"sequentially consistent interleavings at synchronisation points (locks, spawn, channel receive, sleeps); weak-memory effects covered only via the data-race-freedom argument",
		"goleveldb, net/http and zap internals are not instrumented and trusted to be internally synchronised",
		"scenarios bound the quantifier: 2-5 threads, preemption bound as reported",
		"Go map iteration order is fixed (sorted) by the instrumenter",
		"complement, not part of the exhaustive claim: the same kinds of scenario bodies run free (real goroutines, real sync, uninstrumented repository code built with -race, cmd/racepass) so that Go's race detector sees every memory access of the executed paths, including bytes and third-party structures the access hooks do not cover",
	}
	bound, maxExec := 2, 400000
	perScenario, nshards := 150*time.Second, 16
	if tier == "thorough" {
		bound, maxExec = 3, 20000000
		perScenario, nshards = 30*time.Minute, 64
	}
	var reports []schedReport
	execs, points := 0, 0
	exhaustive := true
	outcomes := fw.NewDistinct()
	for _, disk := range []bool{false, true} {
		for _, sc := range c13Scenarios(disk) {
			if sc.ThoroughOnly && tier != "thorough" {
				continue
			}
			b := bound
			if disk && tier != "thorough" {
				b = 1
			}
			if disk && tier == "thorough" && sc.ThoroughOnly {
				b = 2 // s3 with three handshakes on LevelDB: 515 k executions at bound 3 did not finish in 30 minutes
			}
			rep := exploreScenario(chk, "C13", sc, sc.Class, b, maxExec, time.Now().Add(perScenario), nshards, true)
			reports = append(reports, rep)
			execs += rep.Executions + rep.SeqRuns
			points += rep.Points
			if rep.Capped {
				exhaustive = false
			}
			for k := range rep.Outcomes {
				outcomes.Add(sc.Name + ":" + k)
			}
			fmt.Printf("  %-40s execs=%d per-bound=%v depth=%d outcomes=%v allowed=%d races=%d capped=%v %.1fs\n", sc.Name, rep.Executions, rep.PerBound, rep.MaxDepth, rep.Outcomes, len(rep.Allowed), len(rep.Races), rep.Capped, rep.WallS)
		}
	}
	samples := []interface{}{}
	for i, r := range reports {
		if i < 3 {
			samples = append(samples, r)
		}
	}
	racePass, code := c13RacePass(chk, tier)
	if code != 0 {
		return code
	}
	fmt.Printf("  free-running -race pass: scenarios=%d lookups=%d origin requests=%d race reports=%d panics=%d\n", racePass.Scenarios, racePass.Lookups, racePass.OriginRequests, racePass.RaceReports, len(racePass.Panics))
	cov := fw.Coverage{
		"states":                        execs,
		"transitions":                   points + execs,
		"traces_validated_against_impl": execs,
		"executions":                    execs,
		"distinct_outcomes":             outcomes.N(),
		"scenarios":                     reports,
		"samples":                       samples,
		"exhaustive":                    exhaustive,
		"free_running_race_pass":        racePass,
		"explanation":                   "states = complete executions (schedules) of the real code explored under the cooperative scheduler incl. coarse-grained reference runs; transitions = scheduling decisions taken; every execution runs on the implementation itself",
	}
	return chk.Finish(cov)
}

var _ = vsched.Epoch

func init() {
	replayers["C13"] = func(path string) int {
		b, err := os.ReadFile(path)
		if err != nil {
			fmt.Fprintln(os.Stderr, err)
			return 2
		}
		var f struct {
			Signature string `json:"signature"`
			What      string `json:"what"`
			Replay    struct {
				Scenario string `json:"scenario"`
				Choices  []int  `json:"choices"`
			} `json:"replay"`
		}
		if err := json.Unmarshal(b, &f); err != nil {
			fmt.Fprintln(os.Stderr, err)
			return 2
		}
		sc := findScenario(f.Replay.Scenario)
		if sc == nil {
			fmt.Fprintln(os.Stderr, "unknown scenario", f.Replay.Scenario)
			return 2
		}
		fmt.Printf("replaying %s\n  scenario %s choices %v\n", f.Signature, sc.Name, f.Replay.Choices)
		var res *vsched.Result
		var obs []string
		_, _, div := fw.Replay(f.Replay.Choices, func(ch vsched.Chooser) (*vsched.Result, interface{}) {
			res, obs = sc.runConcurrent(ch, true)
			return res, obs
		})
		for _, l := range res.Trace {
			fmt.Println("   ", l)
		}
		fmt.Printf("verdict=%s observations=%v divergence=%q\n%s\n", res.Verdict, obs, div, res.Detail)
		for _, r := range res.Races {
			fmt.Printf("race %s on %s: %s <-> %s\n", r.Kinds, r.Loc, r.SiteA, r.SiteB)
		}
		if res.Verdict != vsched.OK || len(res.Races) > 0 {
			return 1
		}
		return 0
	}
}

// ocspSharedResponderScenario (s8d) and ocspTwoLifetimesScenario (s8e) are explored by C13 and, with the verdict filed
// under their property, by C05 (an answer counts only for exactly the presented certificate) and C14 (a status is kept
// no longer than the asking checker's own configuration allows).
func ocspSharedResponderScenario(prop string) *schedScenario {
	oc := newC14Cast()
	// s8d: two CAs name the same responder address and have issued the same serial number; the certificate of CA A is
	// revoked, the one of CA B is good. Both are presented at the same moment on one checker: the answer to one lookup
	// is never the answer to the other (every sequential order says REVOKED, OK)
	shared := world.Issue(oc.caB, world.CertOpt{CN: "c13 same serial other issuer same responder", Serial: oc.c1.Cert.SerialNumber, KeyKind: "ec", KeyIdx: 7, OCSP: []string{c14URLA}})
	hashA := sha1.Sum(oc.caA.Cert.RawSubject)
	return &schedScenario{Name: "s8d-ocsp-shared-responder-same-serial-two-issuers", Class: "ocsp",
		Setup: func(x *schedCtx) {
			net := world.NewNet()
			net.Routes[c14URLA] = &world.Behaviour{Label: "ocsp", Fn: func(req *httpRequestAlias, body []byte) (int, []byte, error) {
				r, err := xocsp.ParseRequest(body)
				if err != nil {
					return 400, nil, nil
				}
				iss, st := oc.caB, xocsp.Good
				if bytes.Equal(r.IssuerNameHash, hashA[:]) {
					iss, st = oc.caA, xocsp.Revoked
				}
				return 200, world.BuildOCSP(world.OCSPAnswer{Status: st, Serial: r.SerialNumber, Issuer: iss, Signer: iss, ThisUpdate: vsched.Epoch.Add(-time.Minute)}), nil
			}}
			x.Vals["ow"] = []*OW{NewOW(false, 10*time.Minute, nil, net)}
		},
		Ops: []schedOp{
			{Name: "ocsp(V0,c1 of A)", Fn: func(x *schedCtx) string {
				return x.Vals["ow"].([]*OW)[0].Lookup(oc.c1, world.Chain(oc.c1, oc.caA, oc.p.Root)).String()
			}},
			{Name: "ocsp(V0,same serial of B)", Fn: func(x *schedCtx) string {
				return x.Vals["ow"].([]*OW)[0].Lookup(shared, world.Chain(shared, oc.caB, oc.p.Root)).String()
			}},
		},
		Judge: func(obs []string) (string, string) {
			if obs[0] != "REVOKED" || obs[1] != "OK" {
				return prop + "|answer-of-another-lookup|ocsp", fmt.Sprintf("two issuers, one responder address, one serial number, looked up at the same moment: the revoked certificate of CA A reads %s, the good one of CA B reads %s", obs[0], obs[1])
			}
			return "", ""
		},
	}

}

func ocspTwoLifetimesScenario(prop string) *schedScenario {
	oc := newC14Cast()
	// s8e: two checkers of the process, default_cache_duration 1h and 0, are asked about the same certificate at the
	// same moment (the responder gives no nextUpdate). Afterwards the responder says "revoked": the checker which
	// caches nothing asks again and reports it
	return &schedScenario{Name: "s8e-ocsp-two-checkers-different-lifetimes-same-moment", Class: "ocsp",
		Setup: func(x *schedCtx) {
			net := world.NewNet()
			x.Vals["revoked"] = false
			net.Routes[c14URLA] = &world.Behaviour{Label: "ocsp", Fn: func(req *httpRequestAlias, body []byte) (int, []byte, error) {
				r, err := xocsp.ParseRequest(body)
				if err != nil {
					return 400, nil, nil
				}
				st := xocsp.Good
				if x.Vals["revoked"] == true {
					st = xocsp.Revoked
				}
				return 200, world.BuildOCSP(world.OCSPAnswer{Status: st, Serial: r.SerialNumber, Issuer: oc.caA, Signer: oc.caA, ThisUpdate: vsched.Epoch.Add(-time.Minute)}), nil
			}}
			x.Vals["ow"] = []*OW{NewOW(false, time.Hour, nil, net), NewOW(false, 0, nil, net)}
		},
		Ops: []schedOp{
			{Name: "ocsp(V0 1h,c2)", Fn: func(x *schedCtx) string {
				return x.Vals["ow"].([]*OW)[0].Lookup(oc.c2, world.Chain(oc.c2, oc.caA, oc.p.Root)).String()
			}},
			{Name: "ocsp(V1 0,c2)", Fn: func(x *schedCtx) string {
				return x.Vals["ow"].([]*OW)[1].Lookup(oc.c2, world.Chain(oc.c2, oc.caA, oc.p.Root)).String()
			}},
		},
		Post: func(x *schedCtx) string {
			x.Vals["revoked"] = true
			return "zero-duration-checker-after-the-flip:" + x.Vals["ow"].([]*OW)[1].Lookup(oc.c2, world.Chain(oc.c2, oc.caA, oc.p.Root)).String()
		},
		Judge: func(obs []string) (string, string) {
			if obs[2] != "zero-duration-checker-after-the-flip:REVOKED" {
				return prop + "|status-kept-under-another-checkers-lifetime|ocsp", "a checker with default_cache_duration 0 was asked while a checker with 1h was asking about the same certificate; after the responder flipped to revoked: " + obs[2]
			}
			return "", ""
		},
	}
}

// ocspTwoPoliciesScenario (s8f): two checkers of the process, ocsp_aia_strict on and off, are asked about the same
// certificate at the same moment; its only responder answers with something which is no OCSP response. Each checker
// applies its own policy: the strict one denies, the lenient one accepts - in every schedule.
func ocspTwoPoliciesScenario(prop string) *schedScenario {
	oc := newC14Cast()
	look := func(i int, name string) schedOp {
		return schedOp{Name: name, Fn: func(x *schedCtx) string {
			return x.Vals["ow"].([]*OW)[i].Lookup(oc.c2, world.Chain(oc.c2, oc.caA, oc.p.Root)).String()
		}}
	}
	return &schedScenario{Name: "s8f-ocsp-strict-and-lenient-checker-same-moment", Class: "ocsp",
		Setup: func(x *schedCtx) {
			net := world.NewNet()
			net.Serve(c14URLA, "html", []byte("<html><body>maintenance</body></html>"))
			x.Vals["ow"] = []*OW{NewOW(true, 10*time.Minute, nil, net), NewOW(false, 10*time.Minute, nil, net)}
		},
		Ops: []schedOp{look(0, "ocsp(strict checker,c2)"), look(1, "ocsp(lenient checker,c2)")},
		Judge: func(obs []string) (string, string) {
			if obs[0] != "ERR" || obs[1] != "OK" {
				return prop + "|policy-of-another-checker-applied|ocsp", fmt.Sprintf("a strict and a lenient checker asked about one certificate at the same moment, the responder gives no answer: the strict checker reads %s (expected ERR), the lenient one %s (expected OK)", obs[0], obs[1])
			}
			return "", ""
		},
	}
}

// exploreInProcess explores a small schedule scenario in this process (all schedules up to the preemption bound) and
// files what it finds under the check.
func exploreInProcess(chk *fw.Check, prop string, sc *schedScenario, bound int) schedReport {
	out := exploreShardProp(prop, sc, sc.Class, bound, 200000, time.Now().Add(5*time.Minute), 0, 1, true, nil)
	return mergeWorkerOuts(chk, sc.Name, []workerOut{out})
}
