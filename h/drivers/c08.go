package drivers

import (
	"bytes"
	"encoding/json"
	"errors"
	"fmt"
	"io"
	"os"
	"strconv"
	"strings"
	"time"

	"github.com/gr33nbl00d/caddy-revocation-validator/config"
	"github.com/gr33nbl00d/caddy-revocation-validator/core"

	"verif/h/fw"
	"verif/h/rt/vsched"
	"verif/h/world"
)

// C08: refresh atomicity (schedule exploration) and failure isolation
// (history exploration with injected failures).

type c08Cast struct {
	p      *world.PKI
	probes []*world.Ident // common(101) oldOnly(105) newOnly(102) third(103) neither(109)
	names  []string
	vers   map[int][]byte  // version -> DER
	lists  map[int][]int64 // version -> listed serials
}

func newC08Cast() *c08Cast {
	p := world.Std()
	c := &c08Cast{p: p, vers: map[int][]byte{}, lists: map[int][]int64{}}
	for _, s := range []int64{101, 105, 102, 103, 109} {
		c.probes = append(c.probes, world.Leaf(p.CA, bi(s), []string{urlA}, nil))
	}
	c.names = []string{"common", "oldOnly", "newOnly", "third", "neither"}
	c.lists[1] = []int64{101, 105}
	c.lists[2] = []int64{101, 102}
	c.lists[3] = []int64{101, 103}
	for v, l := range c.lists {
		c.vers[v] = world.SimpleCRL(p.CA, int64(v), l...).DER()
	}
	return c
}

func (c *c08Cast) chain(l *world.Ident) [][]*x509Cert { return world.Chain(l, c.p.CA, c.p.Root) }

// expected verdict vector (over probes) when version v is in force
func (c *c08Cast) vector(v int) string {
	var out []string
	for _, pr := range c.probes {
		s := pr.Cert.SerialNumber.Int64()
		r := "OK"
		for _, x := range c.lists[v] {
			if x == s {
				r = "REVOKED"
			}
		}
		out = append(out, r)
	}
	return strings.Join(out, ",")
}

func (c *c08Cast) probeAll(w *CW) string {
	var out []string
	for _, pr := range c.probes {
		out = append(out, w.Lookup(pr, c.chain(pr)).String())
	}
	return strings.Join(out, ",")
}

// ---------------------------------------------------------------- H part: failure isolation

type c08Event struct {
	Name string
	OK   int // >0: successful refresh to this version
	// BreaksOffFirst: the first download attempt of this refresh breaks off in the middle of the body (the loader
	// tries again and gets all of it)
	BreaksOffFirst bool
	// failure description
	Serve func(c *c08Cast, w *CW)
	Fault *faultPlan
}

// brokenBody delivers its data and then fails like a connection which was reset.
type brokenBody struct {
	data []byte
	off  int
}

func (b *brokenBody) Read(p []byte) (int, error) {
	if b.off >= len(b.data) {
		return 0, errors.New("read tcp: connection reset by peer (scripted)")
	}
	n := copy(p, b.data[b.off:])
	b.off += n
	return n, nil
}

func (b *brokenBody) Close() error { return nil }

func c08Events(c *c08Cast) []c08Event {
	v2 := c.vers[2]
	bad := world.SimpleCRL(c.p.CA, 2, c.lists[2]...)
	bad.BadSig = true
	unk := world.SimpleCRL(c.p.OtherCA, 2, c.lists[2]...)
	unk.IssuerRaw = c.p.CA.Cert.RawSubject
	offs, _ := derBoundaries(v2)
	evs := []c08Event{
		{Name: "refresh-ok(v2)", OK: 2},
		{Name: "refresh-ok(v3)", OK: 3},
		{Name: "refresh-ok(v3)-after-an-attempt-which-broke-off", OK: 3, BreaksOffFirst: true},
		{Name: "fail:refused", Serve: func(c *c08Cast, w *CW) { w.Net.Down(urlA) }},
		{Name: "fail:http-error-page", Serve: func(c *c08Cast, w *CW) {
			w.Net.Routes[urlA] = &world.Behaviour{Label: "404", Status: 404, Body: []byte("<html><body>404 not found</body></html>")}
		}},
		{Name: "fail:garbage", Serve: func(c *c08Cast, w *CW) { w.Net.Serve(urlA, "garbage", []byte{0x30, 0x82, 0xff, 0xff, 1, 2, 3, 4, 5}) }},
		{Name: "fail:empty-body", Serve: func(c *c08Cast, w *CW) { w.Net.Serve(urlA, "empty", []byte{}) }},
		{Name: "fail:bad-signature", Serve: func(c *c08Cast, w *CW) { w.Net.Serve(urlA, "badsig", bad.DER()) }},
		{Name: "fail:signer-unknown", Serve: func(c *c08Cast, w *CW) { w.Net.Serve(urlA, "unknown-signer", unk.DER()) }},
		{Name: "fail:staging-create", Serve: func(c *c08Cast, w *CW) { w.Net.Serve(urlA, "v2", v2) }, Fault: &faultPlan{Op: "create", TempOnly: true}},
		{Name: "fail:staging-locations", Serve: func(c *c08Cast, w *CW) { w.Net.Serve(urlA, "v2", v2) }, Fault: &faultPlan{Op: "locations", TempOnly: true}},
		{Name: "fail:staging-start", Serve: func(c *c08Cast, w *CW) { w.Net.Serve(urlA, "v2", v2) }, Fault: &faultPlan{Op: "start", TempOnly: true}},
		{Name: "fail:staging-insert#1", Serve: func(c *c08Cast, w *CW) { w.Net.Serve(urlA, "v2", v2) }, Fault: &faultPlan{Op: "insert", K: 1, TempOnly: true}},
		{Name: "fail:staging-insert#2", Serve: func(c *c08Cast, w *CW) { w.Net.Serve(urlA, "v2", v2) }, Fault: &faultPlan{Op: "insert", K: 2, TempOnly: true}},
		{Name: "fail:staging-extmeta", Serve: func(c *c08Cast, w *CW) { w.Net.Serve(urlA, "v2", v2) }, Fault: &faultPlan{Op: "extmeta", TempOnly: true}},
		{Name: "fail:staging-sigcert", Serve: func(c *c08Cast, w *CW) { w.Net.Serve(urlA, "v2", v2) }, Fault: &faultPlan{Op: "sigcert", TempOnly: true}},
	}
	// truncated downloads: one representative per truncation class (inside header, inside tbs before the
	// entries, inside the entry list, inside the extensions, inside the signature)
	classes := map[string]int{}
	tbsEnd := offs[1]
	_ = tbsEnd
	for _, cut := range []int{1, 3, 40, len(v2) / 2, len(v2) - 80, len(v2) - 40, len(v2) - 1} {
		if cut <= 0 || cut >= len(v2) {
			continue
		}
		cut := cut
		name := fmt.Sprintf("fail:truncated@%d", cut)
		if _, dup := classes[name]; dup {
			continue
		}
		classes[name] = cut
		evs = append(evs, c08Event{Name: name, Serve: func(c *c08Cast, w *CW) { w.Net.Serve(urlA, "truncated", v2[:cut]) }})
	}
	return evs
}

// c08RunHistory replays a history of refresh events; after every event all
// probes must show exactly the vector of the version the reference holds.
// c08Variant: how the refresh is driven and what surrounds it.
type c08Variant struct {
	Name    string
	Via     string      // UpdateCRLs (ticker path, no client chain) | UpdateCRL (with a client chain)
	Trusted []*x509Cert // configured trusted_signature_certs
	Bare    bool        // the accepted lists carry no crlExtensions (no authority key identifier, no CRL number)
}

func c08Variants(c *c08Cast) []c08Variant {
	return []c08Variant{
		{Name: "UpdateCRLs", Via: "UpdateCRLs"},
		{Name: "UpdateCRL", Via: "UpdateCRL"},
		// a configured trusted signer which has nothing to do with this CRL must not get in the way of the signer the first load found
		{Name: "UpdateCRLs+unrelated-trusted-cert", Via: "UpdateCRLs", Trusted: []*x509Cert{c.p.CARSA.Cert}},
		// lists without crlExtensions, and a re-keyed CA certificate (same name, other key) configured as trusted signer:
		// two candidates by name, one of which verifies
		{Name: "UpdateCRLs+bare-lists+rekeyed-trusted-cert", Via: "UpdateCRLs", Trusted: []*x509Cert{c.p.Sibling.Cert}, Bare: true},
	}
}

func (c *c08Cast) doc(v int, bare bool) []byte {
	if !bare {
		return c.vers[v]
	}
	s := world.SimpleCRL(c.p.CA, int64(v), c.lists[v]...)
	s.Exts = nil
	return s.DER()
}

func c08RunHistory(c *c08Cast, evs []c08Event, disk bool, variant c08Variant, hist []int) (key string, viols []c14Viol) {
	via := variant.Via
	res := seqWorld(func() {
		w := NewCW(CWOpt{Disk: disk, SigMode: config.SignatureValidationModeVerify, Strict: true, Trusted: variant.Trusted})
		defer os.RemoveAll(w.Dir)
		if err := w.Provision(); err != nil {
			panic(err)
		}
		vsched.Drain()
		plan := &faultPlan{}
		w.Repo().Factory = faultFactory{inner: w.Repo().Factory, plan: plan}
		w.Net.Serve(urlA, "v1", c.doc(1, variant.Bare))
		inForce := 1
		if got := c.probeAll(w); got != c.vector(1) {
			viols = append(viols, c14Viol{"C08|setup", "first load does not show v1: " + got})
			return
		}
		var names []string
		for _, e := range hist {
			ev := evs[e]
			names = append(names, ev.Name)
			*plan = faultPlan{}
			if ev.OK > 0 {
				w.Net.Serve(urlA, fmt.Sprintf("v%d", ev.OK), c.doc(ev.OK, variant.Bare))
				if ev.BreaksOffFirst {
					doc := c.doc(ev.OK, variant.Bare)
					attempt := 0
					w.Net.Routes[urlA] = &world.Behaviour{Label: "breaks-off-once", Stream: func() io.ReadCloser {
						attempt++
						if attempt == 1 {
							return &brokenBody{data: doc[:len(doc)/2]}
						}
						return io.NopCloser(bytes.NewReader(doc))
					}}
				}
			} else {
				ev.Serve(c, w)
				if ev.Fault != nil {
					*plan = *ev.Fault
				}
			}
			var rerr error
			if via == "UpdateCRL" {
				chains := core.NewCertificateChains(c.chain(c.probes[0]), nil)
				rerr = w.Repo().UpdateCRL(&core.CRLLocations{CRLDistributionPoints: []string{urlA}}, chains)
			} else {
				w.Chk.VerifUpdateCRLs(true)
			}
			vsched.Drain()
			if ev.Fault != nil && !plan.fired {
				viols = append(viols, c14Viol{"C08|harness|fault-not-reached|" + ev.Name, "the injected fault was never reached: " + ev.Name})
			}
			*plan = faultPlan{}
			if ev.OK > 0 {
				inForce = ev.OK
			}
			// probes must not trigger loads themselves: entry exists and is loaded; the origin state stays as the event left it
			got := c.probeAll(w)
			want := c.vector(inForce)
			if got != want {
				class := "previous-list-lost"
				if ev.OK > 0 {
					class = "new-list-not-in-force"
				}
				viols = append(viols, c14Viol{"C08|" + class + "|" + stripAt(ev.Name) + "|" + be(disk),
					fmt.Sprintf("after %s (refresh error: %v) the probes [%s] read %s, the reference (v%d in force) says %s; history %v", ev.Name, rerr, strings.Join(c.names, ","), got, inForce, want, names)})
				return
			}
			_, tmps, _ := ListDir(w.Dir)
			if len(tmps) > 0 {
				viols = append(viols, c14Viol{"C08|temp-residue|" + stripAt(ev.Name) + "|" + be(disk), fmt.Sprintf("temporary artefacts %v remain after %s", tmps, ev.Name)})
			}
		}
		ents := w.Repo().VerifEntries()
		ek := ""
		for _, e := range ents {
			ek += fmt.Sprintf("%v/%v/%v;", e.Loaded, e.LastUpdateSignatureVerifyFailed, e.StoreNil)
		}
		key = fmt.Sprintf("v%d|%s", inForce, ek)
		w.Chk.Cleanup()
	})
	if res.Verdict != vsched.OK {
		viols = append(viols, c14Viol{"C08|" + res.Verdict.String() + "|" + res.PanicSite, firstLines(res.Detail, 6)})
	}
	return
}

func be(disk bool) string {
	if disk {
		return "disk"
	}
	return "mem"
}

func stripAt(s string) string {
	if i := strings.Index(s, "@"); i >= 0 {
		return s[:i]
	}
	return s
}

// ---------------------------------------------------------------- S part: atomicity for concurrent observers

type c08Obs struct {
	Start, End int
	Probe      string
	Verdict    string
}

func c08Scenarios(disk bool) []*schedScenario {
	c := newC08Cast()
	name := func(s string) string { return s + "/" + be(disk) }
	base := CWOpt{Disk: disk, SigMode: config.SignatureValidationModeVerify, Strict: true}
	reader := func(id int, probes ...int) schedOp {
		return schedOp{Name: fmt.Sprintf("reader%d", id), Fn: func(x *schedCtx) string {
			var out []string
			for _, pi := range probes {
				s := vsched.Steps()
				v := x.W[0].Lookup(c.probes[pi], c.chain(c.probes[pi]))
				e := vsched.Steps()
				out = append(out, fmt.Sprintf("%s=%s@%d-%d", c.names[pi], v, s, e))
			}
			return strings.Join(out, ";")
		}}
	}
	setup := func(x *schedCtx) {
		w := NewCW(base)
		x.W = append(x.W, w)
		if err := w.Provision(); err != nil {
			panic(err)
		}
		vsched.Drain()
		w.Net.Serve(urlA, "v1", c.vers[1])
		w.Lookup(c.probes[0], c.chain(c.probes[0]))
		w.Net.Serve(urlA, "v2", c.vers[2])
	}
	refresh := schedOp{Name: "refresh", Fn: func(x *schedCtx) string {
		s := vsched.Steps()
		x.W[0].Chk.VerifUpdateCRLs(true)
		return fmt.Sprintf("refresh@%d-%d", s, vsched.Steps())
	}}
	cfgRefresh := schedOp{Name: "UpdateCRL", Fn: func(x *schedCtx) string {
		s := vsched.Steps()
		chains := core.NewCertificateChains(c.chain(c.probes[0]), nil)
		err := x.W[0].Repo().UpdateCRL(&core.CRLLocations{CRLDistributionPoints: []string{urlA}}, chains)
		return fmt.Sprintf("refresh@%d-%d err=%v", s, vsched.Steps(), err != nil)
	}}
	// fetch_background: the first handshake with the distribution point starts the first fetch in the background while
	// the origin publishes the next list and the update ticker fires. Only the new-only serial is probed (before
	// anything is loaded every serial reads "not revoked", which is the old answer for this one).
	bgBase := base
	bgBase.Background, bgBase.Strict = true, false
	bgSetup := func(x *schedCtx) {
		w := NewCW(bgBase)
		x.W = append(x.W, w)
		if err := w.Provision(); err != nil {
			panic(err)
		}
		vsched.Drain()
		w.Net.Serve(urlA, "v1", c.vers[1])
	}
	publishTick := schedOp{Name: "publish+tick+read", Fn: func(x *schedCtx) string {
		x.W[0].Net.Serve(urlA, "v2", c.vers[2])
		x.W[0].Chk.VerifUpdateCRLs(true)
		return reader(9, 2).Fn(x)
	}}
	bgPost := func(x *schedCtx) string { return reader(8, 2, 0).Fn(x) }
	// the old list is in force and still the one the origin serves when an update run starts; while its download is
	// under way the origin publishes the next list and another update run (a forced one) begins
	setupOld := func(x *schedCtx) {
		w := NewCW(base)
		x.W = append(x.W, w)
		if err := w.Provision(); err != nil {
			panic(err)
		}
		vsched.Drain()
		w.Net.Serve(urlA, "v1", c.vers[1])
		w.Lookup(c.probes[0], c.chain(c.probes[0]))
	}
	// probes: 0 common 1 oldOnly 2 newOnly 4 neither
	scs := []*schedScenario{
		{Name: name("a5-update-run-vs-publish-and-second-run"), Setup: setupOld, Ops: []schedOp{refresh, publishTick}, Post: bgPost},
		{Name: name("a4-background-first-fetch-vs-publish-and-tick"), Setup: bgSetup, Ops: []schedOp{reader(1, 2), publishTick}, Post: bgPost},
		{Name: name("a1-refresh-vs-2readers"), Setup: setup, Ops: []schedOp{refresh, reader(1, 1, 2, 0), reader(2, 2, 1, 4)}},
		// the same with crl_cdp_strict off (a strict lookup first waits for the entry, a lenient one goes straight to the store)
		{Name: name("a6-refresh-vs-2readers-lenient"), Setup: func(x *schedCtx) {
			lenient := base
			lenient.Strict = false
			w := NewCW(lenient)
			x.W = append(x.W, w)
			if err := w.Provision(); err != nil {
				panic(err)
			}
			vsched.Drain()
			w.Net.Serve(urlA, "v1", c.vers[1])
			w.Lookup(c.probes[0], c.chain(c.probes[0]))
			w.Net.Serve(urlA, "v2", c.vers[2])
		}, Ops: []schedOp{refresh, reader(1, 0, 2, 0), reader(2, 0, 1, 4)}},
		{Name: name("a2-configrefresh-vs-reader"), Setup: setup, Ops: []schedOp{cfgRefresh, reader(1, 1, 2, 1, 2)}},
		{Name: name("a3-two-refreshes-vs-reader"), Setup: setup, Ops: []schedOp{refresh, cfgRefresh, reader(1, 2, 1, 0)}, ThoroughOnly: true},
	}
	// on disk the file and database operations are scheduling points as well
	if disk {
		for _, sc := range scs {
			sc.Cfg.EffectsArePoints = true
		}
	}
	return scs
}

// c08JudgeAtomic checks one execution's observations.
func c08JudgeAtomic(obs []string) (sig, what string) {
	type o struct {
		probe, verdict string
		s, e           int
	}
	var all []o
	for _, line := range obs {
		for _, item := range strings.Split(line, ";") {
			if !strings.Contains(item, "=") || strings.HasPrefix(item, "refresh") {
				continue
			}
			var x o
			eq := strings.Index(item, "=")
			at := strings.Index(item, "@")
			x.probe, x.verdict = item[:eq], item[eq+1:at]
			fmt.Sscanf(item[at+1:], "%d-%d", &x.s, &x.e)
			all = append(all, x)
		}
	}
	for _, x := range all {
		switch x.probe {
		case "common":
			if x.verdict != "REVOKED" {
				return "C08|atomicity|common-not-revoked", fmt.Sprintf("probe listed in both lists read %s during a refresh", x.verdict)
			}
		case "neither":
			if x.verdict != "OK" {
				return "C08|atomicity|neither-not-ok", fmt.Sprintf("probe listed in neither list read %s during a refresh", x.verdict)
			}
		default:
			if x.verdict != "OK" && x.verdict != "REVOKED" {
				return "C08|atomicity|lookup-" + x.verdict, fmt.Sprintf("lookup of %s during a refresh returned %s", x.probe, x.verdict)
			}
		}
	}
	// classify oldOnly/newOnly answers as OLD / NEW and check the single switch point in real-time order
	ver := func(x o) string {
		if (x.probe == "oldOnly" && x.verdict == "REVOKED") || (x.probe == "newOnly" && x.verdict == "OK") {
			return "OLD"
		}
		if (x.probe == "oldOnly" && x.verdict == "OK") || (x.probe == "newOnly" && x.verdict == "REVOKED") {
			return "NEW"
		}
		return ""
	}
	for _, a := range all {
		if ver(a) != "NEW" {
			continue
		}
		for _, b := range all {
			if ver(b) == "OLD" && b.s > a.e {
				return "C08|atomicity|old-after-new", fmt.Sprintf("lookup %s=%s started (step %d) after lookup %s=%s had returned the new list (step %d) and still saw the old list", b.probe, b.verdict, b.s, a.probe, a.verdict, a.e)
			}
		}
	}
	return "", ""
}

func findC08Scenario(name string) *schedScenario {
	for _, disk := range []bool{false, true} {
		for _, sc := range c08Scenarios(disk) {
			if sc.Name == name {
				return sc
			}
		}
	}
	return nil
}

// c08Rollover: the CA is re-keyed. The next list is signed with the new key (same issuer name): the refresh is refused
// (signer unknown to the validator) and the old list stays; a client of the new generation presents the new CA
// certificate in its chain; from then on refreshes are accepted again - "a later successful refresh still takes effect".
// With and without accepted refreshes before the re-key (whatever an accepted refresh remembers must not stand in the way).
func c08Rollover(chk *fw.Check, c *c08Cast) (n int) {
	newCA := c.p.Sibling
	for _, disk := range []bool{false, true} {
		for _, bg := range []bool{false, true} {
			for before := 0; before <= 2; before++ {
				n++
				disk, bg, before := disk, bg, before
				label := fmt.Sprintf("signer-rollover accepted-refreshes-before=%d fetch=%s %s", before, map[bool]string{false: "actively", true: "background"}[bg], be(disk))
				res := seqWorld(func() {
					w := NewCW(CWOpt{Disk: disk, SigMode: config.SignatureValidationModeVerify, Background: bg})
					defer os.RemoveAll(w.Dir)
					if err := w.Provision(); err != nil {
						panic(err)
					}
					vsched.Drain()
					tick := func() { w.Chk.VerifUpdateCRLs(true); vsched.Drain() }
					expect := func(step string, want string) bool {
						if got := c.probeAll(w); got != want {
							chk.Violation("C08|rollover|"+step, fmt.Sprintf("%s, %s: probes [%s], expected [%s]", label, step, got, want), nil)
							return false
						}
						vsched.Drain()
						return true
					}
					w.Net.Serve(urlA, "v1", c.vers[1])
					w.Lookup(c.probes[0], c.chain(c.probes[0]))
					vsched.Drain()
					if !expect("first-load", c.vector(1)) {
						return
					}
					inForce := 1
					for i := 0; i < before; i++ {
						inForce = 2 + i
						w.Net.Serve(urlA, fmt.Sprint("v", inForce), c.vers[inForce])
						tick()
						if !expect("accepted-refresh-before-the-re-key", c.vector(inForce)) {
							return
						}
					}
					// the re-keyed CA publishes a list naming the serial which only list 2 names
					w.Net.Serve(urlA, "rekeyed", world.SimpleCRL(newCA, 9, 101, 102).DER())
					tick()
					if !expect("refresh-signed-with-the-new-key-before-the-validator-knows-it", c.vector(inForce)) {
						return
					}
					nl := world.Leaf(newCA, bi(777), []string{urlA}, nil)
					w.Lookup(nl, world.Chain(nl, newCA, c.p.Root))
					vsched.Drain()
					tick()
					if !expect("refresh-after-a-handshake-presented-the-new-CA-certificate", c.vector(2)) {
						return
					}
					tick()
					expect("second-refresh-after-the-roll-over", c.vector(2))
					w.Chk.Cleanup()
				})
				if res.Verdict != vsched.OK {
					chk.Violation("C08|"+res.Verdict.String()+"|rollover", label+": "+firstLines(res.Detail, 5), nil)
				}
			}
		}
	}
	return
}

// c08InterruptedDownload: the download of a refresh breaks off in the middle of the list of entries; by the time the
// loader tries again the distribution point publishes the next issue (same layout, the same four serials in another
// order) and - like any static file server - answers byte-range requests. Signature validation is off (none) or only
// logged (verify_log), so nothing but the loader stands between a mixture of two issues and the store: what is in force
// afterwards names all four serials (either issue does), never the head of one issue joined to the tail of the other.
func c08InterruptedDownload(chk *fw.Check, c *c08Cast) (n int) {
	old := world.SimpleCRL(c.p.CA, 5, 101, 105, 102, 103).DER()
	// (the length of an ECDSA signature varies by an octet or two: the first later issue as long as the old one)
	var next []byte
	for number := int64(6); number < 60 && len(next) != len(old); number++ {
		next = world.SimpleCRL(c.p.CA, number, 102, 103, 101, 105).DER()
	}
	if len(old) != len(next) {
		panic("c08 cast: no later issue of the same length")
	}
	cut := bytes.Index(old, []byte{0x02, 0x01, 102}) - 2 // the start of the third entry
	if cut <= 0 {
		panic("c08 cast: third entry not found")
	}
	want := "REVOKED,REVOKED,REVOKED,REVOKED,OK"
	for _, disk := range []bool{false, true} {
		for _, mode := range []config.SignatureValidationMode{config.SignatureValidationModeNone, config.SignatureValidationModeVerifyLog} {
			n++
			disk, mode := disk, mode
			label := fmt.Sprintf("interrupted-download-while-the-next-issue-is-published sig=%d %s", mode, be(disk))
			res := seqWorld(func() {
				w := NewCW(CWOpt{Disk: disk, SigMode: mode})
				defer os.RemoveAll(w.Dir)
				if err := w.Provision(); err != nil {
					panic(err)
				}
				vsched.Drain()
				w.Net.Serve(urlA, "issue-5", old)
				w.Lookup(c.probes[0], c.chain(c.probes[0]))
				vsched.Drain()
				if got := c.probeAll(w); got != want {
					chk.Violation("C08|interrupted-download|first-load", fmt.Sprintf("%s: probes [%s], expected [%s]", label, got, want), nil)
					return
				}
				attempt, from, ranged := 0, 0, 0
				w.Net.Routes[urlA] = &world.Behaviour{Label: "breaks-off-then-next-issue",
					Fn: func(req *httpRequestAlias, body []byte) (int, []byte, error) {
						attempt++
						from = 0
						if r := req.Header.Get("Range"); attempt > 1 && strings.HasPrefix(r, "bytes=") && strings.HasSuffix(r, "-") {
							fmt.Sscanf(r, "bytes=%d-", &from)
							if from > 0 && from < len(next) {
								ranged++
								return 206, nil, nil
							}
							from = 0
						}
						return 200, nil, nil
					},
					Stream: func() io.ReadCloser {
						if attempt == 1 {
							return &brokenBody{data: old[:cut]}
						}
						return io.NopCloser(bytes.NewReader(next[from:]))
					}}
				w.Chk.VerifUpdateCRLs(true)
				vsched.Drain()
				if got := c.probeAll(w); got != want {
					chk.Violation("C08|mixed-list-in-force|interrupted-download|"+be(disk), fmt.Sprintf("%s: after the refresh (%d attempts, %d answered as byte range) the probes read [%s]; either issue gives [%s]", label, attempt, ranged, got, want), nil)
					return
				}
				w.Chk.VerifUpdateCRLs(true)
				vsched.Drain()
				if got := c.probeAll(w); got != want {
					chk.Violation("C08|mixed-list-in-force|refresh-after-an-interrupted-download|"+be(disk), fmt.Sprintf("%s: after one more refresh the probes read [%s], expected [%s]", label, got, want), nil)
				}
				w.Chk.Cleanup()
			})
			if res.Verdict != vsched.OK {
				chk.Violation("C08|"+res.Verdict.String()+"|interrupted-download", label+": "+firstLines(res.Detail, 5), nil)
			}
		}
	}
	return
}

// c08Mirror: a certificate names two distribution points. One refresh finds the first one down and is served by the
// second (a mirror); afterwards the first one is back with the next list while the mirror still has the old one. A
// successful refresh puts in force what the preferred (first) distribution point publishes - as it did before the outage.
func c08Mirror(chk *fw.Check, c *c08Cast) (n int) {
	const url1, url2 = "http://crl.test/primary.crl", "http://mirror.test/copy.crl"
	var probes []*world.Ident
	for _, pr := range c.probes {
		probes = append(probes, world.Leaf(c.p.CA, pr.Cert.SerialNumber, []string{url1, url2}, nil))
	}
	for _, disk := range []bool{false, true} {
		for _, bgv := range []int{0, 1, 2, 3} {
			n++
			disk, bg, firstDownAtFirstLoad := disk, bgv%2 == 1, bgv >= 2
			label := fmt.Sprintf("two-distribution-points fetch=%s %s first-point-down-at-the-first-load=%v", map[bool]string{false: "actively", true: "background"}[bg], be(disk), firstDownAtFirstLoad)
			res := seqWorld(func() {
				w := NewCW(CWOpt{Disk: disk, SigMode: config.SignatureValidationModeVerify, Background: bg})
				defer os.RemoveAll(w.Dir)
				if err := w.Provision(); err != nil {
					panic(err)
				}
				vsched.Drain()
				tick := func() { w.Chk.VerifUpdateCRLs(true); vsched.Drain() }
				expect := func(step string, v int) bool {
					var out []string
					for _, pr := range probes {
						out = append(out, w.Lookup(pr, c.chain(pr)).String())
					}
					vsched.Drain()
					if got := strings.Join(out, ","); got != c.vector(v) {
						chk.Violation("C08|mirror|"+step, fmt.Sprintf("%s, %s: probes [%s], expected list %d [%s]", label, step, got, v, c.vector(v)), nil)
						return false
					}
					return true
				}
				w.Net.Serve(url1, "v1", c.vers[1])
				w.Net.Serve(url2, "v1", c.vers[1])
				if firstDownAtFirstLoad {
					// the outage of the first point falls on the very first load: the list comes from the mirror
					w.Net.Down(url1)
				}
				w.Lookup(probes[0], c.chain(probes[0]))
				vsched.Drain()
				if !expect("first-load", 1) {
					return
				}
				w.Net.Down(url1)
				w.Net.Serve(url2, "v2", c.vers[2])
				tick()
				if !expect("refresh-served-by-the-second-distribution-point", 2) {
					return
				}
				w.Net.Serve(url1, "v3", c.vers[3])
				tick()
				if !expect("refresh-after-the-first-distribution-point-is-back-with-the-next-list", 3) {
					return
				}
				tick()
				expect("one-more-refresh", 3)
				w.Chk.Cleanup()
			})
			if res.Verdict != vsched.OK {
				chk.Violation("C08|"+res.Verdict.String()+"|mirror", label+": "+firstLines(res.Detail, 5), nil)
			}
		}
	}
	return
}

// RunC08 is the entry point of the C08 check.
func RunC08(tier string, args []string) int {
	if len(args) > 0 && args[0] == "worker" {
		sc := findC08Scenario(args[1])
		atoi := func(s string) int { n, _ := strconv.Atoi(s); return n }
		out := exploreShardCustom(sc, "C08", atoi(args[2]), atoi(args[3]), time.Unix(int64(atoi(args[4])), 0), atoi(args[5]), atoi(args[6]), c08JudgeAtomic)
		b, _ := json.Marshal(out)
		fmt.Println(string(b))
		return 0
	}
	chk := fw.NewCheck("C08", tier, "model_checking")
	chk.Assumptions = []string{
		"schedule half: all interleavings of one or two refreshes with 1-2 reader threads (2-4 lookups each) up to the reported preemption bound; oracle on the call/return history (scheduler step stamps): single switch point, no mixed/empty list, no lookup error",
		"failure half: explicit-state exploration of refresh histories (2 successes + 20 failure kinds incl. injected staging-store faults) with all probes checked after every event against the reference 'last accepted version'",
		"faults during the directory swap itself are not judged here (C12/C09)",
	}
	c := newC08Cast()
	evs := c08Events(c)
	depth := 2
	if tier == "thorough" {
		depth = 3
	}
	total := fw.HStats{}
	exhaustive := true
	deadline := time.Now().Add(60 * time.Minute)
	for _, disk := range []bool{false, true} {
		for _, variant := range c08Variants(c) {
			variant := variant
			via := variant.Name
			st := fw.BFS(len(evs), depth, 0, deadline, func(hist []int) (string, bool) {
				key, viols := c08RunHistory(c, evs, disk, variant, hist)
				for _, v := range viols {
					names := make([]string, len(hist))
					for i, e := range hist {
						names[i] = evs[e].Name
					}
					chk.Violation(v.Sig, v.What+fmt.Sprintf(" [backend=%s via=%s]", be(disk), via), map[string]interface{}{"driver": "C08-H", "disk": disk, "via": via, "history": hist, "events": names})
				}
				// no dedup across different histories beyond the canonical key + last event (origin state matters)
				last := -1
				if len(hist) > 0 {
					last = hist[len(hist)-1]
				}
				return fmt.Sprintf("%s|last=%d", key, last), len(viols) == 0
			})
			total.States += st.States
			total.Transitions += st.Transitions
			total.Pruned += st.Pruned
			if st.Capped {
				exhaustive = false
			}
			fmt.Printf("  H backend=%s via=%s: states=%d transitions=%d depth=%d\n", be(disk), via, st.States, st.Transitions, st.DepthDone)
		}
	}
	// signer roll-over and distribution-point fail-over histories (fixed histories, every step judged)
	total.States += c08Rollover(chk, c)
	total.States += c08Mirror(chk, c)
	total.States += c08InterruptedDownload(chk, c)
	// schedule half
	bound, maxExec := 2, 300000
	perScenario, nshards := 120*time.Second, 16
	if tier == "thorough" {
		bound, maxExec = 3, 20000000
		perScenario, nshards = 30*time.Minute, 64
	}
	var reports []schedReport
	execs, points := 0, 0
	for _, disk := range []bool{false, true} {
		for _, sc := range c08Scenarios(disk) {
			if sc.ThoroughOnly && tier != "thorough" {
				continue
			}
			b := bound
			if disk && tier != "thorough" {
				b = 1
			}
			outs := runWorkers("C08", sc.Name, b, maxExec/nshards+1, time.Now().Add(perScenario), nshards)
			rep := mergeWorkerOuts(chk, sc.Name, outs)
			reports = append(reports, rep)
			execs += rep.Executions
			points += rep.Points
			if rep.Capped {
				exhaustive = false
			}
			fmt.Printf("  S %-36s execs=%d per-bound=%v depth=%d outcomes=%d capped=%v %.1fs\n", sc.Name, rep.Executions, rep.PerBound, rep.MaxDepth, len(rep.Outcomes), rep.Capped, rep.WallS)
		}
	}
	var evNames []string
	for _, e := range evs {
		evNames = append(evNames, e.Name)
	}
	cov := fw.Coverage{
		"states":                        total.States + execs,
		"transitions":                   total.Transitions + points,
		"traces_validated_against_impl": total.Transitions + execs,
		"history_states":                total.States,
		"history_transitions":           total.Transitions,
		"schedule_executions":           execs,
		"schedule_choice_points":        points,
		"history_depth":                 depth,
		"event_alphabet":                evNames,
		"schedule_scenarios":            reports,
		"samples":                       []interface{}{[]string{"fail:bad-signature", "refresh-ok(v3)"}, []string{"fail:staging-insert#2", "fail:truncated@40"}, "a1-refresh-vs-2readers: refresh || reader(oldOnly,newOnly,common) || reader(newOnly,oldOnly,neither)"},
		"exhaustive":                    exhaustive,
	}
	return chk.Finish(cov)
}

func init() { registry["C08"] = RunC08 }
