package drivers

import (
	"crypto/x509"
	"fmt"
	"os"
	"path/filepath"
	"sort"
	"strings"
	"time"

	"github.com/gr33nbl00d/caddy-revocation-validator/config"

	"verif/h/fw"
	"verif/h/rt/vsched"
	"verif/h/world"
)

// C15: refresh liveness. The real ticker goroutines run under the virtual
// clock; the run is a discrete-event simulation up to 6 x the largest interval.

type c15Cfg struct {
	N          int             // validator instances
	Intervals  []time.Duration // per instance
	Phases     []time.Duration // provision time offset of instance i (i>0) relative to instance 0
	Dur        time.Duration   // duration of a download (virtual)
	Script     string          // per-location outcome script after publication of v2: e.g. "ffo" = fail, fail, ok (then ok forever)
	Sig        config.SignatureValidationMode
	Background bool
	Source     string // crl_files | crl_urls | cdp
	// LateCDP > 0: that long after the start instance 0 sees a handshake naming a distribution point it has not seen
	// before (in fetch_background this starts a forced update between two ticks)
	LateCDP time.Duration
	// OldMtime: the replacement of a crl_file carries a modification time older than the file it replaces (cp -p, rsync -t,
	// restored backups)
	OldMtime bool
	// LateEvery: before every tick (3 minutes earlier) instance 0 sees a handshake naming yet another new distribution point
	LateEvery bool
	// FirstDown (source cdp): the origin refuses connections while the location is seen for the first time; it is up
	// from then on
	FirstDown bool
	// OddCDP > 0: that long after the start instance 0 sees a handshake whose certificate names a distribution point
	// which cannot be used - a URI with an octet outside ASCII (not valid UTF-8), a second one with an unsupported scheme
	OddCDP time.Duration
	// Moved (sources crl_urls, cdp): from the publication of the next list on the origin answers the known address with
	// a redirect (301 / 307 / 308) to a new one, where the next list is served
	Moved int
	// FailedSibling: after the instances were provisioned, one more validator of the process fails to provision (its
	// configured crl_file does not exist) and is cleaned up
	FailedSibling bool
	// Stale: the lists the origin serves are past their nextUpdate already (an issuer which is late; what the validator
	// does with such a list is not the point here - refreshing goes on)
	Stale bool
	// Rekeyed: two signers are configured as trusted - the CA certificate and the certificate of its re-keyed successor
	// (same name, new key). The first list is signed with the old key, the list published later with the new one: it is
	// a list a configured trusted signer issued, i.e. an acceptable one
	Rekeyed bool
	// Bare: the lists carry no crlExtensions (no cRLNumber, no authority key identifier), like v1 lists
	Bare bool
	// DeadNeighbours: the validator has four more configured crl_urls which are gone for good once it runs (their
	// identifiers sort before and behind the one under observation): what cannot be refreshed does not keep the rest from
	// being refreshed
	DeadNeighbours bool
}

func (c c15Cfg) String() string {
	sm := map[config.SignatureValidationMode]string{config.SignatureValidationModeVerify: "verify", config.SignatureValidationModeVerifyLog: "verify_log", config.SignatureValidationModeNone: "none"}[c.Sig]
	late := ""
	if c.OldMtime {
		late = " replacement-with-older-mtime"
	}
	if c.LateEvery {
		late += " new-cdp-before-every-tick"
	}
	if c.LateCDP > 0 {
		late += fmt.Sprintf(" new-cdp-at=+%s", c.LateCDP)
	}
	if c.FirstDown {
		late += " origin-down-at-first-use"
	}
	if c.OddCDP > 0 {
		late += fmt.Sprintf(" unusable-cdp-at=+%s", c.OddCDP)
	}
	if c.Moved != 0 {
		late += fmt.Sprintf(" origin-redirects-%d-from-publication-on", c.Moved)
	}
	if c.FailedSibling {
		late += " another-validator-failed-to-provision"
	}
	if c.Stale {
		late += " lists-past-their-nextUpdate"
	}
	if c.Rekeyed {
		late += " next-list-signed-by-the-second-trusted-signer"
	}
	if c.Bare {
		late += " lists-without-crlExtensions"
	}
	if c.DeadNeighbours {
		late += " four-other-configured-urls-gone-for-good"
	}
	return fmt.Sprintf("instances=%d intervals=%v phases=%v download=%s script=%q sig=%s background=%v source=%s%s", c.N, c.Intervals, c.Phases, c.Dur, c.Script, sm, c.Background, c.Source, late)
}

type c15Obs struct {
	Viols   []c14Viol
	Fetches map[string][]time.Duration // per location URL: attempt times (relative to epoch)
}

func c15URL(i int) string { return fmt.Sprintf("http://crl.test/inst%d.crl", i) }

func c15Run(cfg c15Cfg) (o c15Obs) {
	p := world.Std()
	o.Fetches = map[string][]time.Duration{}
	maxI := time.Duration(0)
	for _, iv := range cfg.Intervals {
		if iv > maxI {
			maxI = iv
		}
	}
	horizon := 6 * maxI
	res := seqWorld(func() {
		net := world.NewNet()
		var ws []*CW
		files := FreshDir("c15f")
		defer os.RemoveAll(files)
		mkList := func(n int64, serials ...int64) []byte {
			sp := world.SimpleCRL(p.CA, n, serials...)
			if cfg.Stale {
				sp.ThisUpdate, sp.NextUpdate = vsched.Epoch.Add(-48*time.Hour), vsched.Epoch.Add(-24*time.Hour)
			}
			if cfg.Bare {
				sp.Exts = nil
			}
			return sp.DER()
		}
		v1 := mkList(1, 801)
		v2 := mkList(2, 801, 802)
		if cfg.Rekeyed {
			v2 = world.SimpleCRL(p.Sibling, 2, 801, 802).DER()
		}
		v2badSpec := world.SimpleCRL(p.CA, 3, 801, 802)
		v2badSpec.BadSig = true
		v2bad := v2badSpec.DER()
		publishedAt := make([]time.Time, cfg.N) // when v2 became obtainable (script turned ok) per instance
		attemptsAfterPublish := make([]int, cfg.N)
		published := false
		serve := func(i int) {
			url := c15URL(i)
			net.Routes[url] = &world.Behaviour{Label: "crl", Delay: cfg.Dur, Fn: func(req *httpRequestAlias, body []byte) (int, []byte, error) {
				if !published {
					return 200, v1, nil
				}
				k := attemptsAfterPublish[i]
				attemptsAfterPublish[i]++
				if k < len(cfg.Script) {
					switch cfg.Script[k] {
					case 'f':
						return 0, nil, world.ErrRefused
					case 'b': // a well-formed successor whose signature does not verify
						return 200, v2bad, nil
					case 'g':
						return 200, []byte("<html>maintenance</html>"), nil
					}
				}
				if publishedAt[i].IsZero() {
					publishedAt[i] = vsched.Now()
				}
				return 200, v2, nil
			}}
		}
		fileOf := func(i int) string { return filepath.Join(files, fmt.Sprintf("inst%d.crl", i)) }
		leaf := func(i int, serial int64) (*world.Ident, [][]*x509.Certificate) {
			var cdp []string
			if cfg.Source == "cdp" {
				cdp = []string{c15URL(i)}
			}
			l := world.Leaf(p.CA, bi(serial), cdp, nil)
			return l, world.Chain(l, p.CA, p.Root)
		}
		provision := func(i int) {
			o2 := CWOpt{Disk: false, SigMode: cfg.Sig, Background: cfg.Background, Net: net, Interval: cfg.Intervals[i].String(), Trusted: []*x509.Certificate{p.CA.Cert}}
			if cfg.Rekeyed {
				o2.Trusted = append(o2.Trusted, p.Sibling.Cert)
			}
			switch cfg.Source {
			case "crl_urls":
				o2.URLs = []string{c15URL(i)}
				if cfg.DeadNeighbours {
					for k := 0; k < 4; k++ {
						u := fmt.Sprintf("http://crl.test/neighbour-%d-of-inst%d.crl", k, i)
						net.Serve(u, "neighbour", world.SimpleCRL(p.CA, 1, int64(840+k)).DER())
						o2.URLs = append(o2.URLs, u)
						defer net.Down(u) // gone as soon as the validator is provisioned
					}
				}
			case "crl_files":
				os.WriteFile(fileOf(i), v1, 0644)
				o2.Files = []string{fileOf(i)}
			}
			serve(i)
			w := NewCW(o2)
			ws = append(ws, w)
			if err := w.Provision(); err != nil {
				o.Viols = append(o.Viols, c14Viol{"C15|provision-fails|source=" + cfg.Source + fmt.Sprintf(" background=%v", cfg.Background), "Provision failed: " + err.Error()})
				return
			}
			// (c) configured CRLs are in force by the time provisioning returns
			if cfg.Source != "cdp" {
				l, ch := leaf(i, 801)
				if v := w.Lookup(l, ch); !v.Rejected() {
					o.Viols = append(o.Viols, c14Viol{"C15|configured-crl-not-in-force-after-provision|source=" + cfg.Source + fmt.Sprintf(" background=%v", cfg.Background),
						fmt.Sprintf("instance %d: a certificate listed in the configured %s CRL is accepted right after Provision returned", i, cfg.Source)})
				}
			}
			vsched.Drain()
			if cfg.Source == "cdp" {
				// first use makes the location known
				l, ch := leaf(i, 801)
				if cfg.FirstDown {
					net.Down(c15URL(i))
				}
				w.Lookup(l, ch)
				vsched.Drain()
				if cfg.FirstDown {
					serve(i)
				}
			}
		}
		provision(0)
		for i := 1; i < cfg.N; i++ {
			// phases are cumulative offsets from instance 0
			d := cfg.Phases[i-1]
			if i > 1 {
				d -= cfg.Phases[i-2]
			}
			vsched.Advance(d)
			provision(i)
		}
		if len(o.Viols) > 0 {
			return
		}
		if cfg.FailedSibling {
			doomed := NewCW(CWOpt{Disk: false, SigMode: cfg.Sig, Background: cfg.Background, Net: net, Interval: cfg.Intervals[0].String(), Files: []string{filepath.Join(files, "does-not-exist.crl")}})
			if err := doomed.Provision(); err == nil {
				o.Viols = append(o.Viols, c14Viol{"C15|harness|doomed-validator-provisioned", "a validator whose configured crl_file does not exist was provisioned"})
				return
			}
			doomed.Chk.Cleanup()
			os.RemoveAll(doomed.Dir)
			vsched.Drain()
		}
		start := vsched.Now()
		publishAt := start.Add(maxI + maxI/2)
		B := func(i int) time.Duration { return 2*cfg.Intervals[i] + cfg.Dur*time.Duration(cfg.N) + 5*time.Second }
		checked := make([]bool, cfg.N)
		const urlLate = "http://crl.test/late.crl"
		lateDone, oddDone := false, false
		lateK := 1
		for vsched.Now().Before(start.Add(horizon)) {
			if cfg.LateEvery && !vsched.Now().Before(start.Add(time.Duration(lateK)*cfg.Intervals[0]-3*time.Minute)) {
				u := fmt.Sprintf("http://crl.test/late%d.crl", lateK)
				net.Routes[u] = &world.Behaviour{Label: "late", Delay: cfg.Dur, Body: world.SimpleCRL(p.CA, 1, 811).DER()}
				l := world.Leaf(p.CA, bi(int64(820+lateK)), []string{u}, nil)
				ws[0].Lookup(l, world.Chain(l, p.CA, p.Root))
				vsched.Drain()
				lateK++
			}
			if cfg.LateCDP > 0 && !lateDone && !vsched.Now().Before(start.Add(cfg.LateCDP)) {
				lateDone = true
				net.Routes[urlLate] = &world.Behaviour{Label: "late", Delay: cfg.Dur, Body: world.SimpleCRL(p.CA, 1, 811).DER()}
				l := world.Leaf(p.CA, bi(812), []string{urlLate}, nil)
				ws[0].Lookup(l, world.Chain(l, p.CA, p.Root))
				vsched.Drain()
			}
			if cfg.OddCDP > 0 && !oddDone && !vsched.Now().Before(start.Add(cfg.OddCDP)) {
				oddDone = true
				for k, u := range []string{"http://crl.test/caf\xe9.crl", "gopher://crl.test/x.crl", "http://crl.test/%zz.crl", "http://[::1/x.crl"} {
					l := world.Leaf(p.CA, bi(int64(830+k)), []string{u}, nil)
					ws[0].Lookup(l, world.Chain(l, p.CA, p.Root))
					vsched.Drain()
				}
			}
			if !published && !vsched.Now().Before(publishAt) && cfg.Moved != 0 {
				for i := 0; i < cfg.N; i++ {
					moved := c15URL(i) + ".new"
					net.Routes[moved] = &world.Behaviour{Label: "crl-at-new-address", Delay: cfg.Dur, Body: v2}
					net.Routes[c15URL(i)] = &world.Behaviour{Label: "moved", Redirect: cfg.Moved, RedirectTo: moved}
					publishedAt[i] = vsched.Now()
				}
			}
			if !published && !vsched.Now().Before(publishAt) {
				published = true
				if cfg.Source == "crl_files" {
					for i := 0; i < cfg.N; i++ {
						os.WriteFile(fileOf(i), v2, 0644)
						if cfg.OldMtime {
							old := time.Date(2001, 2, 3, 4, 5, 6, 0, time.UTC)
							os.Chtimes(fileOf(i), old, old)
						}
						publishedAt[i] = vsched.Now()
					}
				}
			}
			vsched.AdvanceStep(time.Minute)
			// (b) after publication + B the newly revoked certificate is rejected
			for i, w := range ws {
				if published && !publishedAt[i].IsZero() && !checked[i] && vsched.Now().Sub(publishedAt[i]) > B(i) {
					checked[i] = true
					l, ch := leaf(i, 802)
					if v := w.Lookup(l, ch); !v.Rejected() {
						rk := ""
						if cfg.Rekeyed {
							rk = " next-list-signed-by-the-second-trusted-signer"
						}
						if cfg.Bare {
							rk += " lists-without-crlExtensions"
						}
						if cfg.DeadNeighbours {
							rk += " four-other-configured-urls-gone-for-good"
						}
						o.Viols = append(o.Viols, c14Viol{fmt.Sprintf("C15|new-revocation-not-enforced|source=%s sig=%d background=%v instances=%d%s", cfg.Source, cfg.Sig, cfg.Background, cfg.N, rk),
							fmt.Sprintf("instance %d (interval %s): certificate revoked in the CRL obtainable since %s is still accepted at %s (bound %s)", i, cfg.Intervals[i], publishedAt[i].Sub(start), vsched.Now().Sub(start), B(i))})
					}
					vsched.Drain()
				}
			}
		}
		// (a) every known location is fetched again within B (gaps between consecutive attempts, and until the horizon)
		for _, h := range net.Hits {
			o.Fetches[h.URL] = append(o.Fetches[h.URL], h.At.Sub(start))
		}
		if cfg.Source != "crl_files" {
			for i := 0; i < cfg.N; i++ {
				ts := append([]time.Duration{}, o.Fetches[c15URL(i)]...)
				sort.Slice(ts, func(a, b int) bool { return ts[a] < ts[b] })
				prev := time.Duration(0)
				if len(ts) > 0 && ts[0] < 0 {
					prev = 0
				}
				worst, at := time.Duration(0), time.Duration(0)
				for _, t := range ts {
					if t <= 0 {
						continue
					}
					if t-prev > worst {
						worst, at = t-prev, prev
					}
					prev = t
				}
				if horizon-prev > worst {
					worst, at = horizon-prev, prev
				}
				if worst > B(i) {
					o.Viols = append(o.Viols, c14Viol{fmt.Sprintf("C15|location-not-refetched|instances=%d source=%s", cfg.N, cfg.Source),
						fmt.Sprintf("instance %d (interval %s): no fetch attempt of %s for %s starting at +%s (bound %s); attempts at %v", i, cfg.Intervals[i], c15URL(i), worst, at, B(i), ts)})
				}
			}
		}
		for _, w := range ws {
			w.Chk.Cleanup()
		}
	})
	if res.Verdict != vsched.OK {
		o.Viols = append(o.Viols, c14Viol{"C15|" + res.Verdict.String() + "|" + res.PanicSite, firstLines(res.Detail, 6)})
	}
	return
}

func c15Configs(tier string) []c15Cfg {
	var out []c15Cfg
	I := 10 * time.Minute
	phases := []time.Duration{0, time.Second, I / 4, I/2 - time.Second, I/2 + time.Second}
	sigs := []config.SignatureValidationMode{config.SignatureValidationModeVerify, config.SignatureValidationModeVerifyLog, config.SignatureValidationModeNone}
	scripts := []string{"", "f", "ff", "fo", "fff", "b", "bb", "g", "bg", "fb"}
	if tier != "thorough" {
		scripts = []string{"", "f", "ff", "b", "g"}
	}
	// single instance: all sources x sig x fetch x script x duration
	for _, src := range []string{"crl_files", "crl_urls", "cdp"} {
		for _, sg := range sigs {
			for _, bg := range []bool{false, true} {
				for _, sc := range scripts {
					for _, d := range []time.Duration{0, 5 * time.Second} {
						out = append(out, c15Cfg{N: 1, Intervals: []time.Duration{I}, Dur: d, Script: sc, Sig: sg, Background: bg, Source: src})
					}
				}
			}
		}
	}
	// new distribution points keep arriving shortly before every tick
	for _, src := range []string{"crl_urls", "cdp"} {
		for _, bg := range []bool{false, true} {
			out = append(out, c15Cfg{N: 1, Intervals: []time.Duration{I}, Script: "", Sig: config.SignatureValidationModeVerify, Background: bg, Source: src, LateEvery: true})
		}
	}
	// the origin is down when the distribution point is first seen; distribution points which cannot be used at all
	for _, sg := range sigs {
		for _, bg := range []bool{false, true} {
			for _, sc := range []string{"", "f"} {
				out = append(out, c15Cfg{N: 1, Intervals: []time.Duration{I}, Script: sc, Sig: sg, Background: bg, Source: "cdp", FirstDown: true})
			}
			for _, src := range []string{"crl_urls", "cdp"} {
				out = append(out, c15Cfg{N: 1, Intervals: []time.Duration{I}, Script: "", Sig: sg, Background: bg, Source: src, OddCDP: I / 2})
				out = append(out, c15Cfg{N: 2, Intervals: []time.Duration{I, I}, Phases: []time.Duration{time.Second}, Script: "", Sig: sg, Background: bg, Source: src, OddCDP: I / 2})
			}
		}
	}
	// lists which are past their nextUpdate
	for _, src := range []string{"crl_files", "crl_urls", "cdp"} {
		for _, bg := range []bool{false, true} {
			out = append(out, c15Cfg{N: 1, Intervals: []time.Duration{I}, Script: "", Sig: config.SignatureValidationModeVerify, Background: bg, Source: src, Stale: true})
		}
	}
	// another validator of the process fails to provision
	for _, src := range []string{"crl_files", "crl_urls", "cdp"} {
		for _, bg := range []bool{false, true} {
			out = append(out, c15Cfg{N: 1, Intervals: []time.Duration{I}, Script: "", Sig: config.SignatureValidationModeVerify, Background: bg, Source: src, FailedSibling: true})
		}
	}
	// the origin moves the list: redirects from the publication of the next list on
	for _, code := range []int{301, 307, 308} {
		for _, src := range []string{"crl_urls", "cdp"} {
			for _, bg := range []bool{false, true} {
				out = append(out, c15Cfg{N: 1, Intervals: []time.Duration{I}, Script: "", Sig: config.SignatureValidationModeVerify, Background: bg, Source: src, Moved: code})
			}
		}
	}
	// four other configured locations are gone for good
	for _, bg := range []bool{false, true} {
		out = append(out, c15Cfg{N: 1, Intervals: []time.Duration{I}, Script: "", Sig: config.SignatureValidationModeVerify, Background: bg, Source: "crl_urls", DeadNeighbours: true})
	}
	// lists without crlExtensions
	for _, src := range []string{"crl_files", "crl_urls", "cdp"} {
		for _, bg := range []bool{false, true} {
			out = append(out, c15Cfg{N: 1, Intervals: []time.Duration{I}, Script: "", Sig: config.SignatureValidationModeVerify, Background: bg, Source: src, Bare: true})
		}
	}
	// the CA was re-keyed, both certificates are configured as trusted signers
	for _, src := range []string{"crl_files", "crl_urls", "cdp"} {
		for _, bg := range []bool{false, true} {
			for _, sg := range []config.SignatureValidationMode{config.SignatureValidationModeVerify, config.SignatureValidationModeVerifyLog} {
				out = append(out, c15Cfg{N: 1, Intervals: []time.Duration{I}, Script: "", Sig: sg, Background: bg, Source: src, Rekeyed: true})
			}
		}
	}
	// a crl_file replaced by a newer list whose modification time is older
	for _, bg := range []bool{false, true} {
		out = append(out, c15Cfg{N: 1, Intervals: []time.Duration{I}, Script: "", Sig: config.SignatureValidationModeVerify, Background: bg, Source: "crl_files", OldMtime: true})
	}
	// a distribution point seen for the first time between two ticks (2 and 7 minutes after the second tick)
	for _, src := range []string{"crl_urls", "cdp"} {
		for _, bg := range []bool{false, true} {
			for _, late := range []time.Duration{2*I + 2*time.Minute, 2*I + 7*time.Minute} {
				for _, d := range []time.Duration{0, 5 * time.Second} {
					out = append(out, c15Cfg{N: 1, Intervals: []time.Duration{I}, Dur: d, Script: "", Sig: config.SignatureValidationModeVerify, Background: bg, Source: src, LateCDP: late})
				}
			}
		}
	}
	// two / three instances: all phase offsets x interval mixes
	durs := []time.Duration{0, 5 * time.Second}
	scripts2 := []string{""}
	sigs2 := []config.SignatureValidationMode{config.SignatureValidationModeVerify}
	bgs2 := []bool{false}
	scripts3 := []string{"f"}
	mixes3 := [][]time.Duration{{I, I, I}}
	if tier == "thorough" {
		// full product for several instances as well, a download which takes a third of the interval, unequal intervals for three instances
		durs = append(durs, 3*time.Minute)
		scripts2, sigs2, bgs2 = scripts, sigs, []bool{false, true}
		scripts3 = scripts
		mixes3 = append(mixes3, []time.Duration{I, 3 * I, I}, []time.Duration{3 * I, I, I})
		for _, src := range []string{"crl_files", "crl_urls", "cdp"} {
			for _, sc := range scripts {
				out = append(out, c15Cfg{N: 1, Intervals: []time.Duration{I}, Dur: 3 * time.Minute, Script: sc, Sig: config.SignatureValidationModeVerify, Source: src})
			}
		}
	}
	for _, ph := range phases {
		for _, mix := range [][]time.Duration{{I, I}, {I, 3 * I}, {3 * I, I}} {
			for _, d := range durs {
				for _, src := range []string{"crl_urls", "cdp"} {
					for _, sc := range scripts2 {
						for _, sg := range sigs2 {
							for _, bg := range bgs2 {
								out = append(out, c15Cfg{N: 2, Intervals: mix, Phases: []time.Duration{ph}, Dur: d, Script: sc, Sig: sg, Background: bg, Source: src})
							}
						}
					}
				}
			}
		}
		for _, ph2 := range phases {
			if tier != "thorough" && ph2 != ph && ph2 != 0 {
				continue
			}
			if ph2 < ph {
				continue
			}
			for _, sc := range scripts3 {
				for _, mix := range mixes3 {
					for _, src := range []string{"crl_urls", "cdp"} {
						if tier != "thorough" && src != "crl_urls" {
							continue
						}
						out = append(out, c15Cfg{N: 3, Intervals: mix, Phases: []time.Duration{ph, ph2}, Dur: 0, Script: sc, Sig: config.SignatureValidationModeVerify, Source: src})
					}
				}
			}
		}
	}
	return out
}

// c15Module: the whole module, configuration parsed from its text form. A configured crl_file is a symbolic link
// ("current.crl" -> the list of the day); the next list is published by pointing the link at another file. Within two
// update intervals the certificate the new list names is rejected.
func c15Module(chk *fw.Check) (n int) {
	p := world.Std()
	for _, storage := range []string{"memory", "disk"} {
		for _, how := range []string{"link-switched", "file-replaced-by-rename"} {
			n++
			storage, how := storage, how
			label := fmt.Sprintf("module crl_files publication=%s storage=%s", how, storage)
			res := seqWorld(func() {
				net := world.NewNet()
				dir, files := FreshDir("c15m"), FreshDir("c15mf")
				defer os.RemoveAll(dir)
				defer os.RemoveAll(files)
				real1, real2, link := filepath.Join(files, "list-1.crl"), filepath.Join(files, "list-2.crl"), filepath.Join(files, "current.crl")
				os.WriteFile(real1, world.SimpleCRL(p.CA, 1, 801).DER(), 0644)
				os.WriteFile(real2, world.SimpleCRL(p.CA, 2, 801, 802).DER(), 0644)
				if how == "link-switched" {
					os.Symlink(real1, link)
				} else {
					os.WriteFile(link, world.SimpleCRL(p.CA, 1, 801).DER(), 0644)
				}
				w := NewTW(TWOpt{Mode: "crl_only", Net: net, CRL: &config.CRLConfig{WorkDir: dir, StorageType: storage, UpdateInterval: "10m", CRLFiles: []string{link},
					TrustedSignatureCertsFiles: []string{WritePEM(files, "ca.pem", p.CA.Cert)}}})
				if err := w.Provision(); err != nil {
					chk.Violation("C15|provision-fails|"+label, err.Error(), nil)
					return
				}
				vsched.Drain()
				l1, l2 := world.Leaf(p.CA, bi(801), nil, nil), world.Leaf(p.CA, bi(802), nil, nil)
				if v1, v2 := w.Handshake(world.Chain(l1, p.CA, p.Root)), w.Handshake(world.Chain(l2, p.CA, p.Root)); !v1.Rejected() || v2.Rejected() {
					chk.Violation("C15|harness|module-setup|"+label, fmt.Sprintf("before the publication: 801=%s 802=%s", v1, v2), nil)
					return
				}
				if how == "link-switched" {
					tmp := link + ".new"
					os.Symlink(real2, tmp)
					os.Rename(tmp, link)
				} else {
					tmp := link + ".new"
					os.WriteFile(tmp, world.SimpleCRL(p.CA, 2, 801, 802).DER(), 0644)
					os.Rename(tmp, link)
				}
				for i := 0; i < 2; i++ {
					vsched.Advance(10*time.Minute + time.Second)
					vsched.Drain()
				}
				if v := w.Handshake(world.Chain(l2, p.CA, p.Root)); !v.Rejected() {
					chk.Violation("C15|new-revocation-not-enforced|"+label, "two update intervals after the next list was published the certificate it names is still accepted", nil)
				}
				w.Cleanup()
				vsched.Drain()
			})
			if res.Verdict != vsched.OK {
				chk.Violation("C15|"+res.Verdict.String()+"|"+label, firstLines(res.Detail, 5), nil)
			}
		}
	}
	return
}

// RunC15 is the entry point of the C15 check.
func RunC15(tier string, args []string) int {
	chk := fw.NewCheck("C15", tier, "model_checking")
	chk.Assumptions = []string{
		"discrete-event simulation of the real ticker goroutines under the virtual clock up to 6 x the largest update_interval; timers due at the same instant fire in registration order",
		"bound B = 2 x update_interval + (download duration x instances) + 5 s retry budget; (a) consecutive fetch attempts of a known location are at most B apart, (b) a certificate revoked in a CRL obtainable since p is rejected after p + B, (c) configured CRLs are in force when Provision returns",
	}
	cfgs := c15Configs(tier)
	states, transitions := 0, 0
	var samples []interface{}
	for i, cfg := range cfgs {
		o := c15Run(cfg)
		states++
		for _, f := range o.Fetches {
			transitions += len(f)
		}
		transitions++
		if len(samples) < 3 && i%37 == 5 {
			samples = append(samples, map[string]interface{}{"config": cfg.String(), "fetch_attempts": fmt.Sprint(o.Fetches)})
		}
		for _, v := range o.Viols {
			chk.Violation(v.Sig, fmt.Sprintf("[%s] %s", cfg, v.What), map[string]interface{}{"driver": "C15", "config": cfg.String()})
		}
	}
	states += c15Module(chk)
	cov := fw.Coverage{
		"states":                        states,
		"transitions":                   transitions,
		"traces_validated_against_impl": states,
		"configurations":                len(cfgs),
		"fetch_attempts_observed":       transitions - states,
		"samples":                       samples,
		"exhaustive":                    true,
	}
	return chk.Finish(cov)
}

func init() { registry["C15"] = RunC15 }

var _ = strings.Join
