package drivers

import (
	"encoding/json"
	"fmt"
	"os"
	"os/exec"
	"strings"

	"verif/h/fw"
)

// hWorkerOut is what a history-exploration worker reports.
type hWorkerOut struct {
	Stats      fw.HStats         `json:"stats"`
	Configs    int               `json:"configs"`
	Violations []workerViolation `json:"violations"`
	Outcomes   map[string]int    `json:"outcomes"`
	Samples    []string          `json:"samples"`
}

// runHWorkers starts n worker subprocesses `<prop> --tier worker -- hworker <tier> <shard> <n>` and merges.
func runHWorkers(chk *fw.Check, prop, tier string, n int) hWorkerOut {
	outs := make([]hWorkerOut, n)
	errs := make([]error, n)
	done := make(chan int, n)
	for i := 0; i < n; i++ {
		go func(i int) {
			defer func() { done <- i }()
			cmd := exec.Command(os.Args[0], prop, "--tier", "worker", "--", "hworker", tier, fmt.Sprint(i), fmt.Sprint(n))
			cmd.Env = append(os.Environ(), "GOMAXPROCS=2")
			cmd.Stderr = os.Stderr
			b, err := cmd.Output()
			if err != nil {
				errs[i] = fmt.Errorf("worker %d: %v", i, err)
				return
			}
			lines := strings.Split(strings.TrimSpace(string(b)), "\n")
			if err := json.Unmarshal([]byte(lines[len(lines)-1]), &outs[i]); err != nil {
				errs[i] = fmt.Errorf("worker %d: bad output: %v", i, err)
			}
		}(i)
	}
	for i := 0; i < n; i++ {
		<-done
	}
	total := hWorkerOut{Outcomes: map[string]int{}}
	for i, e := range errs {
		if e != nil {
			fmt.Fprintln(os.Stderr, "harness error:", e)
			CleanupScratch()
			os.Exit(2)
		}
		o := outs[i]
		total.Stats.States += o.Stats.States
		total.Stats.Transitions += o.Stats.Transitions
		total.Stats.Pruned += o.Stats.Pruned
		if o.Stats.MaxDepth > total.Stats.MaxDepth {
			total.Stats.MaxDepth = o.Stats.MaxDepth
		}
		total.Stats.Capped = total.Stats.Capped || o.Stats.Capped
		total.Configs += o.Configs
		for k, v := range o.Outcomes {
			total.Outcomes[k] += v
		}
		if len(total.Samples) < 4 {
			total.Samples = append(total.Samples, o.Samples...)
		}
		for _, v := range o.Violations {
			for k := 0; k < v.Count; k++ {
				chk.Violation(v.Sig, v.What, v.Replay)
			}
		}
	}
	return total
}

// violSet collects violations inside a worker.
type violSet struct {
	m     map[string]*workerViolation
	order []string
}

func newViolSet() *violSet { return &violSet{m: map[string]*workerViolation{}} }

func (s *violSet) add(sig, what string, replay interface{}) {
	if v, ok := s.m[sig]; ok {
		v.Count++
		return
	}
	s.m[sig] = &workerViolation{Sig: sig, What: what, Replay: replay, Count: 1}
	s.order = append(s.order, sig)
}

func (s *violSet) list() []workerViolation {
	var out []workerViolation
	for _, k := range s.order {
		out = append(out, *s.m[k])
	}
	return out
}
