package drivers

import (
	"bytes"
	"encoding/json"
	"fmt"
	"os"
	"os/exec"
	"path/filepath"
	"regexp"
	"sort"
	"strings"

	"verif/h/fw"
)

// The free-running pass of C13 (cmd/racepass): the uninstrumented repository built with -race, real goroutines.
// It complements the schedule exploration (whose cooperative hand-offs blind Go's race detector and whose own
// detector sees hooked repository state only); it is not part of what is called exhaustive.

const repoModule = "github.com/gr33nbl00d/caddy-revocation-validator"

type racePassReport struct {
	Scenarios      int      `json:"scenarios"`
	Lookups        int64    `json:"lookups"`
	OriginRequests int64    `json:"origin_requests"`
	Panics         []string `json:"panics"`
	RaceReports    int      `json:"race_reports"`
	ThirdParty     []string `json:"reports_without_repository_frame,omitempty"`
}

var raceFrameRe = regexp.MustCompile(`(?m)^  ([^\s(][^\n]*?)\(\)\n`)

// c13RaceSignatures turns the runtime's reports into stable signatures: the innermost repository function of
// each of the two conflicting stacks, sorted.
func c13RaceSignatures(log string) (sigs map[string]string, thirdParty []string) {
	sigs = map[string]string{}
	for _, blk := range strings.Split(log, "WARNING: DATA RACE")[1:] {
		if i := strings.Index(blk, "=================="); i >= 0 {
			blk = blk[:i]
		}
		// the first two stacks (conflicting accesses) precede "Goroutine … created at"
		parts := regexp.MustCompile(`(?mi)^(previous )?(read|write|atomic \w+) at [^\n]*\n`).Split(blk, 3)
		var fns []string
		for _, st := range parts[1:] {
			if i := strings.Index(st, "\nGoroutine "); i >= 0 {
				st = st[:i]
			}
			fn := ""
			for _, m := range raceFrameRe.FindAllStringSubmatch(st, -1) {
				if strings.HasPrefix(m[1], repoModule) {
					fn = strings.TrimPrefix(strings.TrimPrefix(m[1], repoModule), "/")
					break
				}
			}
			fns = append(fns, fn)
		}
		for len(fns) < 2 {
			fns = append(fns, "")
		}
		if fns[0] == "" && fns[1] == "" {
			thirdParty = append(thirdParty, firstLines(strings.TrimSpace(blk), 6))
			continue
		}
		sort.Strings(fns)
		sig := "C13|data-race-free-running|" + fns[0] + " <-> " + fns[1]
		if _, ok := sigs[sig]; !ok {
			sigs[sig] = firstLines(strings.TrimSpace(blk), 24)
		}
	}
	return
}

func c13RacePass(chk *fw.Check, tier string) (rep racePassReport, code int) {
	b := os.Getenv("VERIF_BUILD_DIR")
	v := os.Getenv("VERIF_HOME")
	if v == "" {
		v = "/verif"
	}
	repo := os.Getenv("VERIF_REPO")
	if repo == "" {
		repo = "/repo"
	}
	bin := filepath.Join(b, "racepass")
	if _, err := os.Stat(bin); err != nil {
		mod, err := os.ReadFile(filepath.Join(v, "h", "go.mod"))
		if err != nil {
			fmt.Fprintln(os.Stderr, "harness error:", err)
			return rep, 2
		}
		var out []string
		for _, l := range strings.Split(string(mod), "\n") {
			if strings.Contains(l, "muesli/cache2go =>") {
				continue // the real cache library, not the instrumented copy
			}
			out = append(out, strings.Replace(l, "=> /repo", "=> "+repo, 1))
		}
		os.WriteFile(filepath.Join(b, "go.race.mod"), []byte(strings.Join(out, "\n")), 0644)
		if sum, err := os.ReadFile(filepath.Join(repo, "go.sum")); err == nil {
			os.WriteFile(filepath.Join(b, "go.race.sum"), sum, 0644)
		}
		cmd := exec.Command("go", "build", "-race", "-modfile="+filepath.Join(b, "go.race.mod"), "-o", bin, "./cmd/racepass")
		cmd.Dir = filepath.Join(v, "h")
		if o, err := cmd.CombinedOutput(); err != nil {
			fmt.Fprintf(os.Stderr, "harness error: cannot build the free-running race pass: %v\n%s\n", err, o)
			return rep, 2
		}
	}
	work := FreshDir("racepass")
	defer os.RemoveAll(work)
	logBase := filepath.Join(work, "race")
	// the workload takes about 4 s (quick) / 20 s (thorough) of wall clock; the limit is only there to end a run which hangs
	limit := "180"
	if tier == "thorough" {
		limit = "600"
	}
	cmd := exec.Command("timeout", "-s", "QUIT", limit, bin, filepath.Join(work, "w"), tier)
	os.MkdirAll(filepath.Join(work, "w"), 0755)
	cmd.Env = append(os.Environ(), "GORACE=log_path="+logBase+" exitcode=0 halt_on_error=0 history_size=3")
	var stderr bytes.Buffer
	cmd.Stderr = &stderr
	o, err := cmd.Output()
	lines := strings.Split(strings.TrimSpace(string(o)), "\n")
	if err != nil || json.Unmarshal([]byte(lines[len(lines)-1]), &rep) != nil {
		// the process died: an unrecovered panic in a goroutine of the repository (or a fatal error) ends up here
		tail := stderr.String()
		if ee, ok := err.(*exec.ExitError); ok && ee.ExitCode() == 124 {
			// SIGQUIT after the limit: the goroutine dump shows where everything is parked
			fn := ""
			for _, m := range regexp.MustCompile(`(?m)^(`+regexp.QuoteMeta(repoModule)+`[^\s(]*)`).FindAllStringSubmatch(tail, -1) {
				if strings.Contains(m[1], "ock") || fn == "" {
					fn = strings.TrimPrefix(strings.TrimPrefix(m[1], repoModule), "/")
				}
			}
			if i := strings.Index(tail, "SIGQUIT"); i >= 0 {
				tail = tail[i:]
			}
			chk.Violation("C13|hang-free-running", fmt.Sprintf("the free-running pass (real goroutines) did not finish within %s s (normal: seconds): deadlock or livelock; goroutine dump (head): %s", limit, firstLines(tail, 40)), nil)
			return rep, 0
		}
		if i := strings.Index(tail, "panic:"); i >= 0 {
			tail = tail[i:]
		} else if i := strings.Index(tail, "fatal error:"); i >= 0 {
			tail = tail[i:]
		} else if len(tail) > 2000 {
			tail = tail[len(tail)-2000:]
		}
		fn := ""
		for _, m := range regexp.MustCompile(`(?m)^(`+regexp.QuoteMeta(repoModule)+`[^\s(]*)`).FindAllStringSubmatch(tail, -1) {
			fn = strings.TrimPrefix(strings.TrimPrefix(m[1], repoModule), "/")
			break
		}
		chk.Violation("C13|process-died-free-running|"+fn, fmt.Sprintf("the free-running pass (real goroutines, -race) ended abnormally (%v): %s", err, firstLines(tail, 14)), nil)
		return rep, 0
	}
	logs, _ := filepath.Glob(logBase + ".*")
	var all strings.Builder
	for _, l := range logs {
		bts, _ := os.ReadFile(l)
		all.Write(bts)
	}
	sigs, third := c13RaceSignatures(all.String())
	rep.RaceReports = len(sigs) + len(third)
	rep.ThirdParty = third
	var keys []string
	for k := range sigs {
		keys = append(keys, k)
	}
	sort.Strings(keys)
	for _, k := range keys {
		chk.Violation(k, "data race reported by the Go race detector in the free-running pass (uninstrumented repository code, real goroutines):\n"+sigs[k], nil)
	}
	for _, p := range rep.Panics {
		cls := "panic"
		if strings.HasPrefix(p, "OCSP verdict") {
			cls = "wrong-verdict"
		}
		where := p
		if i := strings.Index(p, ":"); i > 0 {
			where = p[:i]
		}
		chk.Violation("C13|"+cls+"-free-running|"+normaliseNumbers(where), "free-running pass: "+p, nil)
	}
	return rep, 0
}
