package drivers

import (
	"crypto/x509"
	"crypto/x509/pkix"
	"fmt"
	"math/big"
	"os"
	"path/filepath"
	"time"

	xocsp "golang.org/x/crypto/ocsp"

	"github.com/gr33nbl00d/caddy-revocation-validator/config"
	"github.com/gr33nbl00d/caddy-revocation-validator/crl"

	"verif/h/fw"
	"verif/h/rt/vsched"
	"verif/h/world"
)

// C01: CRL soundness through the real caddy module: every listed serial is rejected.

type c01Cfg struct {
	Source string // crl_files | crl_urls | cdp
	Disk   bool
	Mode   string // "", prefer_ocsp, prefer_crl, crl_only
	OCSP   string // no-aia | good | unavailable
	Enc    int    // 0 DER 1 PEM-LF 2 PEM-CRLF
}

func (c c01Cfg) String() string {
	m := c.Mode
	if m == "" {
		m = "(unset)"
	}
	return fmt.Sprintf("source=%s backend=%s mode=%s ocsp=%s enc=%s", c.Source, be(c.Disk), m, c.OCSP, []string{"DER", "PEM-LF", "PEM-CRLF"}[c.Enc])
}

type c01Shape struct {
	N      int
	Serial int // index into c06Values[dSerial]
	EExt   int // 0 none 1 reason 2 reason+invalidity
	Gen    bool
}

func (s c01Shape) String() string {
	return fmt.Sprintf("N=%d serial=%s entryExt=%d genTime=%v", s.N, c06Values[dSerial][s.Serial], s.EExt, s.Gen)
}

const (
	c01CRLURL  = "http://crl.test/c01.crl"
	c01OCSPURL = "http://ocsp.test/c01"
)

func c01Serials(sh c01Shape) []*big.Int {
	out := make([]*big.Int, 0, sh.N)
	seen := map[string]bool{}
	for i := 0; len(out) < sh.N; i++ {
		s, _ := c06Serial(sh.Serial, i)
		if c06Values[dSerial][sh.Serial] == "1byte" {
			s = big.NewInt(int64(1 + i)) // up to N distinct small values
		}
		if c06Values[dSerial][sh.Serial] == "zero" && i > 0 {
			s = big.NewInt(int64(1000 + i))
		}
		if seen[s.String()] {
			s = new(big.Int).Add(s, big.NewInt(int64(100000+i)))
		}
		seen[s.String()] = true
		out = append(out, s)
	}
	return out
}

type c01Result struct {
	Probes, Premise int
	Viols           []c14Viol
}

// c01Run provisions once for (cfg, shape) and probes every listed position plus one unlisted serial.
func c01Run(cfg c01Cfg, sh c01Shape) (r c01Result) {
	p := world.Std()
	serials := c01Serials(sh)
	spec := world.SimpleCRL(p.CA, 1)
	for i, s := range serials {
		e := world.RevEntry{Serial: s, Date: vsched.Epoch.Add(-time.Duration(24+i%100) * time.Hour)}
		if sh.Gen {
			e.GenTime, e.Date = true, time.Date(2050+i%40, 1, 2, 3, 4, 5, 0, time.UTC)
		}
		switch sh.EExt {
		case 1:
			e.Exts = []pkix.Extension{world.ReasonExt([]int{1, 8, 2, 6, 3, 10, 4, 9, 5, 0}[i%10])} // every reason code, also removeFromCRL (8) and certificateHold (6)
		case 2:
			e.Exts = []pkix.Extension{world.ReasonExt(1), world.InvalidityDateExt(vsched.Epoch.Add(-200 * time.Hour))}
		}
		spec.Entries = append(spec.Entries, e)
	}
	der := spec.DER()
	doc := der
	if cfg.Enc == 1 {
		doc = world.PEM(der, false)
	} else if cfg.Enc == 2 {
		doc = world.PEM(der, true)
	}
	seqWorld(func() {
		net := world.NewNet()
		dir := FreshDir("c01")
		defer os.RemoveAll(dir)
		files := FreshDir("c01f")
		defer os.RemoveAll(files)
		storage := "memory"
		if cfg.Disk {
			storage = "disk"
		}
		crlCfg := &config.CRLConfig{WorkDir: dir, StorageType: storage, TrustedSignatureCertsFiles: []string{WritePEM(files, "ca.pem", p.CA.Cert)}}
		var cdp, ocspURLs []string
		switch cfg.Source {
		case "crl_files":
			f := filepath.Join(files, "list.crl")
			os.WriteFile(f, doc, 0644)
			crlCfg.CRLFiles = []string{f}
		case "crl_urls":
			crlCfg.CRLUrls = []string{c01CRLURL}
			net.Serve(c01CRLURL, "list", doc)
		case "cdp":
			cdp = []string{c01CRLURL}
			net.Serve(c01CRLURL, "list", doc)
		}
		if cfg.OCSP != "no-aia" {
			ocspURLs = []string{c01OCSPURL}
		}
		if cfg.OCSP == "good" {
			net.Routes[c01OCSPURL] = &world.Behaviour{Label: "good", Fn: func(req *httpReq, body []byte) (int, []byte, error) {
				rq, err := xocsp.ParseRequest(body)
				if err != nil {
					return 400, nil, nil
				}
				return 200, world.BuildOCSP(world.OCSPAnswer{Status: xocsp.Good, Serial: rq.SerialNumber, Issuer: p.CA, Signer: p.CA, ThisUpdate: vsched.Epoch.Add(-time.Minute)}), nil
			}}
		} else {
			net.Down(c01OCSPURL)
		}
		w := NewTW(TWOpt{Mode: cfg.Mode, Net: net, CRL: crlCfg, OCSP: &config.OCSPConfig{}})
		if err := w.Provision(); err != nil {
			r.Viols = append(r.Viols, c14Viol{"C01|premise|provision-failed", "Provision failed for an acceptable CRL: " + err.Error()})
			return
		}
		vsched.Drain()
		mkLeaf := func(s *big.Int) *world.Ident {
			return world.Issue(p.CA, world.CertOpt{CN: "c01 client", Serial: s, KeyKind: "ec", KeyIdx: 5, CDP: cdp, OCSP: ocspURLs})
		}
		// vacuity guard + premise: an unlisted serial is accepted (the CRL is in force and does not reject everything)
		un := mkLeaf(big.NewInt(987654321))
		if v := w.Handshake(world.Chain(un, p.CA, p.Root)); v.Rejected() {
			r.Viols = append(r.Viols, c14Viol{"C01|premise|unlisted-rejected", fmt.Sprintf("an unlisted certificate is rejected (%s %s%s): the scenario cannot establish the premise", v, v.Err, v.Panic)})
			w.Cleanup()
			return
		}
		r.Premise = 1
		for i, s := range serials {
			leaf := mkLeaf(s)
			v := w.Handshake(world.Chain(leaf, p.CA, p.Root))
			r.Probes++
			if !v.Rejected() {
				pos := "middle"
				if i == 0 {
					pos = "first"
				} else if i == len(serials)-1 {
					pos = "last"
				}
				r.Viols = append(r.Viols, c14Viol{fmt.Sprintf("C01|listed-accepted|pos=%s serial=%s source=%s", pos, c06Values[dSerial][sh.Serial], cfg.Source),
					fmt.Sprintf("listed serial %s (entry %d of %d) was ACCEPTED", s, i+1, len(serials))})
				if len(r.Viols) > 3 {
					break
				}
			} else if v.Panic != "" {
				r.Viols = append(r.Viols, c14Viol{"C01|panic", v.Panic})
			}
		}
		w.Cleanup()
	})
	return
}

type httpReq = httpRequestAlias

// RunC01 is the entry point of the C01 check.
func RunC01(tier string, args []string) int {
	chk := fw.NewCheck("C01", tier, "exploration")
	chk.Assumptions = []string{
		"real path reader -> store -> repository -> CertRevocationValidator.VerifyClientCertificate; one certificate per listed serial (x509.CreateCertificate + parse), every listed position probed",
		"A: all configurations source(3) x backend(2) x mode(4) x OCSP answer(3) x encoding(3) with two list shapes; B: all list shapes N(6) x serial form(12) x entry extensions(3) x date form(2) with two configurations; cross-location cases",
		"vacuity guard: each scenario first requires an unlisted certificate to be accepted",
	}
	SilenceStderr()
	scen, probes := 0, 0
	distinct := fw.NewDistinct()
	var samples []string
	report := func(cfg c01Cfg, sh c01Shape, r c01Result) {
		scen++
		probes += r.Probes
		distinct.Add(cfg.String() + "|" + sh.String())
		if len(samples) < 4 && scen%211 == 0 {
			samples = append(samples, fmt.Sprintf("%s | %s | probes=%d", cfg, sh, r.Probes))
		}
		for _, v := range r.Viols {
			chk.Violation(v.Sig, fmt.Sprintf("[%s] [%s] %s", cfg, sh, v.What), map[string]interface{}{"driver": "C01", "config": cfg, "shape": sh})
		}
	}
	sources := []string{"crl_files", "crl_urls", "cdp"}
	modes := []string{"", "prefer_ocsp", "prefer_crl", "crl_only"}
	ocsps := []string{"no-aia", "good", "unavailable"}
	shapesA := []c01Shape{{N: 3, Serial: 0}, {N: 40, Serial: 8, EExt: 1}}
	for _, src := range sources {
		for _, disk := range []bool{false, true} {
			for _, m := range modes {
				for _, oc := range ocsps {
					for enc := 0; enc < 3; enc++ {
						if tier != "thorough" && enc != (len(src)+len(m))%3 && !(m == "crl_only" && oc == "no-aia") {
							continue // quick: one encoding per cell, all three on the crl_only/no-aia slice
						}
						for _, sh := range shapesA {
							cfg := c01Cfg{src, disk, m, oc, enc}
							report(cfg, sh, c01Run(cfg, sh))
						}
					}
				}
			}
		}
	}
	ns := []int{1, 2, 3, 5, 40, 300}
	cfgsB := []c01Cfg{{"cdp", false, "crl_only", "no-aia", 0}, {"crl_files", true, "", "good", 1}}
	for _, n := range ns {
		for sf := range c06Values[dSerial] {
			for ee := 0; ee < 3; ee++ {
				for _, gen := range []bool{false, true} {
					if tier != "thorough" && n == 300 && (ee != 0 || gen) && sf%4 != 0 {
						continue
					}
					sh := c01Shape{n, sf, ee, gen}
					for _, cfg := range cfgsB {
						report(cfg, sh, c01Run(cfg, sh))
					}
				}
			}
		}
	}
	if tier == "thorough" {
		for _, disk := range []bool{false, true} {
			cfg := c01Cfg{"crl_urls", disk, "crl_only", "no-aia", 0}
			sh := c01Shape{N: 100000, Serial: 8}
			report(cfg, sh, c01Run(cfg, sh))
		}
	}
	// cross-location cases
	cross := c01Cross(chk)
	cov := fw.Coverage{
		"evaluations":             probes + cross,
		"distinct_nontrivial":     distinct.N() + 2,
		"rule":                    "scenario = (configuration, list shape); every listed serial of the scenario is probed with its own certificate; distinct scenarios counted (each non-trivial: its CRL is in force, shown by the unlisted-accepted guard)",
		"scenarios":               scen,
		"listed_positions_probed": probes,
		"cross_location_probes":   cross,
		"samples":                 samples,
		"exhaustive":              true,
	}
	return chk.Finish(cov)
}

// c01Cross: (1) the certificate's own CDP CRL does not list it, a configured file CRL does;
// (2) a certificate without CDP is listed in a CRL that was loaded for another certificate's CDP.
func c01Cross(chk *fw.Check) int {
	p := world.Std()
	n := 0
	for _, disk := range []bool{false, true} {
		seqWorld(func() {
			net := world.NewNet()
			dir, files := FreshDir("c01x"), FreshDir("c01xf")
			defer os.RemoveAll(dir)
			defer os.RemoveAll(files)
			f := filepath.Join(files, "cfg.crl")
			os.WriteFile(f, world.SimpleCRL(p.CA, 1, 601).DER(), 0644)
			net.Serve(c01CRLURL, "cdp-list", world.SimpleCRL(p.CA, 2, 602).DER())
			storage := "memory"
			if disk {
				storage = "disk"
			}
			w := NewTW(TWOpt{Mode: "crl_only", Net: net, CRL: &config.CRLConfig{WorkDir: dir, StorageType: storage, CRLFiles: []string{f},
				TrustedSignatureCertsFiles: []string{WritePEM(files, "ca.pem", p.CA.Cert)}}})
			if err := w.Provision(); err != nil {
				chk.Violation("C01|premise|provision-failed", "cross-location: "+err.Error(), nil)
				return
			}
			vsched.Drain()
			a := world.Issue(p.CA, world.CertOpt{CN: "c01 x", Serial: big.NewInt(601), KeyKind: "ec", KeyIdx: 5, CDP: []string{c01CRLURL}})
			if v := w.Handshake(world.Chain(a, p.CA, p.Root)); !v.Rejected() {
				chk.Violation("C01|listed-accepted|cross=configured-file-vs-own-cdp|"+be(disk), "certificate listed in a configured crl_file but not in its own CDP CRL was accepted", nil)
			}
			n++
			b := world.Issue(p.CA, world.CertOpt{CN: "c01 y", Serial: big.NewInt(602), KeyKind: "ec", KeyIdx: 5})
			if v := w.Handshake(world.Chain(b, p.CA, p.Root)); !v.Rejected() {
				chk.Violation("C01|listed-accepted|cross=other-certificates-cdp|"+be(disk), "certificate without CDP listed in a CRL loaded for another certificate's CDP was accepted", nil)
			}
			n++
			w.Cleanup()
		})
		// (3) two configured crl_urls that differ only in the query string / only in the case of the path: both lists are enforced
		for _, pair := range [][2]string{{"http://crl.test/dist?issuer=1", "http://crl.test/dist?issuer=2"}, {"http://crl.test/CA-A.crl", "http://crl.test/ca-a.crl"}} {
			seqWorld(func() {
				net := world.NewNet()
				dir, files := FreshDir("c01y"), FreshDir("c01yf")
				defer os.RemoveAll(dir)
				defer os.RemoveAll(files)
				net.Serve(pair[0], "first", world.SimpleCRL(p.CA, 1, 611).DER())
				net.Serve(pair[1], "second", world.SimpleCRL(p.CA, 2, 612).DER())
				storage := "memory"
				if disk {
					storage = "disk"
				}
				w := NewTW(TWOpt{Mode: "crl_only", Net: net, CRL: &config.CRLConfig{WorkDir: dir, StorageType: storage, CRLUrls: []string{pair[0], pair[1]},
					TrustedSignatureCertsFiles: []string{WritePEM(files, "ca.pem", p.CA.Cert)}}})
				if err := w.Provision(); err != nil {
					chk.Violation("C01|premise|provision-failed", "two similar crl_urls: "+err.Error(), nil)
					return
				}
				vsched.Drain()
				for _, serial := range []int64{611, 612} {
					l := world.Issue(p.CA, world.CertOpt{CN: "c01 z", Serial: big.NewInt(serial), KeyKind: "ec", KeyIdx: 5})
					if v := w.Handshake(world.Chain(l, p.CA, p.Root)); !v.Rejected() {
						chk.Violation("C01|listed-accepted|cross=similar-configured-urls|"+be(disk), fmt.Sprintf("crl_urls %v: serial %d listed at one of them was accepted", pair, serial), nil)
					}
					n++
				}
				w.Cleanup()
			})
		}
		// (4) the certificate's own CDP is unavailable (lenient), a configured file CRL lists it
		seqWorld(func() {
			net := world.NewNet()
			dir, files := FreshDir("c01w"), FreshDir("c01wf")
			defer os.RemoveAll(dir)
			defer os.RemoveAll(files)
			f := filepath.Join(files, "cfg.crl")
			os.WriteFile(f, world.SimpleCRL(p.CA, 1, 621).DER(), 0644)
			net.Down(c01CRLURL)
			storage := "memory"
			if disk {
				storage = "disk"
			}
			w := NewTW(TWOpt{Mode: "crl_only", Net: net, CRL: &config.CRLConfig{WorkDir: dir, StorageType: storage, CRLFiles: []string{f},
				TrustedSignatureCertsFiles: []string{WritePEM(files, "ca.pem", p.CA.Cert)}}})
			if err := w.Provision(); err != nil {
				chk.Violation("C01|premise|provision-failed", "cdp-down cross case: "+err.Error(), nil)
				return
			}
			vsched.Drain()
			a := world.Issue(p.CA, world.CertOpt{CN: "c01 w", Serial: big.NewInt(621), KeyKind: "ec", KeyIdx: 5, CDP: []string{c01CRLURL}})
			if v := w.Handshake(world.Chain(a, p.CA, p.Root)); !v.Rejected() {
				chk.Violation("C01|listed-accepted|cross=configured-file-while-own-cdp-unavailable|"+be(disk), "certificate listed in a configured crl_file was accepted because its own distribution point is unreachable (crl_cdp_strict off)", nil)
			}
			n++
			w.Cleanup()
		})
		// (6) issuers whose names are not in the order / made of the attributes a name builder would produce: the listed
		// certificate is found under the name as it is encoded
		for shape := 1; shape < len(c06Values[dIssuer]); shape++ {
			for _, source := range []string{"crl_files", "cdp"} {
				shape, source := shape, source
				name := c06Values[dIssuer][shape]
				seqWorld(func() {
					ca := world.Issue(p.Root, world.CertOpt{CN: "c01 issuer " + name, RawSubject: c06Issuer(shape, 0), IsCA: true, KeyKind: "ec", KeyIdx: 6, Serial: big.NewInt(int64(640 + shape))})
					net := world.NewNet()
					dir, files := FreshDir("c01n"), FreshDir("c01nf")
					defer os.RemoveAll(dir)
					defer os.RemoveAll(files)
					doc := world.SimpleCRL(ca, 1, 641).DER()
					storage := "memory"
					if disk {
						storage = "disk"
					}
					cfg := &config.CRLConfig{WorkDir: dir, StorageType: storage, TrustedSignatureCertsFiles: []string{WritePEM(files, "ca.pem", ca.Cert)}}
					var cdp []string
					if source == "cdp" {
						cdp = []string{c01CRLURL}
						net.Serve(c01CRLURL, "list", doc)
					} else {
						f := filepath.Join(files, "list.crl")
						os.WriteFile(f, doc, 0644)
						cfg.CRLFiles = []string{f}
					}
					w := NewTW(TWOpt{Mode: "crl_only", Net: net, CRL: cfg})
					if err := w.Provision(); err != nil {
						chk.Violation("C01|premise|provision-failed", "issuer shape "+name+": "+err.Error(), nil)
						return
					}
					vsched.Drain()
					un := world.Issue(ca, world.CertOpt{CN: "c01 n", Serial: big.NewInt(642), KeyKind: "ec", KeyIdx: 5, CDP: cdp})
					if v := w.Handshake(world.Chain(un, ca, p.Root)); v.Rejected() {
						chk.Violation("C01|premise|unlisted-rejected", fmt.Sprintf("issuer shape %s: an unlisted certificate is rejected: %s %s", name, v, v.Err), nil)
						return
					}
					l := world.Issue(ca, world.CertOpt{CN: "c01 n", Serial: big.NewInt(641), KeyKind: "ec", KeyIdx: 5, CDP: cdp})
					if v := w.Handshake(world.Chain(l, ca, p.Root)); !v.Rejected() {
						chk.Violation("C01|listed-accepted|issuer-name="+name+"|source="+source+"|"+be(disk), fmt.Sprintf("the CRL of issuer %q lists serial 641; the certificate with that serial of that issuer was accepted", ca.Cert.Subject.String()), nil)
					}
					n++
					w.Cleanup()
				})
			}
		}
		// (7) crl_urls and crl_files configured together: both lists are enforced
		seqWorld(func() {
			net := world.NewNet()
			dir, files := FreshDir("c01m"), FreshDir("c01mf")
			defer os.RemoveAll(dir)
			defer os.RemoveAll(files)
			net.Serve(c01CRLURL, "url-list", world.SimpleCRL(p.CA, 1, 651).DER())
			f := filepath.Join(files, "file.crl")
			os.WriteFile(f, world.SimpleCRL(p.CA, 2, 652).DER(), 0644)
			storage := "memory"
			if disk {
				storage = "disk"
			}
			w := NewTW(TWOpt{Mode: "crl_only", Net: net, CRL: &config.CRLConfig{WorkDir: dir, StorageType: storage, CRLUrls: []string{c01CRLURL}, CRLFiles: []string{f},
				TrustedSignatureCertsFiles: []string{WritePEM(files, "ca.pem", p.CA.Cert)}}})
			if err := w.Provision(); err != nil {
				chk.Violation("C01|premise|provision-failed", "crl_urls + crl_files: "+err.Error(), nil)
				return
			}
			vsched.Drain()
			for _, serial := range []int64{651, 652} {
				l := world.Issue(p.CA, world.CertOpt{CN: "c01 m", Serial: big.NewInt(serial), KeyKind: "ec", KeyIdx: 5})
				if v := w.Handshake(world.Chain(l, p.CA, p.Root)); !v.Rejected() {
					chk.Violation("C01|listed-accepted|cross=crl_urls-and-crl_files-together|"+be(disk), fmt.Sprintf("crl_urls and crl_files configured together: serial %d (listed in the %s list) was accepted", serial, map[int64]string{651: "url", 652: "file"}[serial]), nil)
				}
				n++
			}
			w.Cleanup()
		})
		// (8) what an earlier handshake was told does not outlive the reason for it: (a) the certificate is presented
		// while its distribution point is down / serves an error page (accepted, crl_cdp_strict is off), the origin
		// recovers, the certificate is presented again; (b) certificate A is accepted (its list does not name it), a
		// second certificate of the same CA brings another distribution point whose list names A's serial, A comes again.
		// Also after a restart on the same work_dir with the origin down again (disk: the persisted list answers).
		for _, first := range []string{"down", "error-page", "other-list"} {
			first := first
			seqWorld(func() {
				net := world.NewNet()
				dir := FreshDir("c01e")
				defer os.RemoveAll(dir)
				storage := "memory"
				if disk {
					storage = "disk"
				}
				const url2 = "http://crl.test/c01-second.crl"
				a := world.Issue(p.CA, world.CertOpt{CN: "c01 e", Serial: big.NewInt(661), KeyKind: "ec", KeyIdx: 5, CDP: []string{c01CRLURL}})
				b := world.Issue(p.CA, world.CertOpt{CN: "c01 e2", Serial: big.NewInt(662), KeyKind: "ec", KeyIdx: 5, CDP: []string{url2}})
				listing := world.SimpleCRL(p.CA, 2, 661).DER()
				switch first {
				case "down":
					net.Down(c01CRLURL)
				case "error-page":
					net.Routes[c01CRLURL] = &world.Behaviour{Label: "503", Status: 503, Body: []byte("<html>maintenance</html>")}
				case "other-list":
					net.Serve(c01CRLURL, "not-naming-A", world.SimpleCRL(p.CA, 1, 669).DER())
				}
				mk := func() *TW {
					return NewTW(TWOpt{Mode: "crl_only", Net: net, CRL: &config.CRLConfig{WorkDir: dir, StorageType: storage, UpdateInterval: "10m"}})
				}
				w := mk()
				if err := w.Provision(); err != nil {
					chk.Violation("C01|premise|provision-failed", "earlier-answer history: "+err.Error(), nil)
					return
				}
				vsched.Drain()
				if v := w.Handshake(world.Chain(a, p.CA, p.Root)); v.Rejected() {
					chk.Violation("C01|premise|earlier-answer", fmt.Sprintf("history %s: the first handshake (no list names the certificate) was rejected: %s %s", first, v, v.Err), nil)
					w.Cleanup()
					return
				}
				vsched.Drain()
				if first == "other-list" {
					net.Serve(url2, "naming-A", listing)
					w.Handshake(world.Chain(b, p.CA, p.Root))
				} else {
					net.Serve(c01CRLURL, "naming-A", listing)
				}
				vsched.Drain()
				sig := "C01|listed-accepted|history=accepted-before-the-list-was-in-force(" + first + ")|" + be(disk)
				if v := w.Handshake(world.Chain(a, p.CA, p.Root)); !v.Rejected() {
					chk.Violation(sig, fmt.Sprintf("history %s: the certificate was accepted once (no list named it yet); now a list in force names it and it is still accepted (%s)", first, v), nil)
				}
				n++
				w.Cleanup()
				vsched.Drain()
				if disk {
					crl.VerifReset()
					net.Down(c01CRLURL)
					net.Down(url2)
					w2 := mk()
					if err := w2.Provision(); err != nil {
						chk.Violation("C01|premise|provision-failed", "earlier-answer history, restart: "+err.Error(), nil)
						return
					}
					vsched.Drain()
					cert := a
					if v := w2.Handshake(world.Chain(cert, p.CA, p.Root)); first != "other-list" && !v.Rejected() {
						chk.Violation(sig+"|after-restart", fmt.Sprintf("history %s, restart with the origin down: the persisted list names the certificate and it is accepted (%s)", first, v), nil)
					}
					n++
					w2.Cleanup()
					vsched.Drain()
				}
			})
		}
		// (5) a list in force stays in force when a later refresh obtains something which is not accepted
		bad := world.SimpleCRL(p.CA, 2, 631)
		bad.BadSig = true
		for _, kind := range []struct {
			name string
			b    *world.Behaviour
		}{
			{"error-page", &world.Behaviour{Label: "404", Status: 404, Body: []byte("<html><body>404 not found</body></html>")}},
			{"garbage", &world.Behaviour{Label: "garbage", Body: []byte{0x30, 0x82, 0xff, 0xff, 1, 2, 3}}},
			{"bad-signature", &world.Behaviour{Label: "badsig", Body: bad.DER()}},
		} {
			for _, source := range []string{"cdp", "crl_urls"} {
				kind, source := kind, source
				seqWorld(func() {
					net := world.NewNet()
					dir, files := FreshDir("c01v"), FreshDir("c01vf")
					defer os.RemoveAll(dir)
					defer os.RemoveAll(files)
					net.Serve(c01CRLURL, "v1", world.SimpleCRL(p.CA, 1, 631).DER())
					storage := "memory"
					if disk {
						storage = "disk"
					}
					cfg := &config.CRLConfig{WorkDir: dir, StorageType: storage, UpdateInterval: "10m", TrustedSignatureCertsFiles: []string{WritePEM(files, "ca.pem", p.CA.Cert)}}
					lo := world.CertOpt{CN: "c01 v", Serial: big.NewInt(631), KeyKind: "ec", KeyIdx: 5}
					if source == "cdp" {
						lo.CDP = []string{c01CRLURL}
					} else {
						cfg.CRLUrls = []string{c01CRLURL}
					}
					w := NewTW(TWOpt{Mode: "crl_only", Net: net, CRL: cfg})
					if err := w.Provision(); err != nil {
						chk.Violation("C01|premise|provision-failed", "rejected-refresh case: "+err.Error(), nil)
						return
					}
					vsched.Drain()
					l := world.Issue(p.CA, lo)
					sig := "C01|listed-accepted|history=accepted-list-then-rejected-refresh(" + kind.name + ")|source=" + source + "|" + be(disk)
					if v := w.Handshake(world.Chain(l, p.CA, p.Root)); !v.Rejected() {
						chk.Violation("C01|premise|first-load", "listed certificate accepted right after the first load: "+v.String(), nil)
						return
					}
					vsched.Drain()
					net.Routes[c01CRLURL] = kind.b
					before := net.HitsFor(c01CRLURL)
					vsched.Advance(11 * time.Minute)
					vsched.Drain()
					if net.HitsFor(c01CRLURL) == before {
						chk.Violation("C01|premise|no-refresh", "the update interval passed but the origin was not asked again", nil)
						return
					}
					if v := w.Handshake(world.Chain(l, p.CA, p.Root)); !v.Rejected() {
						chk.Violation(sig, fmt.Sprintf("a certificate listed in the accepted CRL was accepted after a refresh obtained %s (which is not accepted): %s", kind.name, v), nil)
					}
					n++
					w.Cleanup()
				})
			}
		}
		// (9) a location changes whose list it publishes: the CA was replaced by one with another name, the same file / URL
		// now carries the new CA's list (both CA certificates are configured as trusted signers). After the refresh took
		// it in, a certificate of the new CA which it names is rejected
		for _, mode := range []string{"verify", "verify_log", "none"} {
			for _, source := range []string{"cdp", "crl_urls", "crl_files"} {
				mode, source := mode, source
				seqWorld(func() {
					net := world.NewNet()
					dir, files := FreshDir("c01w"), FreshDir("c01wf")
					defer os.RemoveAll(dir)
					defer os.RemoveAll(files)
					g1 := world.SimpleCRL(p.CA, 1, 640).DER()
					g2 := world.SimpleCRL(p.OtherCA, 2, 641).DER()
					file := filepath.Join(files, "current.crl")
					net.Serve(c01CRLURL, "g1", g1)
					os.WriteFile(file, g1, 0644)
					storage := "memory"
					if disk {
						storage = "disk"
					}
					cfg := &config.CRLConfig{WorkDir: dir, StorageType: storage, UpdateInterval: "10m", SignatureValidationMode: mode,
						TrustedSignatureCertsFiles: []string{WritePEM(files, "ca.pem", p.CA.Cert), WritePEM(files, "newca.pem", p.OtherCA.Cert)}}
					var cdp []string
					switch source {
					case "cdp":
						cdp = []string{c01CRLURL}
					case "crl_urls":
						cfg.CRLUrls = []string{c01CRLURL}
					case "crl_files":
						cfg.CRLFiles = []string{file}
					}
					w := NewTW(TWOpt{Mode: "crl_only", Net: net, CRL: cfg})
					if err := w.Provision(); err != nil {
						chk.Violation("C01|premise|provision-failed", "location-changes-issuer case: "+err.Error(), nil)
						return
					}
					vsched.Drain()
					old := world.Issue(p.CA, world.CertOpt{CN: "c01 w old", Serial: big.NewInt(640), KeyKind: "ec", KeyIdx: 5, CDP: cdp})
					if v := w.Handshake(world.Chain(old, p.CA, p.Root)); !v.Rejected() {
						chk.Violation("C01|premise|first-load", "listed certificate of the first CA accepted right after the first load: "+v.String(), nil)
						return
					}
					vsched.Drain()
					net.Serve(c01CRLURL, "g2", g2)
					os.WriteFile(file, g2, 0644)
					vsched.Advance(11 * time.Minute)
					vsched.Drain()
					nl := world.Issue(p.OtherCA, world.CertOpt{CN: "c01 w new", Serial: big.NewInt(641), KeyKind: "ec", KeyIdx: 5, CDP: cdp})
					if v := w.Handshake(world.Chain(nl, p.OtherCA)); !v.Rejected() {
						chk.Violation("C01|listed-accepted|history=location-now-publishes-the-list-of-a-CA-with-another-name|source="+source+"|"+be(disk),
							fmt.Sprintf("signature_validation_mode %s: the %s location published the list of one CA, then the list of its successor (another name); after the refresh a certificate of the successor which that list names is accepted: %s", mode, source, v), nil)
					}
					n++
					w.Cleanup()
				})
			}
		}
		// (10) a configured list stays in force however many distribution points the validator comes to know: 140 other
		// clients, each naming a distribution point of its own, are seen after the configured list was loaded
		seqWorld(func() {
			net := world.NewNet()
			dir, files := FreshDir("c01m"), FreshDir("c01mf")
			defer os.RemoveAll(dir)
			defer os.RemoveAll(files)
			file := filepath.Join(files, "configured.crl")
			os.WriteFile(file, world.SimpleCRL(p.CA, 1, 650).DER(), 0644)
			storage := "memory"
			if disk {
				storage = "disk"
			}
			cfg := &config.CRLConfig{WorkDir: dir, StorageType: storage, UpdateInterval: "10m", CRLFiles: []string{file},
				TrustedSignatureCertsFiles: []string{WritePEM(files, "ca.pem", p.CA.Cert)}}
			w := NewTW(TWOpt{Mode: "crl_only", Net: net, CRL: cfg})
			if err := w.Provision(); err != nil {
				chk.Violation("C01|premise|provision-failed", "many-distribution-points case: "+err.Error(), nil)
				return
			}
			vsched.Drain()
			x := world.Issue(p.CA, world.CertOpt{CN: "c01 m listed", Serial: big.NewInt(650), KeyKind: "ec", KeyIdx: 5})
			if v := w.Handshake(world.Chain(x, p.CA, p.Root)); !v.Rejected() {
				chk.Violation("C01|premise|first-load", "certificate listed in the configured list accepted right after Provision: "+v.String(), nil)
				return
			}
			other := world.SimpleCRL(p.CA, 1, 699).DER()
			for i := 0; i < 140; i++ {
				u := fmt.Sprintf("http://crl.test/partition-%d.crl", i)
				net.Serve(u, "other", other)
				l := world.Issue(p.CA, world.CertOpt{CN: "c01 m other", Serial: big.NewInt(int64(7000 + i)), KeyKind: "ec", KeyIdx: 5, CDP: []string{u}})
				w.Handshake(world.Chain(l, p.CA, p.Root))
				vsched.Drain()
				vsched.Advance(time.Second) // the clients arrive one after the other
			}
			if v := w.Handshake(world.Chain(x, p.CA, p.Root)); !v.Rejected() {
				chk.Violation("C01|listed-accepted|history=140-distribution-points-seen-after-the-configured-list|"+be(disk),
					fmt.Sprintf("a certificate listed in the configured crl_file is accepted after 140 clients with distribution points of their own were seen: %s", v), nil)
			}
			n++
			w.Cleanup()
			vsched.Drain()
		})
	}
	return n
}

func init() { registry["C01"] = RunC01 }

var _ x509.Certificate
