package drivers

import (
	"bufio"
	"bytes"
	"crypto"
	"crypto/sha256"
	"encoding/asn1"
	"encoding/base64"
	"encoding/hex"
	"encoding/pem"
	"fmt"
	"io"
	"math/big"
	"strings"
	"time"

	"github.com/gr33nbl00d/caddy-revocation-validator/core/asn1parser"
	"github.com/gr33nbl00d/caddy-revocation-validator/core/hashing"
	"github.com/gr33nbl00d/caddy-revocation-validator/core/pemreader"

	"verif/h/fw"
)

// Short-read exploration (deviation bounding over environment answers): the
// byte source answers every Read of the leaf helpers / hash tap with a chosen
// length. All plans with at most 2 deviations from "as much as asked" are
// enumerated; the values returned by the helpers and the digest of the tapped
// bytes must not depend on the plan.

type scriptedReader struct {
	data  []byte
	pos   int
	plan  map[int]int // read index -> forced length class (1 = one byte, 2 = half of what is possible)
	reads int
}

func (s *scriptedReader) Read(p []byte) (int, error) {
	if s.pos >= len(s.data) {
		return 0, io.EOF
	}
	if len(p) == 0 {
		return 0, nil
	}
	n := len(p)
	if rem := len(s.data) - s.pos; n > rem {
		n = rem
	}
	switch s.plan[s.reads] {
	case 1:
		n = 1
	case 2:
		if n > 1 {
			n = n / 2
		}
	}
	s.reads++
	copy(p, s.data[s.pos:s.pos+n])
	s.pos += n
	return n, nil
}

// shortDoc is a sequence of TLVs exercising every leaf helper with long-form lengths.
func shortDoc() (doc []byte, script []string) {
	add := func(b []byte, what string) {
		doc = append(doc, b...)
		script = append(script, what)
	}
	raw := func(tag byte, content []byte) []byte {
		l := len(content)
		switch {
		case l < 128:
			return append([]byte{tag, byte(l)}, content...)
		case l < 256:
			return append([]byte{tag, 0x81, byte(l)}, content...)
		default:
			return append([]byte{tag, 0x82, byte(l >> 8), byte(l)}, content...)
		}
	}
	inner := raw(0x04, bytes.Repeat([]byte{0xab}, 300))
	add(raw(0x30, inner), "struct")                                                       // SEQUENCE with 2 length octets
	add(raw(0x17, []byte("291231235959Z")), "utctime")                                    // UTCTime
	add(raw(0x03, append([]byte{0x00}, bytes.Repeat([]byte{0x5c}, 256)...)), "bitstring") // BIT STRING 03 82 01 01
	add(raw(0x02, bytes.Repeat([]byte{0x7f}, 20)), "bigint")
	add(raw(0x04, bytes.Repeat([]byte{0x11}, 200)), "octetstring") // 04 81 c8
	add(raw(0x30, raw(0x06, []byte{0x2a, 0x86, 0x48, 0xce, 0x3d, 0x04, 0x03, 0x02})), "struct-small")
	add(raw(0x03, append([]byte{0x00}, bytes.Repeat([]byte{0x33}, 70)...)), "bitstring") // one length octet
	return
}

// runShort parses the document through the real helpers with the hash tap on.
func runShort(src io.Reader, bufSize int, script []string, pemWrapped bool) (out []string, digest string, err error, panicked string) {
	defer func() {
		if r := recover(); r != nil {
			panicked = fmt.Sprint(r)
		}
	}()
	var rd hashing.HashingReaderWrapper
	if pemWrapped {
		pr := pemreader.NewPemReader(bufio.NewReaderSize(src, bufSize))
		dec := base64.NewDecoder(base64.StdEncoding, &pr)
		rd = hashing.HashingReaderWrapper{Reader: bufio.NewReaderSize(dec, bufSize)}
	} else {
		rd = hashing.HashingReaderWrapper{Reader: bufio.NewReaderSize(src, bufSize)}
	}
	rd.StartHashCalculation(crypto.SHA256)
	for _, what := range script {
		switch what {
		case "struct", "struct-small":
			var v asn1.RawValue
			if err = asn1parser.ReadStruct(&rd, &v); err != nil {
				return
			}
			out = append(out, hex.EncodeToString(v.FullBytes))
		case "utctime":
			var t *time.Time
			if t, err = asn1parser.ReadUtcTime(&rd); err != nil {
				return
			}
			out = append(out, t.UTC().String())
		case "bitstring":
			var b *asn1parser.BitString
			if b, err = asn1parser.ParseBitString(&rd); err != nil {
				return
			}
			out = append(out, fmt.Sprintf("%d:%x", b.BitLength, b.Bytes))
		case "bigint":
			var n *big.Int
			if n, err = asn1parser.ReadBigInt(&rd); err != nil {
				return
			}
			out = append(out, n.String())
		case "octetstring":
			var o []byte
			if o, err = asn1parser.ParseOctetString(&rd); err != nil {
				return
			}
			out = append(out, hex.EncodeToString(o))
		}
	}
	digest = hex.EncodeToString(rd.FinishHashCalculation())
	return
}

// c06ShortReads enumerates all read-length plans with <= maxDev deviations.
func c06ShortReads(chk *fw.Check, tier string) (plans int, distinctReads int) {
	doc, script := shortDoc()
	want := sha256.Sum256(doc)
	pemDoc := pem.EncodeToMemory(&pem.Block{Type: "X509 CRL", Bytes: doc})
	type variant struct {
		name string
		data []byte
		pem  bool
		buf  int
	}
	variants := []variant{{"der/buf16", doc, false, 16}, {"der/buf4096", doc, false, 4096}, {"pem/buf4096", pemDoc, true, 4096}, {"pem/buf128", pemDoc, true, 128}}
	for _, v := range variants {
		base := &scriptedReader{data: v.data}
		ref, refDigest, err, pan := runShort(base, v.buf, script, v.pem)
		if err != nil || pan != "" || refDigest != hex.EncodeToString(want[:]) {
			chk.Violation("C06|short-read|baseline|"+v.name, fmt.Sprintf("even without short reads the helper sequence fails on %s: err=%v panic=%s digest ok=%v", v.name, err, pan, refDigest == hex.EncodeToString(want[:])), nil)
			continue
		}
		R := base.reads
		if R > 60 {
			R = 60
		}
		distinctReads += R
		judge := func(plan map[int]int) {
			plans++
			sr := &scriptedReader{data: v.data, plan: plan}
			got, dg, err, pan := runShort(sr, v.buf, script, v.pem)
			desc := fmt.Sprint(plan)
			switch {
			case pan != "":
				chk.Violation("C06|short-read|panic|"+v.name, fmt.Sprintf("%s: panic %s under read plan %s", v.name, pan, desc), plan)
			case err != nil:
				chk.Violation("C06|short-read|error|"+v.name+"|"+shortErrClass(err), fmt.Sprintf("%s: a well-formed document is rejected when the byte source answers short reads %s: %v", v.name, desc, err), plan)
			case strings.Join(got, "|") != strings.Join(ref, "|"):
				chk.Violation("C06|short-read|value-differs|"+v.name, fmt.Sprintf("%s: helper results depend on the read pattern %s", v.name, desc), plan)
			case dg != refDigest:
				chk.Violation("C06|short-read|digest-differs|"+v.name, fmt.Sprintf("%s: the digest of the tapped bytes depends on the read pattern %s", v.name, desc), plan)
			}
		}
		for i := 0; i < R; i++ {
			for _, a := range []int{1, 2} {
				judge(map[int]int{i: a})
				if tier == "thorough" || v.buf != 16 || i < 24 {
					for j := i + 1; j < R; j++ {
						for _, b := range []int{1, 2} {
							judge(map[int]int{i: a, j: b})
						}
					}
				}
			}
		}
		// every read short (the extreme plan)
		all1, all2 := map[int]int{}, map[int]int{}
		for i := 0; i < 4096; i++ {
			all1[i], all2[i] = 1, 2
		}
		judge(all1)
		judge(all2)
	}
	return
}

func shortErrClass(err error) string {
	s := normaliseNumbers(err.Error())
	if len(s) > 60 {
		s = s[:60]
	}
	return s
}
