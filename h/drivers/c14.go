package drivers

import (
	"crypto/x509"
	"crypto/x509/pkix"
	"fmt"
	"github.com/gr33nbl00d/caddy-revocation-validator/config"
	"math/big"
	"net/http"
	"sort"
	"strings"
	"time"

	xocsp "golang.org/x/crypto/ocsp"

	"verif/h/fw"
	"verif/h/rt/vsched"
	"verif/h/world"
)

// C14: OCSP cache soundness, explicit-state exploration of event histories on
// the real checker + (instrumented) cache2go under the virtual clock.

type c14Cfg struct {
	Default time.Duration
	NextUpd string // absent | past | +1h
	// V2Gone: the histories start in another state - the second checker of the process has already been cleaned up
	// (what a configuration reload leaves: new instance provisioned, old one cleaned up)
	V2Gone bool
}

func (c c14Cfg) L() time.Duration {
	if c.NextUpd == "+1h" {
		return time.Hour + 15*time.Minute
	}
	return c.Default
}

type c14Cast struct {
	p           *world.PKI
	caA, caB    *world.Ident
	c1, c1b, c2 *world.Ident
	certs       []*world.Ident
	issuers     []*world.Ident
	urls        []string
}

const (
	c14URLA = "http://ocsp.test/A"
	c14URLB = "http://ocsp.test/B"
)

func newC14Cast() *c14Cast {
	p := world.Std()
	k := &c14Cast{p: p, caA: p.CA}
	// issuer B's name is distinct from A's on the wire (an extra leading CN and another attribute order) but renders
	// the same under the lossy pkix.Name form: "same issuer" means the encoded name
	k.caB = world.Issue(p.Root, world.CertOpt{CN: "verif issuing CA B", RawSubject: world.RawDN("CN", "backup", "CN", "verif issuing CA", "O", "verif"), IsCA: true, KeyKind: "ec", KeyIdx: 6, Serial: big.NewInt(61)})
	if k.caB.Cert.Subject.String() != k.caA.Cert.Subject.String() || string(k.caB.Cert.RawSubject) == string(k.caA.Cert.RawSubject) {
		panic("c14 cast: issuer names are expected to differ encoded and to collide as pkix.Name: " + k.caB.Cert.Subject.String() + " / " + k.caA.Cert.Subject.String())
	}
	subj := pkix.Name{CommonName: "shared subject", Organization: []string{"verif"}}
	// the serial numbers of c1 and c2 (same issuer) are 72 bits wide and agree in the low 64 bits; c1' (other issuer)
	// has c1's serial number
	s1 := new(big.Int).Add(new(big.Int).Lsh(big.NewInt(1), 64), big.NewInt(0x5eed))
	s2 := new(big.Int).Add(new(big.Int).Lsh(big.NewInt(2), 64), big.NewInt(0x5eed))
	k.c1 = world.Issue(k.caA, world.CertOpt{Subject: &subj, Serial: s1, KeyKind: "ec", KeyIdx: 5, OCSP: []string{c14URLA}})
	k.c1b = world.Issue(k.caB, world.CertOpt{Subject: &subj, Serial: s1, KeyKind: "ec", KeyIdx: 7, OCSP: []string{c14URLB}})
	k.c2 = world.Issue(k.caA, world.CertOpt{CN: "second client", Serial: s2, KeyKind: "ec", KeyIdx: 5, OCSP: []string{c14URLA}})
	k.certs = []*world.Ident{k.c1, k.c1b, k.c2}
	k.issuers = []*world.Ident{k.caA, k.caB, k.caA}
	k.urls = []string{c14URLA, c14URLB, c14URLA}
	return k
}

// events
var c14Events = []string{"lookup(c1,V1)", "lookup(c1',V1)", "lookup(c2,V1)", "lookup(c1,V2)", "advance(L/2)", "advance(L+1s)", "advance(L-1s)", "flipA(c1->revoked)", "downA", "upA", "cleanup(V2)"}

type c14ModelEntry struct {
	Status    string
	FetchedAt time.Time
	L         time.Duration
	LastRead  time.Time
}

type c14Viol struct{ Sig, What string }

// c14Run replays a history on a fresh world; returns canonical key and violations.
func (k *c14Cast) run(cfg c14Cfg, hist []int) (key string, viols []c14Viol, trace []string) {
	L := cfg.L()
	seqWorld(func() {
		net := world.NewNet()
		v := []*OW{NewOW(false, cfg.Default, nil, net), NewOW(false, cfg.Default, nil, net)}
		v2alive := true
		revokedA := false
		downA := false
		lastFailed := map[int]bool{} // cert index -> previous lookup's query failed
		model := map[string]*c14ModelEntry{}
		mkey := func(ci int) string {
			return fmt.Sprintf("%x#%s", k.issuers[ci].Cert.RawSubject, k.certs[ci].Cert.SerialNumber)
		}
		serve := func() {
			for ci := range k.certs {
				ci := ci
				url := k.urls[ci]
				if url == c14URLA && downA {
					net.Down(url)
					continue
				}
				net.Routes[url] = &world.Behaviour{Label: "ocsp", Fn: func(req *http.Request, body []byte) (int, []byte, error) {
					r, err := xocsp.ParseRequest(body)
					if err != nil {
						return 400, []byte("bad request"), nil
					}
					st := xocsp.Good
					var issuer *world.Ident = k.caA
					if req.URL.String() == c14URLB {
						issuer = k.caB
					}
					if issuer == k.caA && revokedA && r.SerialNumber.Cmp(k.c1.Cert.SerialNumber) == 0 {
						st = xocsp.Revoked
					}
					a := world.OCSPAnswer{Status: st, Serial: r.SerialNumber, Issuer: issuer, Signer: issuer, ThisUpdate: vsched.Now().Add(-time.Minute)}
					switch cfg.NextUpd {
					case "past":
						a.NextUpdate = vsched.Now().Add(-time.Second)
					case "+1h":
						a.NextUpdate = vsched.Now().Add(time.Hour)
					}
					return 200, world.BuildOCSP(a), nil
				}}
			}
		}
		serve()
		step := func(e int) (abort bool) {
			name := c14Events[e]
			switch {
			case strings.HasPrefix(name, "lookup"):
				ci := map[int]int{0: 0, 1: 1, 2: 2, 3: 0}[e]
				inst := 0
				if e == 3 {
					inst = 1
					if !v2alive {
						// a cleaned-up instance is not used any more
						key = ""
						return true
					}
				}
				net.ResetHits()
				verdict := v[inst].Lookup(k.certs[ci], world.Chain(k.certs[ci], k.issuers[ci], k.p.Root))
				hits := len(net.Hits)
				now := vsched.Now()
				trace = append(trace, fmt.Sprintf("%s@%s=%s hits=%d", name, now.Sub(vsched.Epoch), verdict, hits))
				m := model[mkey(ci)]
				if hits == 0 {
					// cache hit
					switch {
					case verdict.Panic != "" || verdict.Err != "":
						viols = append(viols, c14Viol{"C14|lookup-error", fmt.Sprintf("lookup failed without contacting the responder: %s%s", verdict.Err, verdict.Panic)})
					case m == nil:
						// served from the cache although no response for this (issuer, serial) was ever obtained
						viols = append(viols, c14Viol{"C14|hit-for-other-certificate", fmt.Sprintf("%s answered %s from the cache without any request, but no response for this issuer+serial was ever fetched (entry of another certificate)", name, verdict)})
					default:
						age := now.Sub(m.FetchedAt)
						if L == 0 {
							viols = append(viols, c14Viol{"C14|hit-with-zero-lifetime", fmt.Sprintf("%s served from the cache although default duration is 0 and nextUpdate is unusable", name)})
						} else if age > m.L {
							kind := "expired"
							if m.LastRead.After(m.FetchedAt) {
								kind = "expired-kept-alive-by-reads"
							}
							viols = append(viols, c14Viol{"C14|stale-hit|" + kind, fmt.Sprintf("%s served from the cache at age %s > lifetime %s (fetched %s, last read %s)", name, age, m.L, m.FetchedAt.Sub(vsched.Epoch), m.LastRead.Sub(vsched.Epoch))})
						}
						if verdict.String() != m.Status {
							viols = append(viols, c14Viol{"C14|hit-wrong-status", fmt.Sprintf("%s served %s from the cache, the response fetched for this certificate said %s", name, verdict, m.Status)})
						}
						if lastFailed[ci] {
							viols = append(viols, c14Viol{"C14|hit-after-failed-query", name + " was served from the cache right after a failed query"})
						}
						m.LastRead = now
					}
				} else {
					failed := k.urls[ci] == c14URLA && downA
					lastFailed[ci] = failed
					if !failed {
						want := "OK"
						if ci == 0 && revokedA {
							want = "REVOKED"
						}
						if verdict.String() != want {
							viols = append(viols, c14Viol{"C14|fresh-answer-wrong", fmt.Sprintf("%s fetched a fresh answer but returned %s, responder said %s", name, verdict, want)})
						}
						if L > 0 {
							model[mkey(ci)] = &c14ModelEntry{Status: verdict.String(), FetchedAt: now, L: L, LastRead: now}
						} else {
							delete(model, mkey(ci))
						}
					} else {
						delete(model, mkey(ci))
						if verdict.String() != "OK" {
							viols = append(viols, c14Viol{"C14|lenient-unavailable-denied", fmt.Sprintf("%s with responder down and aia_strict off returned %s", name, verdict)})
						}
					}
				}
			case name == "advance(L/2)":
				d := L / 2
				if d == 0 {
					d = 5 * time.Minute
				}
				vsched.Advance(d)
			case name == "advance(L+1s)":
				d := L + time.Second
				if L == 0 {
					d = 10*time.Minute + time.Second
				}
				vsched.Advance(d)
			case name == "advance(L-1s)":
				d := L - time.Second
				if L == 0 {
					d = 10*time.Minute - time.Second
				}
				vsched.Advance(d)
			case name == "flipA(c1->revoked)":
				if revokedA {
					key = ""
					return true
				}
				revokedA = true
			case name == "downA":
				if downA {
					key = ""
					return true
				}
				downA = true
				serve()
			case name == "upA":
				if !downA {
					key = ""
					return true
				}
				downA = false
				serve()
			case name == "cleanup(V2)":
				if !v2alive {
					key = ""
					return true
				}
				v2alive = false
				v[1].Chk.Cleanup()
				// Flush of the shared table is allowed to drop entries; the model keeps them (a hit after a flush would
				// simply not happen). Entries the model holds are upper bounds for what may be served.
			}
			return false
		}
		if cfg.V2Gone {
			v2alive = false
			v[1].Chk.Cleanup()
		}
		for _, e := range hist {
			if step(e) {
				return
			}
		}
		// canonical key: model entries with age / last-read buckets, responder state, instances
		now := vsched.Now()
		var parts []string
		for mk, m := range model {
			age := now.Sub(m.FetchedAt)
			ab := "<half"
			switch {
			case age > m.L:
				ab = ">L"
			case age >= m.L/2:
				ab = "<=L"
			}
			sr := now.Sub(m.LastRead)
			rb := "read<half"
			switch {
			case sr > m.L:
				rb = "read>L"
			case sr >= m.L/2:
				rb = "read<=L"
			}
			parts = append(parts, fmt.Sprintf("%s:%s:%s:%s:%v", mk, m.Status, ab, rb, age.Truncate(time.Minute)))
		}
		sort.Strings(parts)
		var lf []string
		for ci, f := range lastFailed {
			if f {
				lf = append(lf, fmt.Sprint(ci))
			}
		}
		sort.Strings(lf)
		key = fmt.Sprintf("%v|rev=%v down=%v v2=%v failed=%v", parts, revokedA, downA, v2alive, lf)
		// final observation (after the key was taken): every history ends with a lookup of each certificate on V1, judged
		// like any other lookup - also the histories which are then merged into a state seen before
		if n := len(hist); n > 0 && !strings.HasPrefix(c14Events[hist[n-1]], "lookup") {
			trace = append(trace, "final:")
			for _, e := range []int{0, 1, 2} {
				if step(e) {
					break
				}
			}
		}
		for _, w := range v {
			_ = w
		}
	})
	return
}

// c14IssuerPairs: pairs of issuers with different names which look alike once rendered (TeletexString octets which
// are not valid UTF-8). A response cached for (X, serial) must not be served for (Y, serial).
func c14IssuerPairs(chk *fw.Check) int {
	p := world.Std()
	mk := func(raw []byte, idx int, serial int64) *world.Ident {
		return world.Issue(p.Root, world.CertOpt{CN: fmt.Sprintf("pair-%d", serial), RawSubject: raw, IsCA: true, KeyKind: "ec", KeyIdx: idx, Serial: big.NewInt(serial)})
	}
	pairs := []struct {
		name string
		x, y *world.Ident
	}{
		{"teletex-octet", mk(world.RawDNT61("O", "verif", "CN", "M\xfcller CA"), 6, 78), mk(world.RawDNT61("O", "verif", "CN", "M\xf6ller CA"), 7, 79)},
		// (names which RFC 5280 name matching treats as equal - other letter case, compressed blanks, another string
		// type with the same text - are deliberately not in this list: they may share an entry)
		{"teletex-other-character", mk(world.RawDNT61("O", "verif", "CN", "M\xfcller CA"), 6, 80), mk(world.RawDNT61("O", "verif", "CN", "Mueller CA"), 7, 81)},
	}
	n := 0
	for _, pr := range pairs {
		pr := pr
		if string(pr.x.Cert.RawSubject) == string(pr.y.Cert.RawSubject) {
			panic("c14IssuerPairs: names are equal")
		}
		seqWorld(func() {
			net := world.NewNet()
			w := NewOW(false, 10*time.Minute, nil, net)
			urls := map[*world.Ident]string{pr.x: "http://ocsp.test/x", pr.y: "http://ocsp.test/y"}
			for ca, url := range urls {
				ca := ca
				net.Routes[url] = &world.Behaviour{Label: "ocsp", Fn: func(req *http.Request, body []byte) (int, []byte, error) {
					r, err := xocsp.ParseRequest(body)
					if err != nil {
						return 400, nil, nil
					}
					st := xocsp.Good
					if ca == pr.y {
						st = xocsp.Revoked
					}
					return 200, world.BuildOCSP(world.OCSPAnswer{Status: st, Serial: r.SerialNumber, Issuer: ca, Signer: ca, ThisUpdate: vsched.Now().Add(-time.Minute)}), nil
				}}
			}
			lx := world.Issue(pr.x, world.CertOpt{CN: "same subject", Serial: big.NewInt(5000), KeyKind: "ec", KeyIdx: 5, OCSP: []string{urls[pr.x]}})
			ly := world.Issue(pr.y, world.CertOpt{CN: "same subject", Serial: big.NewInt(5000), KeyKind: "ec", KeyIdx: 5, OCSP: []string{urls[pr.y]}})
			v1 := w.Lookup(lx, world.Chain(lx, pr.x, p.Root))
			h1 := len(net.Hits)
			v2 := w.Lookup(ly, world.Chain(ly, pr.y, p.Root))
			n++
			if v1.String() != "OK" || h1 != 1 {
				chk.Violation("C14|fresh-answer-wrong|issuer-pair="+pr.name, fmt.Sprintf("first lookup (issuer X, good): %s after %d requests", v1, h1), nil)
				return
			}
			if len(net.Hits) == h1 {
				chk.Violation("C14|hit-for-other-certificate|issuer-pair="+pr.name,
					fmt.Sprintf("the status cached for issuer X (name octets % x) serial 5000 was served for the certificate of issuer Y (name octets % x) with the same serial without any request: %s (Y's responder says revoked)", pr.x.Cert.RawSubject, pr.y.Cert.RawSubject, v2), nil)
			} else if v2.String() != "REVOKED" {
				chk.Violation("C14|fresh-answer-wrong|issuer-pair="+pr.name, fmt.Sprintf("second lookup (issuer Y, revoked): %s %s", v2, v2.Err), nil)
			}
			w.Chk.Cleanup()
		})
	}
	return n
}

// c14TwoModules: two instances of the caddy module in one process with different default_cache_duration (all four
// orders of {0, 1h} x provisioning order). Each instance caches by its own configuration: on the instance with
// duration 0 every handshake asks the responder and sees a flip to revoked at once; on the 1h instance the second
// handshake is a hit.
// c14UnknownStatus: the responder answers "unknown" (no nextUpdate). What the checker makes of such an answer is not
// the point here; how long it keeps it is: with default_cache_duration 0 not at all, with 2 minutes for 2 minutes.
func c14UnknownStatus(chk *fw.Check) int {
	p := world.Std()
	n := 0
	for _, dur := range []time.Duration{0, 2 * time.Minute} {
		n++
		dur := dur
		seqWorld(func() {
			net := world.NewNet()
			status := xocsp.Unknown
			net.Routes[c14URLA] = &world.Behaviour{Label: "ocsp", Fn: func(req *http.Request, body []byte) (int, []byte, error) {
				r, err := xocsp.ParseRequest(body)
				if err != nil {
					return 400, nil, nil
				}
				return 200, world.BuildOCSP(world.OCSPAnswer{Status: status, Serial: r.SerialNumber, Issuer: p.CA, Signer: p.CA, ThisUpdate: vsched.Now().Add(-time.Minute)}), nil
			}}
			w := NewOW(false, dur, nil, net)
			l := world.Leaf(p.CA, bi(5200), nil, []string{c14URLA})
			ch := world.Chain(l, p.CA, p.Root)
			w.Lookup(l, ch)
			status = xocsp.Revoked
			vsched.Advance(dur + time.Second)
			before := len(net.Hits)
			v := w.Lookup(l, ch)
			if len(net.Hits) == before || v.String() != "REVOKED" {
				chk.Violation(fmt.Sprintf("C14|stale-hit|unknown-status-kept-beyond-the-configured-lifetime|default=%v", dur),
					fmt.Sprintf("default_cache_duration %v, no nextUpdate: the responder answered 'unknown', then 'revoked'; a lookup %v after the first one sent %d request(s) and reads %s", dur, dur+time.Second, len(net.Hits)-before, v), nil)
			}
			w.Chk.Cleanup()
		})
	}
	return n
}

// c14TwoModulesSameDuration: two checkers of the process with the same default_cache_duration. The first obtains a
// "good" for a certificate of the CA; the second is asked about a certificate with the same serial number of the
// re-keyed CA (same name, other key) while the responder is down, ocsp_aia_strict on: it has no answer of its own and
// says so - what another checker cached is not its answer.
func c14TwoModulesSameDuration(chk *fw.Check) int {
	p := world.Std()
	n := 0
	for _, dur := range []time.Duration{10 * time.Minute, time.Hour} {
		n++
		dur := dur
		seqWorld(func() {
			net := world.NewNet()
			net.Routes[c14URLA] = &world.Behaviour{Label: "ocsp", Fn: func(req *http.Request, body []byte) (int, []byte, error) {
				r, err := xocsp.ParseRequest(body)
				if err != nil {
					return 400, nil, nil
				}
				return 200, world.BuildOCSP(world.OCSPAnswer{Status: xocsp.Good, Serial: r.SerialNumber, Issuer: p.CA, Signer: p.CA, ThisUpdate: vsched.Now().Add(-time.Minute)}), nil
			}}
			a, b := NewOW(true, dur, nil, net), NewOW(true, dur, nil, net)
			la := world.Leaf(p.CA, bi(5300), nil, []string{c14URLA})
			lb := world.Leaf(p.Sibling, bi(5300), nil, []string{c14URLA})
			if v := a.Lookup(la, world.Chain(la, p.CA, p.Root)); v.String() != "OK" {
				chk.Violation("C14|harness|two-modules-same-duration", "first checker: "+v.String()+" "+v.Err, nil)
				return
			}
			net.Down(c14URLA)
			before := len(net.Hits)
			v := b.Lookup(lb, world.Chain(lb, p.Sibling, p.Root))
			if v.String() != "ERR" {
				chk.Violation(fmt.Sprintf("C14|hit-for-another-certificate|status-cached-by-another-checker|default=%v", dur),
					fmt.Sprintf("two strict checkers with default_cache_duration %v: the first cached 'good' for serial 5300 of the CA; the second, asked about serial 5300 of the re-keyed CA with the responder down (%d request(s)), reads %s instead of reporting that it has no answer", dur, len(net.Hits)-before, v), nil)
			}
			a.Chk.Cleanup()
			b.Chk.Cleanup()
		})
	}
	return n
}

func c14TwoModules(chk *fw.Check) int {
	p := world.Std()
	n := 0
	for _, zeroFirst := range []bool{true, false} {
		n++
		sig := fmt.Sprintf("zero-duration-instance-provisioned-first=%v", zeroFirst)
		seqWorld(func() {
			net := world.NewNet()
			revoked := false
			net.Routes[c14URLA] = &world.Behaviour{Label: "ocsp", Fn: func(req *http.Request, body []byte) (int, []byte, error) {
				r, err := xocsp.ParseRequest(body)
				if err != nil {
					return 400, nil, nil
				}
				st := xocsp.Good
				if revoked {
					st = xocsp.Revoked
				}
				return 200, world.BuildOCSP(world.OCSPAnswer{Status: st, Serial: r.SerialNumber, Issuer: p.CA, Signer: p.CA, ThisUpdate: vsched.Now().Add(-time.Minute)}), nil
			}}
			mk := func(dur string) *TW {
				w := NewTW(TWOpt{Mode: "ocsp_only", Net: net, OCSP: &config.OCSPConfig{DefaultCacheDuration: dur}})
				if err := w.Provision(); err != nil {
					panic("c14TwoModules: " + err.Error())
				}
				return w
			}
			var zero, hour *TW
			if zeroFirst {
				zero, hour = mk("0s"), mk("1h")
			} else {
				hour, zero = mk("1h"), mk("0s")
			}
			la := world.Leaf(p.CA, bi(5100), nil, []string{c14URLA})
			lb := world.Leaf(p.CA, bi(5101), nil, []string{c14URLA})
			// the zero-duration instance: two handshakes, two requests; flip; rejected
			zero.Handshake(world.Chain(la, p.CA, p.Root))
			zero.Handshake(world.Chain(la, p.CA, p.Root))
			if h := len(net.Hits); h != 2 {
				chk.Violation("C14|hit-with-zero-lifetime|two-modules|"+sig, fmt.Sprintf("the instance with default_cache_duration 0 (another instance has 1h) sent %d request(s) for two handshakes", h), nil)
			}
			revoked = true
			if v := zero.Handshake(world.Chain(la, p.CA, p.Root)); !v.Rejected() {
				chk.Violation("C14|stale-hit|two-modules|"+sig, "the instance with default_cache_duration 0 accepted the certificate after the responder had flipped to revoked", nil)
			}
			revoked = false
			// what the 1h instance has cached is nothing to the zero-duration instance: the 1h instance obtains a status for
			// a third certificate, the responder flips, the zero-duration instance is asked about that certificate
			lc := world.Leaf(p.CA, bi(5102), nil, []string{c14URLA})
			hour.Handshake(world.Chain(lc, p.CA, p.Root))
			revoked = true
			before := len(net.Hits)
			if v := zero.Handshake(world.Chain(lc, p.CA, p.Root)); !v.Rejected() || len(net.Hits) == before {
				chk.Violation("C14|hit-with-zero-lifetime|two-modules-status-cached-by-the-other-instance|"+sig, fmt.Sprintf("the instance with default_cache_duration 0 answered %s with %d request(s) for a certificate whose status the 1h instance had cached before the responder flipped to revoked", v, len(net.Hits)-before), nil)
			}
			revoked = false
			// the 1h instance: second handshake of another certificate is a hit
			net.ResetHits()
			hour.Handshake(world.Chain(lb, p.CA, p.Root))
			hour.Handshake(world.Chain(lb, p.CA, p.Root))
			hits1h := len(net.Hits)
			_ = hits1h // a miss here is not a violation of the statement (an entry may always be dropped early)
			zero.Cleanup()
			hour.Cleanup()
		})
	}
	return n
}

// c14Reload: instances come and go (what configuration reloads do). Two instances are provisioned, one of them is
// cleaned up, a third one is provisioned; the survivor (1h) caches a status, the responder flips, the newcomer
// (default_cache_duration 0) is asked about the same certificate: it asks the responder and rejects. All choices of which
// of the two is cleaned up and of the order survivor-caches / newcomer-is-provisioned.
func c14Reload(chk *fw.Check) int {
	p := world.Std()
	n := 0
	for _, cleanFirst := range []bool{true, false} {
		for _, cacheBeforeNewcomer := range []bool{true, false} {
			for _, more := range []int{0, 2} {
				n++
				sig := fmt.Sprintf("cleaned-up=%s survivor-caches-before-the-newcomer-is-provisioned=%v further-instances-come-and-go=%d", map[bool]string{true: "the-older-of-two", false: "the-younger-of-two"}[cleanFirst], cacheBeforeNewcomer, more)
				seqWorld(func() {
					net := world.NewNet()
					revoked := false
					net.Routes[c14URLA] = &world.Behaviour{Label: "ocsp", Fn: func(req *http.Request, body []byte) (int, []byte, error) {
						r, err := xocsp.ParseRequest(body)
						if err != nil {
							return 400, nil, nil
						}
						st := xocsp.Good
						if revoked {
							st = xocsp.Revoked
						}
						return 200, world.BuildOCSP(world.OCSPAnswer{Status: st, Serial: r.SerialNumber, Issuer: p.CA, Signer: p.CA, ThisUpdate: vsched.Now().Add(-time.Minute)}), nil
					}}
					mk := func(dur string) *TW {
						w := NewTW(TWOpt{Mode: "ocsp_only", Net: net, OCSP: &config.OCSPConfig{DefaultCacheDuration: dur}})
						if err := w.Provision(); err != nil {
							panic("c14Reload: " + err.Error())
						}
						return w
					}
					a, b := mk("1h"), mk("1h")
					survivor, gone := b, a
					if !cleanFirst {
						survivor, gone = a, b
					}
					for i := 0; i < more; i++ {
						x := mk("1h")
						x.Cleanup()
					}
					gone.Cleanup()
					l := world.Leaf(p.CA, bi(5200), nil, []string{c14URLA})
					var newcomer *TW
					if cacheBeforeNewcomer {
						survivor.Handshake(world.Chain(l, p.CA, p.Root))
						newcomer = mk("0s")
					} else {
						newcomer = mk("0s")
						survivor.Handshake(world.Chain(l, p.CA, p.Root))
					}
					revoked = true
					before := len(net.Hits)
					if v := newcomer.Handshake(world.Chain(l, p.CA, p.Root)); !v.Rejected() || len(net.Hits) == before {
						chk.Violation("C14|hit-with-zero-lifetime|instance-provisioned-after-another-was-cleaned-up|"+sig, fmt.Sprintf("an instance with default_cache_duration 0, provisioned after another instance of the process had been cleaned up, answered %s with %d request(s) for a certificate whose status a surviving 1h instance had cached before the responder flipped to revoked", v, len(net.Hits)-before), nil)
					}
					newcomer.Cleanup()
					survivor.Cleanup()
				})
			}
		}
	}
	return n
}

// RunC14 is the entry point of the C14 check.
func RunC14(tier string, args []string) int {
	chk := fw.NewCheck("C14", tier, "model_checking")
	chk.Assumptions = []string{
		"cache hit = a lookup during which the scripted transport logged no request",
		"reference model: one entry per (issuer DN, serial) holding the fetched status, fetch time and lifetime L = nextUpdate - fetch time + 15 min if nextUpdate lies in the future, else the default duration; an entry may be dropped early (flush), never served late",
		"virtual clock shared by the ocsp package and the instrumented cache2go; canonical state key = model entries with age and last-read buckets + responder state + live instances",
	}
	k := newC14Cast()
	depth := 5
	maxStates := 60000
	deadline := time.Now().Add(100 * time.Second)
	if tier == "thorough" {
		depth = 8
		maxStates = 4000000
		deadline = time.Now().Add(60 * time.Minute)
	}
	cfgs := []c14Cfg{{0, "absent", false}, {10 * time.Minute, "absent", false}, {10 * time.Minute, "past", false}, {0, "+1h", false}, {10 * time.Minute, "+1h", false}, {0, "past", false},
		// a default duration longer than what the response allows: nextUpdate (+ skew) still ends the lifetime
		{4 * time.Hour, "+1h", false},
		// histories which start after the other checker of the process was cleaned up
		{10 * time.Minute, "absent", true}}
	total := fw.HStats{}
	exhaustive := true
	var samples []interface{}
	perCfg := map[string]interface{}{}
	for _, cfg := range cfgs {
		cfg := cfg
		st := fw.BFS(len(c14Events), depth, maxStates, deadline, func(hist []int) (string, bool) {
			key, viols, trace := k.run(cfg, hist)
			if key == "" {
				return "", false
			}
			for _, v := range viols {
				names := make([]string, len(hist))
				for i, e := range hist {
					names[i] = c14Events[e]
				}
				chk.Violation(v.Sig, fmt.Sprintf("[default=%v nextUpdate=%s] %s; history: %s; trace: %s", cfg.Default, cfg.NextUpd, v.What, strings.Join(names, " ; "), strings.Join(trace, " ")),
					map[string]interface{}{"driver": "C14", "default": cfg.Default.String(), "nextUpdate": cfg.NextUpd, "history": hist, "events": names})
			}
			return key, len(viols) == 0
		})
		total.States += st.States
		total.Transitions += st.Transitions
		total.Pruned += st.Pruned
		if st.MaxDepth > total.MaxDepth {
			total.MaxDepth = st.MaxDepth
		}
		if st.Capped {
			exhaustive = false
		}
		perCfg[fmt.Sprintf("default=%v,nextUpdate=%s,otherCheckerCleanedUpFirst=%v", cfg.Default, cfg.NextUpd, cfg.V2Gone)] = st
		fmt.Printf("  cfg default=%v nextUpdate=%s: states=%d transitions=%d depth=%d capped=%v\n", cfg.Default, cfg.NextUpd, st.States, st.Transitions, st.DepthDone, st.Capped)
	}
	samples = append(samples, map[string]interface{}{"config": "default=10m nextUpdate=absent", "history": []string{"lookup(c1,V1)", "advance(L/2)", "lookup(c1,V1)", "advance(L/2)", "flipA(c1->revoked)", "lookup(c1,V1)"}})
	samples = append(samples, map[string]interface{}{"config": "default=10m nextUpdate=absent", "history": []string{"lookup(c1',V1)", "flipA(c1->revoked)", "lookup(c1,V2)"}})
	pairCases := c14IssuerPairs(chk) + c14TwoModules(chk) + c14Reload(chk) + c14UnknownStatus(chk) + c14TwoModulesSameDuration(chk)
	// all schedules (<= 2 preemptions) of two checkers with lifetimes 1h and 0 asked about one certificate at the same
	// moment: what the zero-duration checker holds afterwards is nothing
	srep := exploreInProcess(chk, "C14", ocspTwoLifetimesScenario("C14"), 2)
	fmt.Printf("  S %-40s execs=%d per-bound=%v outcomes=%v\n", srep.Scenario, srep.Executions, srep.PerBound, srep.Outcomes)
	pairCases += srep.Executions
	cov := fw.Coverage{
		"states":                        total.States + pairCases,
		"transitions":                   total.Transitions + 2*pairCases,
		"traces_validated_against_impl": total.Transitions + pairCases,
		"issuer_pair_histories":         pairCases,
		"schedule_scenario":             srep,
		"max_depth":                     total.MaxDepth,
		"merged_transitions":            total.Pruned,
		"per_config":                    perCfg,
		"event_alphabet":                c14Events,
		"samples":                       samples,
		"exhaustive":                    exhaustive,
	}
	return chk.Finish(cov)
}

func init() { registry["C14"] = RunC14 }

var _ x509.Certificate
