package drivers

import (
	"encoding/json"
	"fmt"
	"os"
	"path/filepath"
	"reflect"
	"strconv"
	"strings"
	"time"

	"github.com/caddyserver/caddy/v2"
	"github.com/caddyserver/caddy/v2/caddyconfig/caddyfile"

	revocation "github.com/gr33nbl00d/caddy-revocation-validator"
	"github.com/gr33nbl00d/caddy-revocation-validator/config"
	"github.com/gr33nbl00d/caddy-revocation-validator/crl"

	"verif/h/fw"
	"verif/h/rt/vsched"
	"verif/h/world"
)

// C19: configuration faithfulness - Caddyfile = JSON, documented defaults, no ignoring.

// A configuration is a value index per dimension. Value 0 is always "omitted".
type c19Dim struct {
	Name   string
	Values []string // "" = omitted; "!x" = invalid value x
}

var c19Dims = []c19Dim{
	{"mode", []string{"", "prefer_ocsp", "prefer_crl", "ocsp_only", "crl_only", "disabled", "!bogus"}},
	{"work_dir", []string{"valid", "", "!missing-directory"}},
	{"storage_type", []string{"", "memory", "disk", "!bogus"}},
	{"update_interval", []string{"", "1m", "!bogus", "!0s", "!-5m"}},
	{"signature_validation_mode", []string{"", "verify", "verify_log", "none", "!bogus"}},
	{"crl_url", []string{"", "u", "u,u2"}},
	{"crl_file", []string{"", "f", "f,f2"}},
	{"trusted_signature_cert_file", []string{"", "pem", "pem,pem2"}},
	{"crl_fetch_mode", []string{"", "fetch_actively", "fetch_background", "!bogus"}},
	{"crl_cdp_strict", []string{"", "true", "false", "!bogus"}},
	{"default_cache_duration", []string{"", "1m", "!bogus"}},
	{"ocsp_aia_strict", []string{"", "true", "false"}},
	{"trusted_responder_cert_file", []string{"", "pem", "pem,pem2"}},
	{"misspelt", []string{"", "top", "crl_config", "cdp_config", "ocsp_config"}},
	// how the Caddyfile spells the same settings (the JSON form is not affected): options of every block in reverse
	// order, every value in double quotes, every value in backquotes
	// ... and booleans in the other spellings a Caddyfile boolean has (1/0, T/F, True/False, TRUE/FALSE)
	{"caddyfile_spelling", []string{"", "reversed-order", "double-quoted", "backquoted", "booleans-1-0", "booleans-T-F", "booleans-True-False", "booleans-TRUE-FALSE"}},
}

const (
	dMode = iota
	dWorkDir
	dStorage
	dInterval
	dSigMode
	dURL
	dFile
	dTrusted
	dFetch
	dStrict
	dCache
	dAIA
	dResponder
	dMisspelt
	dSpelling
)

type c19Conf []int

func (c c19Conf) String() string {
	var parts []string
	for i, v := range c {
		val := c19Dims[i].Values[v]
		if i == dWorkDir {
			if v == 0 {
				continue
			}
			if val == "" {
				val = "(omitted)"
			}
		} else if v == 0 {
			continue
		}
		parts = append(parts, c19Dims[i].Name+"="+val)
	}
	if len(parts) == 0 {
		return "all-defaults"
	}
	return strings.Join(parts, " ")
}

type c19Env struct {
	dir, files, caPEM, caPEM2, crlFile, crlFile2, missing string
	u, u2                                                 string
}

func (c c19Conf) val(d int) string { return strings.TrimPrefix(c19Dims[d].Values[c[d]], "!") }
func (c c19Conf) set(d int) bool   { return c19Dims[d].Values[c[d]] != "" }

// expectError: does the documentation demand that loading this configuration fails?
func (c c19Conf) invalid() bool {
	for d, v := range c {
		if d == dWorkDir {
			continue // a work_dir is only required (and checked) when CRL checking is enabled: see documented()
		}
		if strings.HasPrefix(c19Dims[d].Values[v], "!") {
			return true
		}
	}
	if c[dMisspelt] != 0 {
		return true
	}
	return false
}

func (c c19Conf) crlEnabled() bool {
	m := c.val(dMode)
	return m == "" || m == "prefer_ocsp" || m == "prefer_crl" || m == "crl_only"
}

func (c c19Conf) hasCRLBlock() bool {
	for _, d := range []int{dStorage, dInterval, dSigMode, dURL, dFile, dTrusted, dFetch, dStrict} {
		if c.set(d) {
			return true
		}
	}
	return c[dWorkDir] != 1 || c[dMisspelt] == 2 || c[dMisspelt] == 3
}

func (c c19Conf) hasCDPBlock() bool { return c.set(dFetch) || c.set(dStrict) || c[dMisspelt] == 3 }
func (c c19Conf) hasOCSPBlock() bool {
	return c.set(dCache) || c.set(dAIA) || c.set(dResponder) || c[dMisspelt] == 4
}

func (c c19Conf) workDir(e *c19Env) string {
	switch c[dWorkDir] {
	case 0:
		return e.dir
	case 2:
		return e.missing
	}
	return ""
}

// renderCaddyfile writes the configuration in Caddyfile syntax.
func (c c19Conf) renderCaddyfile(e *c19Env) string {
	q := func(v string) string {
		switch c[dSpelling] {
		case 2:
			return "\"" + v + "\""
		case 3:
			return "`" + v + "`"
		}
		return v
	}
	qb := func(v string) string {
		alt := map[int][2]string{4: {"1", "0"}, 5: {"T", "F"}, 6: {"True", "False"}, 7: {"TRUE", "FALSE"}}
		if a, ok := alt[c[dSpelling]]; ok {
			switch v {
			case "true":
				return a[0]
			case "false":
				return a[1]
			}
		}
		return q(v)
	}
	block := func(indent string, lines []string) string {
		if c[dSpelling] == 1 {
			for i, j := 0, len(lines)-1; i < j; i, j = i+1, j-1 {
				lines[i], lines[j] = lines[j], lines[i]
			}
		}
		var sb strings.Builder
		for _, l := range lines {
			for _, ll := range strings.Split(strings.TrimSuffix(l, "\n"), "\n") {
				sb.WriteString(indent + ll + "\n")
			}
		}
		return sb.String()
	}
	var top []string
	if c.set(dMode) {
		top = append(top, "mode "+q(c.val(dMode)))
	}
	if c[dMisspelt] == 1 {
		top = append(top, "modee crl_only")
	}
	if c.hasCRLBlock() {
		var ls []string
		if wd := c.workDir(e); wd != "" {
			ls = append(ls, "work_dir "+q(wd))
		}
		if c.set(dStorage) {
			ls = append(ls, "storage_type "+q(c.val(dStorage)))
		}
		if c.set(dInterval) {
			ls = append(ls, "update_interval "+q(c.val(dInterval)))
		}
		if c.set(dSigMode) {
			ls = append(ls, "signature_validation_mode "+q(c.val(dSigMode)))
		}
		for _, u := range c.urls(e) {
			ls = append(ls, "crl_url "+q(u))
		}
		for _, f := range c.files(e) {
			ls = append(ls, "crl_file "+q(f))
		}
		for _, f := range c.pems(dTrusted, e) {
			ls = append(ls, "trusted_signature_cert_file "+q(f))
		}
		if c[dMisspelt] == 2 {
			ls = append(ls, "storage_typ memory")
		}
		if c.hasCDPBlock() {
			var cd []string
			if c.set(dFetch) {
				cd = append(cd, "crl_fetch_mode "+q(c.val(dFetch)))
			}
			if c.set(dStrict) {
				cd = append(cd, "crl_cdp_strict "+qb(c.val(dStrict)))
			}
			if c[dMisspelt] == 3 {
				cd = append(cd, "crl_cdp_strikt true")
			}
			ls = append(ls, "cdp_config {\n"+block("\t", cd)+"}")
		}
		top = append(top, "crl_config {\n"+block("\t", ls)+"}")
	}
	if c.hasOCSPBlock() {
		var ls []string
		if c.set(dCache) {
			ls = append(ls, "default_cache_duration "+q(c.val(dCache)))
		}
		if c.set(dAIA) {
			ls = append(ls, "ocsp_aia_strict "+qb(c.val(dAIA)))
		}
		for _, f := range c.pems(dResponder, e) {
			ls = append(ls, "trusted_responder_cert_file "+q(f))
		}
		if c[dMisspelt] == 4 {
			ls = append(ls, "ocsp_aia_strikt true")
		}
		top = append(top, "ocsp_config {\n"+block("\t", ls)+"}")
	}
	return "revocation {\n" + block("\t", top) + "}\n"
}

func (c c19Conf) files(e *c19Env) []string {
	switch c[dFile] {
	case 1:
		return []string{e.crlFile}
	case 2:
		return []string{e.crlFile, e.crlFile2}
	}
	return nil
}

func (c c19Conf) pems(d int, e *c19Env) []string {
	switch c[d] {
	case 1:
		return []string{e.caPEM}
	case 2:
		return []string{e.caPEM, e.caPEM2}
	}
	return nil
}

func (c c19Conf) urls(e *c19Env) []string {
	switch c[dURL] {
	case 1:
		return []string{e.u}
	case 2:
		return []string{e.u, e.u2}
	}
	return nil
}

// renderJSON writes the same configuration as the module's JSON.
func (c c19Conf) renderJSON(e *c19Env) []byte {
	m := map[string]interface{}{}
	if c.set(dMode) {
		m["mode"] = c.val(dMode)
	}
	if c[dMisspelt] == 1 {
		m["modee"] = "crl_only"
	}
	if c.hasCRLBlock() {
		cc := map[string]interface{}{}
		if wd := c.workDir(e); wd != "" {
			cc["work_dir"] = wd
		}
		if c.set(dStorage) {
			cc["storage_type"] = c.val(dStorage)
		}
		if c.set(dInterval) {
			cc["update_interval"] = c.val(dInterval)
		}
		if c.set(dSigMode) {
			cc["signature_validation_mode"] = c.val(dSigMode)
		}
		if u := c.urls(e); u != nil {
			cc["crl_urls"] = u
		}
		if c.set(dFile) {
			cc["crl_files"] = c.files(e)
		}
		if c.set(dTrusted) {
			cc["trusted_signature_certs_files"] = c.pems(dTrusted, e)
		}
		if c[dMisspelt] == 2 {
			cc["storage_typ"] = "memory"
		}
		if c.hasCDPBlock() {
			cd := map[string]interface{}{}
			if c.set(dFetch) {
				cd["crl_fetch_mode"] = c.val(dFetch)
			}
			if c.set(dStrict) {
				switch c.val(dStrict) {
				case "true":
					cd["crl_cdp_strict"] = true
				case "false":
					cd["crl_cdp_strict"] = false
				default:
					cd["crl_cdp_strict"] = "bogus"
				}
			}
			if c[dMisspelt] == 3 {
				cd["crl_cdp_strikt"] = true
			}
			cc["cdp_config"] = cd
		}
		m["crl_config"] = cc
	}
	if c.hasOCSPBlock() {
		oc := map[string]interface{}{}
		if c.set(dCache) {
			oc["default_cache_duration"] = c.val(dCache)
		}
		if c.set(dAIA) {
			oc["ocsp_aia_strict"] = c.val(dAIA) == "true"
		}
		if c.set(dResponder) {
			oc["trusted_responder_certs_files"] = c.pems(dResponder, e)
		}
		if c[dMisspelt] == 4 {
			oc["ocsp_aia_strikt"] = true
		}
		m["ocsp_config"] = oc
	}
	b, _ := json.Marshal(m)
	return b
}

// c19Effective is the effective configuration after loading (Unmarshal + Provision).
type c19Effective struct {
	Err         string
	Mode        config.RevocationCheckMode
	Storage     config.StorageType
	Interval    time.Duration
	SigMode     config.SignatureValidationMode
	URLs, Files []string
	TrustedN    int
	Fetch       config.CRLFetchMode
	Strict      bool
	Cache       time.Duration
	AIAStrict   bool
	ResponderN  int
	WorkDir     string
	HasCRL      bool
	// Backend is the kind of store the provisioned repository really creates ("disk", "memory", "" when CRL checking is
	// off): the storage_type option observed by its effect, not by the parsed constant
	Backend string
}

func (e c19Effective) String() string {
	if e.Err != "" {
		return "ERROR"
	}
	return fmt.Sprintf("mode=%d storage=%d interval=%s sig=%d urls=%v files=%v trusted=%d fetch=%d strict=%v cache=%s aia=%v responder=%d workdir=%v crl=%v",
		e.Mode, e.Storage, e.Interval, e.SigMode, e.URLs, e.Files, e.TrustedN, e.Fetch, e.Strict, e.Cache, e.AIAStrict, e.ResponderN, e.WorkDir != "", e.HasCRL)
}

func c19Load(syntax string, text []byte) (eff c19Effective) {
	v := &revocation.CertRevocationValidator{}
	defer func() {
		if r := recover(); r != nil {
			if fmt.Sprintf("%T", r) == "vsched.abortSentinel" {
				panic(r)
			}
			eff = c19Effective{Err: fmt.Sprintf("PANIC: %v", r)}
		}
	}()
	if syntax == "caddyfile" {
		d := caddyfile.NewTestDispenser(string(text))
		if err := v.UnmarshalCaddyfile(d); err != nil {
			return c19Effective{Err: "unmarshal: " + err.Error()}
		}
	} else {
		if err := caddy.StrictUnmarshalJSON(text, v); err != nil {
			return c19Effective{Err: "unmarshal: " + err.Error()}
		}
	}
	w := &TW{V: v}
	if err := w.Provision(); err != nil {
		w.Cleanup()
		vsched.Drain()
		crl.VerifReset()
		return c19Effective{Err: "provision: " + err.Error()}
	}
	vsched.Drain()
	eff.Mode = v.ModeParsed
	if v.CRLConfig != nil {
		c := v.CRLConfig
		eff.HasCRL = true
		eff.Storage, eff.Interval, eff.SigMode = c.StorageTypeParsed, c.UpdateIntervalParsed, c.SignatureValidationModeParsed
		eff.URLs, eff.Files, eff.TrustedN, eff.WorkDir = c.CRLUrls, c.CRLFiles, len(c.TrustedSignatureCerts), c.WorkDir
		if len(eff.URLs) == 0 {
			eff.URLs = nil
		}
		if len(eff.Files) == 0 {
			eff.Files = nil
		}
		if c.CDPConfig != nil {
			eff.Fetch, eff.Strict = c.CDPConfig.CRLFetchModeParsed, c.CDPConfig.CRLCDPStrict
		}
	}
	if chk := v.VerifCRLChecker(); chk != nil && chk.VerifRepository() != nil {
		switch t := fmt.Sprintf("%T", chk.VerifRepository().Factory); {
		case strings.Contains(t, "LevelDb"):
			eff.Backend = "disk"
		case strings.Contains(t, "Map"):
			eff.Backend = "memory"
		default:
			eff.Backend = t
		}
	}
	if v.OCSPConfig != nil {
		eff.Cache, eff.AIAStrict, eff.ResponderN = v.OCSPConfig.DefaultCacheDurationParsed, v.OCSPConfig.OCSPAIAStrict, len(v.OCSPConfig.TrustedResponderCerts)
	}
	if err := w.Cleanup(); err != nil {
		eff.Err = "cleanup: " + err.Error()
	}
	vsched.Drain()
	crl.VerifReset()
	return
}

// c19Documented computes the effective configuration the documentation promises.
func (c c19Conf) documented(e *c19Env) (eff c19Effective, mustFail bool) {
	if c.invalid() {
		return eff, true
	}
	if c.crlEnabled() && c[dWorkDir] != 0 {
		return eff, true // CRL checking needs an existing work_dir
	}
	eff.Mode = map[string]config.RevocationCheckMode{"": config.RevocationCheckModePreferOCSP, "prefer_ocsp": config.RevocationCheckModePreferOCSP, "prefer_crl": config.RevocationCheckModePreferCRL,
		"ocsp_only": config.RevocationCheckModeOCSPOnly, "crl_only": config.RevocationCheckModeCRLOnly, "disabled": config.RevocationCheckModeDisabled}[c.val(dMode)]
	eff.Storage = config.Disk
	if c.crlEnabled() {
		eff.Backend = "disk"
	}
	if c.val(dStorage) == "memory" {
		eff.Storage = config.Memory
		if c.crlEnabled() {
			eff.Backend = "memory"
		}
	}
	eff.Interval = 30 * time.Minute
	if c.val(dInterval) == "1m" {
		eff.Interval = time.Minute
	}
	eff.SigMode = map[string]config.SignatureValidationMode{"": config.SignatureValidationModeVerify, "verify": config.SignatureValidationModeVerify, "verify_log": config.SignatureValidationModeVerifyLog, "none": config.SignatureValidationModeNone}[c.val(dSigMode)]
	eff.URLs = c.urls(e)
	eff.Files = c.files(e)
	eff.TrustedN = len(c.pems(dTrusted, e))
	if c.val(dFetch) == "fetch_background" {
		eff.Fetch = config.CRLFetchModeBackground
	}
	eff.Strict = c.val(dStrict) == "true"
	if c.val(dCache) == "1m" {
		eff.Cache = time.Minute
	}
	eff.AIAStrict = c.val(dAIA) == "true"
	eff.ResponderN = len(c.pems(dResponder, e))
	return eff, false
}

// compareEff compares only what the mode makes observable.
func c19Same(a, b c19Effective, crlOn bool) string {
	if (a.Err != "") != (b.Err != "") {
		return fmt.Sprintf("one fails, the other does not (%q vs %q)", a.Err, b.Err)
	}
	if a.Err != "" {
		return ""
	}
	var diffs []string
	cmp := func(name string, x, y interface{}) {
		if !reflect.DeepEqual(x, y) {
			diffs = append(diffs, fmt.Sprintf("%s: %v vs %v", name, x, y))
		}
	}
	cmp("mode", a.Mode, b.Mode)
	cmp("default_cache_duration", a.Cache, b.Cache)
	cmp("ocsp_aia_strict", a.AIAStrict, b.AIAStrict)
	cmp("trusted_responder_certs", a.ResponderN, b.ResponderN)
	if crlOn {
		cmp("storage_type", a.Storage, b.Storage)
		cmp("storage backend in use", a.Backend, b.Backend)
		cmp("update_interval", a.Interval, b.Interval)
		cmp("signature_validation_mode", a.SigMode, b.SigMode)
		cmp("crl_urls", a.URLs, b.URLs)
		cmp("crl_files", a.Files, b.Files)
		cmp("trusted_signature_certs", a.TrustedN, b.TrustedN)
		cmp("crl_fetch_mode", a.Fetch, b.Fetch)
		cmp("crl_cdp_strict", a.Strict, b.Strict)
	}
	return strings.Join(diffs, "; ")
}

func c19Enumerate(tier string, emit func(c c19Conf)) {
	n := len(c19Dims)
	base := make(c19Conf, n)
	emit(append(c19Conf{}, base...))
	// every single dimension, every pair of dimensions (all value combinations)
	for i := 0; i < n; i++ {
		for vi := 1; vi < len(c19Dims[i].Values); vi++ {
			c := append(c19Conf{}, base...)
			c[i] = vi
			emit(c)
			for j := i + 1; j < n; j++ {
				for vj := 1; vj < len(c19Dims[j].Values); vj++ {
					c2 := append(c19Conf{}, c...)
					c2[j] = vj
					emit(c2)
				}
			}
		}
	}
	// full product of the valid values of the behavioural core
	core := []int{dMode, dStorage, dSigMode, dFetch, dStrict}
	extra := []int{dInterval, dURL, dFile, dTrusted, dCache, dAIA, dResponder, dSpelling}
	var rec func(k int, c c19Conf)
	valid := func(d, v int) bool { return !strings.HasPrefix(c19Dims[d].Values[v], "!") }
	rec = func(k int, c c19Conf) {
		if k == len(core) {
			emit(append(c19Conf{}, c...))
			if tier == "thorough" {
				// cross the remaining dimensions completely (the Caddyfile spelling is crossed with the core product only:
				// it does not interact with the value of another option)
				var rec2 func(m int, c c19Conf)
				rec2 = func(m int, c c19Conf) {
					if m == len(extra) {
						emit(append(c19Conf{}, c...))
						return
					}
					if extra[m] == dSpelling {
						rec2(m+1, c)
						return
					}
					for v := 0; v < len(c19Dims[extra[m]].Values); v++ {
						if valid(extra[m], v) {
							c[extra[m]] = v
							rec2(m+1, c)
						}
					}
					c[extra[m]] = 0
				}
				rec2(0, c)
				for v := 1; v < len(c19Dims[dSpelling].Values); v++ {
					c2 := append(c19Conf{}, c...)
					c2[dSpelling] = v
					emit(c2)
				}
			} else {
				for _, d := range extra {
					for v := 1; v < len(c19Dims[d].Values); v++ {
						if valid(d, v) {
							c2 := append(c19Conf{}, c...)
							c2[d] = v
							emit(c2)
						}
					}
				}
			}
			return
		}
		for v := 0; v < len(c19Dims[core[k]].Values); v++ {
			if valid(core[k], v) {
				c[core[k]] = v
				rec(k+1, c)
			}
		}
		c[core[k]] = 0
	}
	rec(0, append(c19Conf{}, base...))
}

func c19Worker(tier string, shard, n int) hWorkerOut {
	SilenceStderr()
	out := hWorkerOut{Outcomes: map[string]int{}}
	vs := newViolSet()
	p := world.Std()
	env := &c19Env{dir: FreshDir("c19wd"), files: FreshDir("c19f"), u: "http://crl.test/c19a.crl", u2: "http://crl.test/c19b.crl"}
	env.caPEM = WritePEM(env.files, "ca.pem", p.CA.Cert)
	// the second trusted certificate carries the subject of the first (the re-keyed CA): two certificates all the same
	env.caPEM2 = WritePEM(env.files, "rekeyed-ca.pem", p.Sibling.Cert)
	env.crlFile = filepath.Join(env.files, "list.crl")
	// the second configured crl_file is given relative to the working directory of the server and its name starts like
	// a URL scheme does (what makes a crl_file a file is the option it is configured with, not how it is spelt)
	if err := os.Chdir(env.files); err != nil {
		panic(err)
	}
	env.crlFile2 = "http-clients-ca.crl"
	os.WriteFile(filepath.Join(env.files, env.crlFile2), world.SimpleCRL(p.CA, 2, 702).DER(), 0644)
	env.missing = filepath.Join(env.files, "does-not-exist")
	good := world.SimpleCRL(p.CA, 1, 701).DER()
	// the first configured crl_file is a symbolic link (how deployments publish the current list): the validator keeps
	// working with the path as it was configured
	os.WriteFile(filepath.Join(env.files, "list-v1-real.crl"), good, 0644)
	if err := os.Symlink(filepath.Join(env.files, "list-v1-real.crl"), env.crlFile); err != nil {
		panic(err)
	}
	seen := map[string]bool{}
	idx := 0
	c19Enumerate(tier, func(c c19Conf) {
		key := fmt.Sprint([]int(c))
		if seen[key] {
			return
		}
		seen[key] = true
		my := idx%n == shard
		idx++
		if !my {
			return
		}
		var effC, effJ c19Effective
		seqWorld(func() {
			net := world.NewNet()
			net.Serve(env.u, "good", good)
			net.Serve(env.u2, "good", good)
			// the process has loaded (and cleaned up) another configuration before, in the same syntax, in which every
			// option has a valid value other than its default: nothing of it may show in the configuration under test
			pred := make(c19Conf, len(c19Dims))
			pred[dMode], pred[dStorage], pred[dInterval], pred[dSigMode], pred[dURL], pred[dFile], pred[dTrusted] = 4, 1, 1, 3, 1, 1, 1
			pred[dFetch], pred[dStrict], pred[dCache], pred[dAIA], pred[dResponder] = 2, 1, 1, 1, 1
			os.RemoveAll(env.dir)
			os.MkdirAll(env.dir, 0755)
			if p := c19Load("caddyfile", []byte(pred.renderCaddyfile(env))); p.Err != "" {
				panic("c19: the predecessor configuration does not load (caddyfile): " + p.Err)
			}
			os.RemoveAll(env.dir)
			os.MkdirAll(env.dir, 0755)
			effC = c19Load("caddyfile", []byte(c.renderCaddyfile(env)))
			os.RemoveAll(env.dir)
			os.MkdirAll(env.dir, 0755)
			if p := c19Load("json", pred.renderJSON(env)); p.Err != "" {
				panic("c19: the predecessor configuration does not load (json): " + p.Err)
			}
			os.RemoveAll(env.dir)
			os.MkdirAll(env.dir, 0755)
			effJ = c19Load("json", c.renderJSON(env))
		})
		out.Stats.States++
		out.Stats.Transitions += 2
		doc, mustFail := c.documented(env)
		// configured CRLs need an acceptable signer: with verify/verify_log-independent of mode they are signed by the CA,
		// which is only resolvable when the trusted cert is configured -> under verify (default) without it loading fails legitimately
		needsSigner := (c.set(dURL) || c.set(dFile)) && c.crlEnabled() && (c.val(dSigMode) == "" || c.val(dSigMode) == "verify") && !c.set(dTrusted)
		out.Outcomes[fmt.Sprintf("caddyfile=%v json=%v mustFail=%v", effC.Err == "", effJ.Err == "", mustFail)]++
		feature := func(diff string) string {
			// name the first differing option only (stable coordinate)
			if i := strings.Index(diff, ":"); i > 0 {
				return diff[:i]
			}
			return diff
		}
		rep := map[string]interface{}{"driver": "C19", "config": []int(c), "text": c.String()}
		if strings.Contains(effC.Err, "PANIC") || strings.Contains(effJ.Err, "PANIC") {
			// a panic while loading is not a rejection: caddy does not recover it, the server process ends
			vs.add("C19|panic|"+c19PanicFeature(c), fmt.Sprintf("[%s] loading panicked: caddyfile=%q json=%q", c, effC.Err, effJ.Err), rep)
			return
		}
		switch {
		case mustFail:
			if effC.Err == "" {
				vs.add("C19|invalid-accepted|caddyfile|"+c19InvalidFeature(c), fmt.Sprintf("[%s] the Caddyfile form loads although it contains an unknown name / invalid value / unusable work_dir", c), rep)
			}
			if effJ.Err == "" {
				vs.add("C19|invalid-accepted|json|"+c19InvalidFeature(c), fmt.Sprintf("[%s] the JSON form loads although it contains an unknown name / invalid value / unusable work_dir", c), rep)
			}
		case needsSigner:
			// loading may legitimately fail (configured CRL not acceptable under verify); both syntaxes must agree
			if d := c19Same(effC, effJ, c.crlEnabled()); d != "" {
				vs.add("C19|caddyfile-json-differ|"+feature(d), fmt.Sprintf("[%s] Caddyfile and JSON forms differ: %s", c, d), rep)
			}
		default:
			if effC.Err != "" {
				vs.add("C19|valid-rejected|caddyfile|"+c19ErrFeature(effC.Err), fmt.Sprintf("[%s] the Caddyfile form of a valid configuration fails to load: %s", c, effC.Err), rep)
			}
			if effJ.Err != "" {
				vs.add("C19|valid-rejected|json|"+c19ErrFeature(effJ.Err), fmt.Sprintf("[%s] the JSON form of a valid configuration fails to load: %s", c, effJ.Err), rep)
			}
			if effC.Err == "" {
				if d := c19Same(effC, doc, c.crlEnabled()); d != "" {
					vs.add("C19|caddyfile-not-documented|"+feature(d), fmt.Sprintf("[%s] Caddyfile form: effective configuration differs from the documented meaning: %s", c, d), rep)
				}
			}
			if effJ.Err == "" {
				if d := c19Same(effJ, doc, c.crlEnabled()); d != "" {
					vs.add("C19|json-not-documented|"+feature(d), fmt.Sprintf("[%s] JSON form: effective configuration differs from the documented meaning: %s", c, d), rep)
				}
			}
		}
		if len(out.Samples) < 2 && idx%97 == 0 {
			out.Samples = append(out.Samples, c.String()+" => caddyfile: "+effC.String()+" | json: "+effJ.String())
		}
	})
	os.RemoveAll(env.dir)
	os.RemoveAll(env.files)
	out.Violations = vs.list()
	return out
}

func c19InvalidFeature(c c19Conf) string {
	for d, v := range c {
		if strings.HasPrefix(c19Dims[d].Values[v], "!") {
			return c19Dims[d].Name + "=" + strings.TrimPrefix(c19Dims[d].Values[v], "!")
		}
	}
	if c[dMisspelt] != 0 {
		return "misspelt-key-in-" + c19Dims[dMisspelt].Values[c[dMisspelt]]
	}
	return "work_dir=" + map[int]string{1: "omitted", 2: "missing"}[c[dWorkDir]]
}

func c19PanicFeature(c c19Conf) string {
	if c.invalid() {
		return c19InvalidFeature(c)
	}
	return "valid-configuration"
}

func c19ErrFeature(e string) string {
	e = normaliseNumbers(e)
	if i := strings.Index(e, "/dev/shm"); i >= 0 {
		e = e[:i] + "<path>"
	}
	if len(e) > 90 {
		e = e[:90]
	}
	return e
}

// RunC19 is the entry point of the C19 check.
// c19AfterRejected: a configuration which is rejected while its CRLs are loaded (unknown signer under verify) is
// cleaned up as caddy does with a module whose Provision failed; the corrected configuration with the same work_dir
// must then provision (valid option values provision successfully - whatever was tried before in this process).
func c19AfterRejected(chk *fw.Check) int {
	p := world.Std()
	n := 0
	for _, storage := range []string{"memory", "disk"} {
		for _, source := range []string{"crl_files", "crl_urls"} {
			n++
			sig := "storage=" + storage + " source=" + source
			seqWorld(func() {
				net := world.NewNet()
				dir, files := FreshDir("c19r"), FreshDir("c19rf")
				defer os.RemoveAll(dir)
				defer os.RemoveAll(files)
				const u = "http://crl.test/c19.crl"
				foreign := world.SimpleCRL(p.OtherCA, 1, 5).DER()
				good := world.SimpleCRL(p.CA, 1, 5).DER()
				f := filepath.Join(files, "list.crl")
				mk := func(doc []byte) *TW {
					cfg := &config.CRLConfig{WorkDir: dir, StorageType: storage, TrustedSignatureCertsFiles: []string{WritePEM(files, "ca.pem", p.CA.Cert)}}
					if source == "crl_files" {
						os.WriteFile(f, doc, 0644)
						cfg.CRLFiles = []string{f}
					} else {
						net.Serve(u, "doc", doc)
						cfg.CRLUrls = []string{u}
					}
					return NewTW(TWOpt{Mode: "crl_only", Net: net, CRL: cfg})
				}
				bad := mk(foreign)
				if err := bad.Provision(); err == nil {
					chk.Violation("C19|harness|rejected-config-provisions|"+sig, "a configured CRL of an unknown signer was accepted under verify", nil)
					bad.Cleanup()
					return
				}
				bad.Cleanup()
				vsched.Drain()
				ok := mk(good)
				if err := ok.Provision(); err != nil {
					chk.Violation("C19|valid-config-refused-after-a-rejected-one|"+sig, "a valid configuration is refused after a configuration with the same work_dir had been rejected and cleaned up: "+err.Error(), nil)
					return
				}
				vsched.Drain()
				ok.Cleanup()
				vsched.Drain()
			})
		}
	}
	return n
}

// c19SurplusArguments: a Caddyfile option of this module takes exactly one value. A second value on the line is a value
// the administrator wrote down and which would be ignored (`crl_file a.crl b.crl`: the second list is never loaded):
// loading has to fail, for every option and in every block; the same line without the second value loads.
func c19SurplusArguments(chk *fw.Check) int {
	p := world.Std()
	n := 0
	files := FreshDir("c19sf")
	defer os.RemoveAll(files)
	ca := WritePEM(files, "ca.pem", p.CA.Cert)
	list := filepath.Join(files, "list.crl")
	os.WriteFile(list, world.SimpleCRL(p.CA, 1, 701).DER(), 0644)
	type opt struct{ block, line, extra string }
	opts := []opt{
		{"top", "mode crl_only", "ocsp_only"},
		{"crl", "storage_type memory", "disk"},
		{"crl", "update_interval 1m", "2m"},
		{"crl", "signature_validation_mode verify", "none"},
		{"crl", "crl_url http://crl.test/c19a.crl", "http://crl.test/c19b.crl"},
		{"crl", "crl_file " + list, list + "2"},
		{"crl", "trusted_signature_cert_file " + ca, ca + "2"},
		{"crl", "work_dir", "other"},
		{"cdp", "crl_fetch_mode fetch_background", "fetch_actively"},
		{"cdp", "crl_cdp_strict true", "false"},
		{"ocsp", "default_cache_duration 1m", "2m"},
		{"ocsp", "ocsp_aia_strict true", "false"},
		{"ocsp", "trusted_responder_cert_file " + ca, ca + "2"},
	}
	for _, o := range opts {
		for _, surplus := range []bool{false, true} {
			n++
			var text string
			seqWorld(func() {
				dir := FreshDir("c19s")
				defer os.RemoveAll(dir)
				net := world.NewNet()
				net.Serve("http://crl.test/c19a.crl", "good", world.SimpleCRL(p.CA, 1, 701).DER())
				line := o.line
				if o.line == "work_dir" {
					line = "work_dir " + dir
				}
				if surplus {
					line += " " + o.extra
				}
				blocks := map[string][]string{"top": {"mode crl_only"}, "crl": {"work_dir " + dir, "trusted_signature_cert_file " + ca}, "cdp": nil, "ocsp": nil}
				key := strings.Fields(o.line)[0]
				var kept []string
				for _, l := range blocks[o.block] {
					if strings.Fields(l)[0] != key || key == "trusted_signature_cert_file" {
						kept = append(kept, l)
					}
				}
				blocks[o.block] = append(kept, line)
				text = "revocation {\n"
				for _, l := range blocks["top"] {
					text += "\t" + l + "\n"
				}
				text += "\tcrl_config {\n"
				for _, l := range blocks["crl"] {
					text += "\t\t" + l + "\n"
				}
				if len(blocks["cdp"]) > 0 {
					text += "\t\tcdp_config {\n\t\t\t" + strings.Join(blocks["cdp"], "\n\t\t\t") + "\n\t\t}\n"
				}
				text += "\t}\n"
				if len(blocks["ocsp"]) > 0 {
					text += "\tocsp_config {\n\t\t" + strings.Join(blocks["ocsp"], "\n\t\t") + "\n\t}\n"
				}
				text += "}\n"
				eff := c19Load("caddyfile", []byte(text))
				switch {
				case strings.Contains(eff.Err, "PANIC"):
					chk.Violation("C19|panic|surplus-argument "+key, "loading panicked: "+eff.Err+"\n"+text, map[string]interface{}{"driver": "C19", "caddyfile": text})
				case surplus && eff.Err == "":
					chk.Violation("C19|invalid-accepted|caddyfile|surplus-argument "+key, fmt.Sprintf("the option %s is given two values (%q); the configuration loads and the second value is ignored\n%s", key, line, text), map[string]interface{}{"driver": "C19", "caddyfile": text})
				case !surplus && eff.Err != "":
					chk.Violation("C19|valid-rejected|caddyfile|single-argument "+key, fmt.Sprintf("the control configuration (one value for %s) fails to load: %s\n%s", key, eff.Err, text), map[string]interface{}{"driver": "C19", "caddyfile": text})
				}
			})
		}
	}
	return n
}

func RunC19(tier string, args []string) int {
	if len(args) > 0 && args[0] == "hworker" {
		shard, _ := strconv.Atoi(args[2])
		n, _ := strconv.Atoi(args[3])
		out := c19Worker(args[1], shard, n)
		b, _ := json.Marshal(out)
		fmt.Println(string(b))
		return 0
	}
	chk := fw.NewCheck("C19", tier, "exploration")
	chk.Assumptions = []string{
		"load = unmarshal (UnmarshalCaddyfile / caddy.StrictUnmarshalJSON) + Provision + Cleanup on the real module; effective configuration = the parsed fields after Provision",
		"enumeration: every single option value, every pair of option values (all 14 dimensions incl. invalid values and misspelt keys at 4 nesting levels), the full product of valid values of mode x storage x signature mode x fetch mode x cdp_strict, each crossed with every other valid option value (quick) / with the full product of the other options (thorough)",
		"documented defaults: prefer_ocsp, disk, 30m, verify, fetch_actively, strict off, cache 0, aia_strict off",
	}
	total := runHWorkers(chk, "C19", tier, 16)
	total.Stats.Transitions += c19AfterRejected(chk)
	total.Stats.Transitions += c19SurplusArguments(chk)
	nontrivial := 0
	for k, v := range total.Outcomes {
		_ = k
		nontrivial += v
	}
	cov := fw.Coverage{
		"evaluations":         total.Stats.Transitions,
		"distinct_nontrivial": total.Stats.States - 1,
		"rule":                "distinct option-value tuples (14 dimensions); each tuple is loaded in both syntaxes; non-trivial = differs from the all-defaults tuple",
		"configurations":      total.Stats.States,
		"outcome_classes":     total.Outcomes,
		"samples":             append(total.Samples, "mode=crl_only storage_type=memory crl_cdp_strict=true", "misspelt=cdp_config"),
		"exhaustive":          true,
	}
	return chk.Finish(cov)
}

func init() { registry["C19"] = RunC19 }
