package drivers

import (
	"encoding/hex"
	"fmt"

	"verif/h/world"
)

func init() { registry["DBG"] = runDbg }

func runDbg(tier string, args []string) int {
	for _, x := range []struct {
		a   world.SigAlg
		bit int
	}{{world.SHA256EC, 1616}, {world.SHA256RSA, 1664}} {
		base := c04Case{Alg: x.a, Signer: 0, AKI: 1, Path: "first-load", Flip: -1}
		doc, _, _, _, _, _ := c04Doc(base)
		s, e, end := c04Regions(doc)
		fmt.Println("len", len(doc), "tbs", s, e, end, "byte", x.bit/8, "bit", x.bit%8)
		lo := x.bit/8 - 12
		fmt.Println(hex.EncodeToString(doc[lo : x.bit/8+12]))
		fmt.Println(hex.EncodeToString(doc[e:]))
	}
	return 0
}
