package drivers

import (
	"fmt"

	"verif/h/rt/vsched"
)

func init() { registry["DBG"] = runDbg }

func runDbg(tier string, args []string) int {
	sc := findC09Scenario("f2-failed-swap-vs-handshake/disk")
	res, obs := sc.runConcurrent(vsched.SeqChooser{}, true)
	fmt.Println(res.Verdict, obs, res.Detail)
	for _, t := range res.Trace {
		fmt.Println("  ", t)
	}
	return 0
}
