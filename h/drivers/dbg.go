package drivers

import (
	"fmt"

	"github.com/gr33nbl00d/caddy-revocation-validator/config"

	"verif/h/rt/vsched"
	"verif/h/world"
)

func init() { registry["DBG"] = runDbg }

func runDbg(tier string, args []string) int {
	c := newC13cast()
	res := vsched.Run(vsched.Config{Chooser: vsched.SeqChooser{}, Trace: true}, func() {
		ResetGlobals()
		w := NewCW(CWOpt{SigMode: config.SignatureValidationModeVerify})
		w.Net.Serve(urlA, "v1", c.v1)
		fmt.Println("provision:", w.Provision())
		vsched.Drain()
		ch := world.Chain(c.L1, c.p.CA, c.p.Root)
		v := w.Lookup(c.L1, ch)
		fmt.Printf("L1: %s err=%q panic=%q\n", v, v.Err, v.Panic)
		v = w.Lookup(c.L2, world.Chain(c.L2, c.p.CA, c.p.Root))
		fmt.Printf("L2: %s err=%q\n", v, v.Err)
		fmt.Printf("entries: %+v\n", w.Repo().VerifEntries())
		fmt.Printf("hits: %+v\n", w.Net.Hits)
	})
	fmt.Println(res.Verdict, res.Detail)
	for _, t := range res.Trace {
		fmt.Println("  ", t)
	}
	return 0
}
