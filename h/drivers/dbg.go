package drivers

import (
	"fmt"
	"math/big"
	"os"

	"github.com/gr33nbl00d/caddy-revocation-validator/config"

	"verif/h/rt/vsched"
	"verif/h/world"
)

func init() { registry["DBG"] = runDbg }

func runDbg(tier string, args []string) int {
	p := world.Std()
	n := 1 << 19
	doc := c17Doc(n, false)
	seqWorld(func() {
		w := NewCW(CWOpt{Disk: true, SigMode: config.SignatureValidationModeVerify})
		defer os.RemoveAll(w.Dir)
		w.Net.Routes[urlA] = &world.Behaviour{Label: "big", Body: doc}
		w.Provision()
		vsched.Drain()
		hf := &hookFactory{inner: w.Repo().Factory}
		hf.hook = func(k int) {
			if k%(n/16) == 0 || k == 1 {
				fmt.Printf("k=%d live=%.1f MiB\n", k, float64(liveHeap())/mib)
			}
		}
		w.Repo().Factory = hf
		first := world.Leaf(p.CA, new(big.Int).Lsh(big.NewInt(1), 70), []string{urlA}, nil)
		fmt.Println(w.Lookup(first, world.Chain(first, p.CA, p.Root)))
	})
	return 0
}
