package drivers

import "fmt"

func init() { registry["DBG"] = runDbg }

// runDbg: scratch entry point for diagnosing the harness (not registered in the manifest).
func runDbg(tier string, args []string) int {
	fmt.Println("nothing to diagnose")
	return 0
}
