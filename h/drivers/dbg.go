package drivers

import (
	"fmt"

	"github.com/gr33nbl00d/caddy-revocation-validator/config"
)

func init() { registry["DBG"] = runDbg }

func runDbg(tier string, args []string) int {
	c := newC10Cast()
	cfg := c10Cfg{CDP: 0, Background: false, Sig: config.SignatureValidationModeVerify, Disk: true, Strict: true}
	ev := c10EventNames(cfg)
	idx := func(n string) int {
		for i, e := range ev {
			if e == n {
				return i
			}
		}
		panic(n)
	}
	h := []int{idx("set(http://crl.test/a.crl,badsig)"), idx("hs(listed)"), idx("restart"), idx("hs(clean)")}
	r := c.run(cfg, h)
	fmt.Println(r.key, r.viols, r.trace)
	return 0
}
