package drivers

import (
	"encoding/json"
	"fmt"
	"os"
	"os/exec"
	"regexp"
	"sort"
	"strings"
	"time"

	"verif/h/fw"
	"verif/h/rt/vsched"
)

// schedCtx is the per-execution state of a schedule scenario.
type schedCtx struct {
	W    []*CW // worlds (validator instances)
	Vals map[string]interface{}
	dirs []string
}

func (x *schedCtx) cleanup() {
	for _, w := range x.W {
		os.RemoveAll(w.Dir)
	}
	for _, d := range x.dirs {
		os.RemoveAll(d)
	}
}

type schedOp struct {
	Name string
	Fn   func(x *schedCtx) string
}

type schedScenario struct {
	Name         string
	ThoroughOnly bool
	// ErrOK marks ops whose verdict may be ERR (deny) in addition to what the
	// sequential reference allows: lookups overlapping a shutdown must fail
	// closed (C09), which no sequential order produces.
	ErrOK func(op int) bool
	Class string // coarse configuration class that enters race signatures (e.g. fetch mode)
	Setup func(x *schedCtx)
	Ops   []schedOp
	Post  func(x *schedCtx) string
	Cfg   vsched.Config
	// Judge (optional): an oracle of the scenario's own, applied to the observations of every execution - for what
	// the comparison with the coarse-grained runs of the same code cannot see (a wrong answer every order produces)
	Judge func(obs []string) (sig, what string)
	// NoSerialOracle: the comparison with the coarse-grained runs is off for this scenario (an operation which looks
	// twice is one step there, so "accepted, then rejected" within it would never be among the allowed vectors)
	NoSerialOracle bool
}

// runConcurrent executes the scenario once with every op in its own thread.
func (sc *schedScenario) runConcurrent(ch vsched.Chooser, trace bool) (*vsched.Result, []string) {
	obs := make([]string, len(sc.Ops)+1)
	cfg := sc.Cfg
	cfg.Chooser = ch
	cfg.Trace = trace
	x := &schedCtx{Vals: map[string]interface{}{}}
	cfg.NoExplore = true
	res := vsched.Run(cfg, func() {
		ResetGlobals()
		sc.Setup(x)
		vsched.Drain()
		vsched.SetExploring(true)
		for i := range sc.Ops {
			i := i
			vsched.Spawn(sc.Ops[i].Name, func() { obs[i] = sc.Ops[i].Fn(x) })
		}
		vsched.StartAll()
		vsched.Drain()
		vsched.JoinAll()
		vsched.SetExploring(false)
		if sc.Post != nil {
			obs[len(sc.Ops)] = sc.Post(x)
		}
		vsched.Drain()
	})
	x.cleanup()
	return res, obs
}

// runSequential executes the ops one after the other in the given order in
// the main thread. drainEach: background work spawned by an op is completed
// before the next op starts; otherwise it is held until all ops are done.
func (sc *schedScenario) runSequential(order []int, drainEach bool) (*vsched.Result, []string) {
	obs := make([]string, len(sc.Ops)+1)
	cfg := sc.Cfg
	cfg.Chooser = vsched.SeqChooser{}
	cfg.NoRace = true
	x := &schedCtx{Vals: map[string]interface{}{}}
	res := vsched.Run(cfg, func() {
		ResetGlobals()
		sc.Setup(x)
		vsched.Drain()
		if !drainEach {
			vsched.SetHoldSpawns(true)
		}
		for _, i := range order {
			obs[i] = sc.Ops[i].Fn(x)
			if drainEach {
				vsched.Drain()
			}
		}
		vsched.SetHoldSpawns(false)
		vsched.ReleaseAll()
		if sc.Post != nil {
			obs[len(sc.Ops)] = sc.Post(x)
		}
		vsched.Drain()
	})
	x.cleanup()
	return res, obs
}

func permutations(n int) [][]int {
	var out [][]int
	var rec func(cur []int, used []bool)
	rec = func(cur []int, used []bool) {
		if len(cur) == n {
			out = append(out, append([]int{}, cur...))
			return
		}
		for i := 0; i < n; i++ {
			if !used[i] {
				used[i] = true
				rec(append(cur, i), used)
				used[i] = false
			}
		}
	}
	rec(nil, make([]bool, n))
	return out
}

type schedReport struct {
	Scenario   string         `json:"scenario"`
	Executions int            `json:"executions"`
	PerBound   []int          `json:"executions_per_preemption_bound"`
	BoundDone  int            `json:"preemption_bound_completed"`
	Capped     bool           `json:"capped"`
	MaxDepth   int            `json:"max_choice_points"`
	Points     int            `json:"choice_points_total"`
	Outcomes   map[string]int `json:"distinct_verdict_vectors"`
	Allowed    []string       `json:"sequentially_allowed_vectors"`
	SeqRuns    int            `json:"sequential_reference_runs"`
	Races      []string       `json:"races"`
	WallS      float64        `json:"wall_s"`
}

// referenceSet computes the verdict vectors of all *coarse-grained* executions:
// a thread runs until it ends, blocks or spawns another thread. These are the
// "sequential orderings of the same operations" (a handshake that forks a
// background fetch is two operations split at the fork).
func (sc *schedScenario) referenceSet(chk *fw.Check) (map[string]bool, int, bool) {
	allowed := map[string]bool{}
	broken := false
	ex := &fw.Explorer{
		SinglePass: true, MaxExec: 20000,
		SwitchAt: func(p vsched.PointRec) bool { return !p.CurFirst || p.Op == "spawn" },
		Run: func(ch vsched.Chooser) (*vsched.Result, interface{}) {
			cfg := sc.Cfg
			sc.Cfg.NoRace = true
			res, obs := sc.runConcurrent(ch, false)
			sc.Cfg = cfg
			return res, obs
		},
		OnExec: func(x *fw.Exec) bool {
			if x.Res.Verdict != vsched.OK {
				broken = true
				if chk != nil {
					reportExecVerdict(chk, sc, x.Res, x.Choices, "(coarse-grained reference run)")
				}
				return true
			}
			allowed[strings.Join(x.Obs.([]string), ",")] = true
			return true
		},
	}
	st := ex.Explore()
	return allowed, st.Executions, broken || st.Capped
}

func (sc *schedScenario) allowedModuloErr(obs []string, allowed map[string]bool) bool {
	if sc.ErrOK == nil {
		return false
	}
	for a := range allowed {
		parts := strings.Split(a, ",")
		if len(parts) != len(obs) {
			continue
		}
		ok := true
		for i := range obs {
			if obs[i] == parts[i] || (obs[i] == "ERR" && i < len(sc.Ops) && sc.ErrOK(i)) {
				continue
			}
			ok = false
			break
		}
		if ok {
			return true
		}
	}
	return false
}

type workerViolation struct {
	Sig    string      `json:"sig"`
	What   string      `json:"what"`
	Replay interface{} `json:"replay"`
	Count  int         `json:"count"`
}

type workerOut struct {
	Report     schedReport       `json:"report"`
	Violations []workerViolation `json:"violations"`
}

// exploreShard explores one shard of the schedule tree of sc in this process.
func exploreShard(sc *schedScenario, class string, bound, maxExec int, deadline time.Time, shard, nshards int, judgeSerial bool) workerOut {
	return exploreShardProp("C13", sc, class, bound, maxExec, deadline, shard, nshards, judgeSerial, nil)
}

// exploreShardCustom explores with a driver supplied oracle on the observation vector instead of the serialisability oracle.
func exploreShardCustom(sc *schedScenario, prop string, bound, maxExec int, deadline time.Time, shard, nshards int, judge func(obs []string) (string, string)) workerOut {
	return exploreShardProp(prop, sc, sc.Class, bound, maxExec, deadline, shard, nshards, false, judge)
}

func exploreShardProp(prop string, sc *schedScenario, class string, bound, maxExec int, deadline time.Time, shard, nshards int, judgeSerial bool, judge func(obs []string) (string, string)) workerOut {
	start := time.Now()
	if class == "" {
		class = "active"
	}
	rep := schedReport{Scenario: sc.Name, Outcomes: map[string]int{}}
	viol := map[string]*workerViolation{}
	add := func(sig, what string, replay interface{}) {
		if v, ok := viol[sig]; ok {
			v.Count++
			return
		}
		viol[sig] = &workerViolation{sig, what, replay, 1}
	}
	if judge == nil {
		judge = sc.Judge
	}
	if sc.NoSerialOracle {
		judgeSerial = false
	}
	tmp := fw.NewCheck(prop, "worker", "model_checking")
	allowed, seqRuns, seqBroken := map[string]bool{}, 0, false
	if judgeSerial {
		allowed, seqRuns, seqBroken = sc.referenceSet(tmp)
	}
	if shard == 0 {
		tmp.Drain(add)
	}
	rep.SeqRuns = seqRuns
	for k := range allowed {
		rep.Allowed = append(rep.Allowed, k)
	}
	sort.Strings(rep.Allowed)
	races := map[string]bool{}
	ex := &fw.Explorer{
		Bound: bound, MaxExec: maxExec, Deadline: deadline, Shard: shard, NShards: nshards,
		Run: func(ch vsched.Chooser) (*vsched.Result, interface{}) {
			res, obs := sc.runConcurrent(ch, false)
			return res, obs
		},
		OnExec: func(x *fw.Exec) bool {
			obs := x.Obs.([]string)
			key := strings.Join(obs, ",")
			replay := map[string]interface{}{"driver": prop, "scenario": sc.Name, "choices": x.Choices}
			if x.Res.Verdict != vsched.OK {
				key = x.Res.Verdict.String()
				c2 := fw.NewCheck(prop, "worker", "model_checking")
				reportExecVerdict(c2, sc, x.Res, x.Choices, "")
				c2.Drain(add)
			} else if judgeSerial && !seqBroken && !allowed[key] && !sc.allowedModuloErr(obs, allowed) {
				add(prop+"|nonserializable|"+sc.Name+"|"+key,
					fmt.Sprintf("scenario %s: verdict vector %s is not produced by any coarse-grained sequential order of the operations (allowed: %v)", sc.Name, key, rep.Allowed), replay)
			}
			if judge != nil && x.Res.Verdict == vsched.OK {
				if sig, what := judge(obs); sig != "" {
					add(sig+"|"+sc.Name, fmt.Sprintf("scenario %s: %s; observations %v", sc.Name, what, obs), replay)
				}
				// outcome statistics without the step stamps
				key = stripStamps(key)
			}
			rep.Outcomes[key]++
			for _, r := range x.Res.Races {
				sig := class + "|" + raceSig(r)
				if !races[sig] {
					races[sig] = true
				}
				add(prop+"|race|"+sig,
					fmt.Sprintf("data race (%s) on %s between %s and %s (scenario %s)", r.Kinds, r.Loc, r.SiteA, r.SiteB, sc.Name), replay)
			}
			return true
		},
	}
	st := ex.Explore()
	rep.Executions, rep.PerBound, rep.BoundDone, rep.Capped, rep.MaxDepth, rep.Points = st.Executions, st.PerBound, st.BoundDone, st.Capped, st.MaxDepth, st.Points
	for r := range races {
		rep.Races = append(rep.Races, r)
	}
	sort.Strings(rep.Races)
	rep.WallS = time.Since(start).Seconds()
	out := workerOut{Report: rep}
	var sigs []string
	for s := range viol {
		sigs = append(sigs, s)
	}
	sort.Strings(sigs)
	for _, s := range sigs {
		out.Violations = append(out.Violations, *viol[s])
	}
	return out
}

// exploreScenario explores all schedules up to the preemption bound, sharded
// over worker subprocesses, applies the C13 oracles and merges the results.
func exploreScenario(chk *fw.Check, prop string, sc *schedScenario, class string, bound, maxExec int, deadline time.Time, nshards int, judgeSerial bool) schedReport {
	start := time.Now()
	var outs []workerOut
	if nshards <= 1 {
		outs = append(outs, exploreShard(sc, class, bound, maxExec, deadline, 0, 1, judgeSerial))
	} else {
		outs = runWorkers(prop, sc.Name, bound, maxExec/nshards+1, deadline, nshards)
	}
	rep := mergeWorkerOuts(chk, sc.Name, outs)
	rep.WallS = time.Since(start).Seconds()
	return rep
}

func mergeWorkerOuts(chk *fw.Check, name string, outs []workerOut) schedReport {
	start := time.Now()
	rep := schedReport{Scenario: name, Outcomes: map[string]int{}, BoundDone: 1 << 30}
	races := map[string]bool{}
	for _, o := range outs {
		r := o.Report
		rep.Executions += r.Executions
		rep.Points += r.Points
		for i, n := range r.PerBound {
			for len(rep.PerBound) <= i {
				rep.PerBound = append(rep.PerBound, 0)
			}
			rep.PerBound[i] += n
		}
		if r.BoundDone < rep.BoundDone {
			rep.BoundDone = r.BoundDone
		}
		rep.Capped = rep.Capped || r.Capped
		if r.MaxDepth > rep.MaxDepth {
			rep.MaxDepth = r.MaxDepth
		}
		for k, n := range r.Outcomes {
			rep.Outcomes[k] += n
		}
		rep.Allowed = r.Allowed
		rep.SeqRuns = r.SeqRuns
		for _, x := range r.Races {
			races[x] = true
		}
		for _, v := range o.Violations {
			for i := 0; i < v.Count; i++ {
				chk.Violation(v.Sig, v.What, v.Replay)
			}
		}
	}
	for r := range races {
		rep.Races = append(rep.Races, r)
	}
	sort.Strings(rep.Races)
	for _, o := range outs {
		if o.Report.WallS > rep.WallS {
			rep.WallS = o.Report.WallS
		}
	}
	_ = start
	return rep
}

var stampRe = regexp.MustCompile(`@[0-9]+-[0-9]+`)

func stripStamps(s string) string { return stampRe.ReplaceAllString(s, "") }

// runWorkers starts nshards subprocesses of this binary in worker mode.
func runWorkers(prop, scenario string, bound, maxExec int, deadline time.Time, nshards int) []workerOut {
	outs := make([]workerOut, nshards)
	errs := make([]error, nshards)
	done := make(chan int, nshards)
	sem := make(chan struct{}, 16) // at most 16 worker processes at a time; with more shards than that the work balances itself
	for i := 0; i < nshards; i++ {
		go func(i int) {
			defer func() { done <- i }()
			sem <- struct{}{}
			defer func() { <-sem }()
			cmd := exec.Command(os.Args[0], prop, "--tier", "worker", "--",
				"worker", scenario, fmt.Sprint(bound), fmt.Sprint(maxExec), fmt.Sprint(deadline.Unix()), fmt.Sprint(i), fmt.Sprint(nshards))
			cmd.Env = append(os.Environ(), "GOMAXPROCS=2")
			cmd.Stderr = os.Stderr
			b, err := cmd.Output()
			if err != nil {
				errs[i] = fmt.Errorf("worker %d: %v", i, err)
				return
			}
			// the last line is the JSON result
			lines := strings.Split(strings.TrimSpace(string(b)), "\n")
			if err := json.Unmarshal([]byte(lines[len(lines)-1]), &outs[i]); err != nil {
				errs[i] = fmt.Errorf("worker %d: bad output: %v", i, err)
			}
		}(i)
	}
	for i := 0; i < nshards; i++ {
		<-done
	}
	for _, e := range errs {
		if e != nil {
			fmt.Fprintln(os.Stderr, "harness error:", e)
			CleanupScratch()
			os.Exit(2)
		}
	}
	return outs
}

// raceSig: kind-independent, order-independent coordinates of a race: the
// field and the two functions (not lines).
func raceSig(r vsched.Race) string {
	a, b := siteFn(r.SiteA), siteFn(r.SiteB)
	if a > b {
		a, b = b, a
	}
	return r.Loc + "|" + a + "|" + b
}

func siteFn(s string) string {
	if i := strings.Index(s, "|"); i >= 0 {
		return s[:i]
	}
	return s
}

func reportExecVerdict(chk *fw.Check, sc *schedScenario, res *vsched.Result, choices []int, ctx string) {
	prop := chk.ID
	replay := map[string]interface{}{"driver": prop, "scenario": sc.Name, "choices": choices, "context": ctx}
	switch res.Verdict {
	case vsched.Deadlock:
		chk.Violation(prop+"|deadlock|"+deadlockSig(res.Detail),
			fmt.Sprintf("scenario %s %s: deadlock: %s", sc.Name, ctx, res.Detail), replay)
	case vsched.Panic:
		chk.Violation(prop+"|panic|"+res.PanicSite,
			fmt.Sprintf("scenario %s %s: %s", sc.Name, ctx, firstLines(res.Detail, 12)), replay)
	case vsched.Horizon:
		chk.Violation(prop+"|horizon|"+sc.Name, fmt.Sprintf("scenario %s %s: step horizon reached (livelock?)", sc.Name, ctx), replay)
	}
}

// deadlockSig keeps "op at function" per blocked thread, sorted (no thread ids).
func deadlockSig(detail string) string {
	// root cause first: a thread blocked on a lock that it holds itself
	for _, p := range strings.Split(detail, ";") {
		p = strings.TrimSpace(p)
		if !strings.HasPrefix(p, "T") {
			continue
		}
		id := p[:strings.IndexAny(p, "(")]
		if strings.Contains(p, "held by "+id+")") {
			i := strings.Index(p, "blocked in ")
			q := p[i+len("blocked in "):]
			if j := strings.Index(q, " on "); j >= 0 {
				q = q[:j]
			}
			return "self:" + q
		}
	}
	var parts []string
	for _, p := range strings.Split(detail, ";") {
		p = strings.TrimSpace(p)
		if p == "" {
			continue
		}
		// "T3(name) blocked in Lock at pkg.Func on ..."
		i := strings.Index(p, "blocked in ")
		if i < 0 {
			continue
		}
		q := p[i+len("blocked in "):]
		if j := strings.Index(q, " on "); j >= 0 {
			q = q[:j]
		}
		parts = append(parts, q)
	}
	sort.Strings(parts)
	// dedupe
	var out []string
	for i, p := range parts {
		if i == 0 || p != parts[i-1] {
			out = append(out, p)
		}
	}
	return strings.Join(out, "+")
}

func firstLines(s string, n int) string {
	l := strings.Split(s, "\n")
	if len(l) > n {
		l = l[:n]
	}
	return strings.Join(l, "\n")
}
