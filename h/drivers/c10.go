package drivers

import (
	"encoding/json"
	"errors"
	"fmt"
	"net/url"
	"os"
	"sort"
	"strconv"
	"strings"
	"time"

	"github.com/gr33nbl00d/caddy-revocation-validator/config"
	"github.com/gr33nbl00d/caddy-revocation-validator/core"
	"github.com/gr33nbl00d/caddy-revocation-validator/crl"

	"verif/h/fw"
	"verif/h/rt/vsched"
	"verif/h/world"
)

// C10: CDP strictness over histories of server states and events.

type c10Cfg struct {
	CDP        int // index into c10CDPSets
	Background bool
	Sig        config.SignatureValidationMode
	Disk       bool
	Strict     bool
}

var c10CDPSets = [][]string{
	{"http://crl.test/a.crl"},
	{"https://crl.test/a.crl"},
	{"ldap://dir.test/cn=crl"},
	{"ldap://dir.test/cn=crl", "http://crl.test/a.crl"},
	{"http://crl.test/a.crl", "http://crl.test/b.crl"},
	{"file:///etc/crl/a.crl"},
	// location strings shorter than any scheme name the loader factory knows
	{"x:1"},
	{"a:", "http://crl.test/a.crl"},
	// locations which begin like an http URL and cannot be parsed as one (an unexpanded placeholder, a port which is no
	// number), alone and next to a reachable one: the validator cannot use such a set at all (it never gets a store),
	// so no CRL for it is ever in force
	{"http://%ca_name%.crl.test/x.crl"},
	{"http://crl.test:80a/x.crl", "http://crl.test/a.crl"},
}

func (c c10Cfg) String() string {
	sm := map[config.SignatureValidationMode]string{config.SignatureValidationModeVerify: "verify", config.SignatureValidationModeVerifyLog: "verify_log", config.SignatureValidationModeNone: "none"}[c.Sig]
	fm := "actively"
	if c.Background {
		fm = "background"
	}
	return fmt.Sprintf("cdp=%v fetch=%s sig=%s backend=%s strict=%v", c10CDPSets[c.CDP], fm, sm, be(c.Disk), c.Strict)
}

func c10HTTPURLs(set []string) []string {
	var u []string
	for _, s := range set {
		if strings.HasPrefix(strings.ToLower(s), "http") {
			if _, err := url.Parse(s); err != nil {
				return nil // the whole set is unusable
			}
		}
	}
	for _, s := range set {
		if strings.HasPrefix(strings.ToLower(s), "http") {
			u = append(u, s)
		}
	}
	return u
}

// "stale": a genuine list whose nextUpdate passed a day ago (an issuer which is late; nothing in the property makes such
// a list less of a list: where it is taken in it is in force, and with crl_cdp_strict off it never denies anybody it
// does not name)
var c10ServerStates = []string{"down", "garbage", "badsig", "good", "stale"}

type c10Cast struct {
	p             *world.PKI
	listed, clean map[int]*world.Ident // per CDP set
	good, badsig  []byte
	stale         []byte
}

func newC10Cast() *c10Cast {
	p := world.Std()
	c := &c10Cast{p: p, listed: map[int]*world.Ident{}, clean: map[int]*world.Ident{}}
	for i, set := range c10CDPSets {
		c.listed[i] = world.Leaf(p.CA, bi(101), set, nil)
		c.clean[i] = world.Leaf(p.CA, bi(102), set, nil)
	}
	c.good = world.SimpleCRL(p.CA, 1, 101, 105).DER()
	b := world.SimpleCRL(p.CA, 2, 101, 105)
	b.BadSig = true
	c.badsig = b.DER()
	st := world.SimpleCRL(p.CA, 1, 101, 105)
	st.ThisUpdate, st.NextUpdate = vsched.Epoch.Add(-48*time.Hour), vsched.Epoch.Add(-24*time.Hour)
	c.stale = st.DER()
	return c
}

// events for a config: hs(listed), hs(clean), set(url_i, state_j)..., tick, bgfetch-completes, restart
func c10EventNames(cfg c10Cfg) []string {
	ev := []string{"hs(listed)", "hs(clean)"}
	for _, u := range c10HTTPURLs(c10CDPSets[cfg.CDP]) {
		for _, s := range c10ServerStates {
			ev = append(ev, "set("+u+","+s+")")
		}
	}
	ev = append(ev, "tick", "bgfetch-completes", "restart")
	return ev
}

type c10Run struct {
	key   string
	viols []c14Viol
	trace []string
}

func (c *c10Cast) run(cfg c10Cfg, hist []int) (out c10Run) {
	events := c10EventNames(cfg)
	urls := c10HTTPURLs(c10CDPSets[cfg.CDP])
	res := seqWorld(func() {
		net := world.NewNet()
		dir := FreshDir("c10")
		defer os.RemoveAll(dir)
		mk := func() *CW {
			w := NewCW(CWOpt{Disk: cfg.Disk, SigMode: cfg.Sig, Background: cfg.Background, Strict: cfg.Strict, Dir: dir, Net: net})
			if err := w.Provision(); err != nil {
				panic("provision: " + err.Error())
			}
			vsched.Drain()
			return w
		}
		w := mk()
		vsched.SetHoldSpawns(true)
		state := map[string]string{}
		for _, u := range urls {
			state[u] = "down"
			net.Down(u)
		}
		// reference model
		refLoaded := false    // a CRL for the CDP set is in force
		refKnown := false     // the validator has seen this CDP set (entry exists)
		pendingBg := 0        // background fetches spawned and not yet completed
		diskAccepted := false // disk holds a complete accepted CRL (survives restart)
		acceptable := func(s string) bool {
			switch s {
			case "good", "stale":
				return true
			case "badsig":
				return cfg.Sig != config.SignatureValidationModeVerify
			}
			return false
		}
		lastOK := ""             // the multi-URL loader asks the URL that answered last time first (which URL is asked is not constrained by the property)
		fetch := func() string { // state of the document a load attempt obtains ("" = nothing)
			if lastOK != "" && state[lastOK] != "down" {
				return state[lastOK]
			}
			for _, u := range urls {
				if u != lastOK && state[u] != "down" {
					lastOK = u
					return state[u]
				}
			}
			return ""
		}
		loadAttempt := func() {
			if !refKnown || refLoaded || len(urls) == 0 {
				return
			}
			if acceptable(fetch()) {
				refLoaded = true
				if cfg.Disk {
					diskAccepted = true
				}
			}
		}
		step := func(e int) (abort bool) {
			name := events[e]
			switch {
			case strings.HasPrefix(name, "hs("):
				leaf := c.clean[cfg.CDP]
				isListed := false
				if name == "hs(listed)" {
					leaf, isListed = c.listed[cfg.CDP], true
				}
				// reference: what this handshake triggers
				if len(urls) > 0 {
					if !refKnown {
						refKnown = true
						if cfg.Background {
							pendingBg++
						}
					}
					if cfg.Disk && diskAccepted {
						refLoaded = true // the entry is re-created from the accepted data on disk
					}
					if !cfg.Background {
						loadAttempt()
					}
				}
				v := w.Lookup(leaf, world.Chain(leaf, c.p.CA, c.p.Root))
				vsched.ReleaseSite("initCRLUpdateTicker") // nothing expected; keeps tick threads from piling up
				out.trace = append(out.trace, fmt.Sprintf("%s=%s", name, v))
				accepted := !v.Rejected()
				listedInForce := refLoaded && isListed
				switch {
				case v.Panic != "":
					out.viols = append(out.viols, c14Viol{"C10|panic|" + normaliseNumbers(firstLines(v.Panic, 1)), "handshake panicked: " + v.Panic})
				case cfg.Strict && accepted && !refLoaded:
					out.viols = append(out.viols, c14Viol{"C10|strict-accepted-without-crl-in-force", fmt.Sprintf("crl_cdp_strict on: %s accepted although no CRL for the distribution-point set is in force", name)})
				case accepted && listedInForce:
					out.viols = append(out.viols, c14Viol{"C10|listed-accepted", fmt.Sprintf("%s accepted although the CRL in force lists it", name)})
				case !cfg.Strict && !accepted && !listedInForce:
					why := v.Err
					if v.Revoked {
						why = "reported revoked"
					}
					out.viols = append(out.viols, c14Viol{"C10|lenient-denied|" + c10ErrClass(why), fmt.Sprintf("crl_cdp_strict off: %s denied although no CRL in force lists it (%s)", name, why)})
				case cfg.Strict && !accepted && refLoaded && !isListed:
					out.viols = append(out.viols, c14Viol{"C10|strict-denied-with-crl-in-force|" + c10ErrClass(v.Err), fmt.Sprintf("crl_cdp_strict on: %s denied although a CRL for its distribution points is in force and does not list it (%s)", name, v.Err)})
				}
			case strings.HasPrefix(name, "set("):
				inner := strings.TrimSuffix(strings.TrimPrefix(name, "set("), ")")
				i := strings.LastIndex(inner, ",")
				u, s := inner[:i], inner[i+1:]
				if state[u] == s {
					out.key = ""
					return true
				}
				state[u] = s
				switch s {
				case "down":
					net.Down(u)
				case "garbage":
					net.Serve(u, "garbage", []byte("\x30\x82\x01\x00 this is not a CRL"))
				case "badsig":
					net.Serve(u, "badsig", c.badsig)
				case "good":
					net.Serve(u, "good", c.good)
				case "stale":
					net.Serve(u, "stale", c.stale)
				}
			case name == "tick":
				vsched.Advance(w.Cfg.UpdateIntervalParsed)
				vsched.ReleaseSite("initCRLUpdateTicker")
				loadAttempt()
			case name == "bgfetch-completes":
				if vsched.HeldCount("IsRevoked") == 0 {
					out.key = ""
					return true
				}
				vsched.ReleaseSite("IsRevoked")
				if pendingBg > 0 {
					pendingBg = 0
					loadAttempt()
				}
			case name == "restart":
				vsched.ReleaseAll() // pending background work completes before the process goes down
				if pendingBg > 0 {
					pendingBg = 0
					loadAttempt()
				}
				w.Chk.Cleanup()
				crl.VerifReset()
				vsched.SetHoldSpawns(false)
				refKnown, refLoaded, pendingBg = false, false, 0
				lastOK = ""
				w = mk()
				vsched.SetHoldSpawns(true)
			}
			return false
		}
		for _, e := range hist {
			if step(e) {
				return
			}
		}
		var st []string
		for _, u := range urls {
			st = append(st, state[u])
		}
		var ents []string
		for _, e := range w.Repo().VerifEntries() {
			ents = append(ents, fmt.Sprintf("%v/%v/%s", e.Loaded, e.LastUpdateSignatureVerifyFailed, storeDigest(e.Store)))
		}
		sort.Strings(ents)
		ids, tmps, other := ListDir(dir)
		ents = append(ents, fmt.Sprintf("dir:%d/%d/%d/%s", len(ids), len(tmps), len(other), dirDigest(dir)))
		out.key = fmt.Sprintf("srv=%v ref=%v/%v/%d/%v impl=%v held=%d", st, refKnown, refLoaded, pendingBg, diskAccepted, ents, len(vsched.Held()))
		// final observation (after the key was taken): both handshakes judged at the end of every history, also of one
		// that is merged into a state seen before (hidden state the reference does not model would vanish with it)
		if n := len(hist); n > 0 && !strings.HasPrefix(events[hist[n-1]], "hs(") {
			out.trace = append(out.trace, "final:")
			step(0)
			step(1)
		}
		vsched.ReleaseAll()
		w.Chk.Cleanup()
	})
	if res.Verdict != vsched.OK {
		out.viols = append(out.viols, c14Viol{"C10|" + res.Verdict.String() + "|" + res.PanicSite, firstLines(res.Detail, 6)})
	}
	return
}

func c10ErrClass(e string) string {
	switch {
	case strings.Contains(e, "no suitable crl loader"):
		return "no-suitable-loader"
	case strings.Contains(e, "was not loaded"):
		return "cdp-not-loaded"
	case e == "reported revoked":
		return "revoked"
	case e == "":
		return "none"
	}
	return normaliseNumbers(firstLines(e, 1))
}

func c10Configs(tier string) []c10Cfg {
	var out []c10Cfg
	sigs := []config.SignatureValidationMode{config.SignatureValidationModeVerify, config.SignatureValidationModeVerifyLog, config.SignatureValidationModeNone}
	for cdp := range c10CDPSets {
		for _, bg := range []bool{false, true} {
			for _, sg := range sigs {
				for _, disk := range []bool{false, true} {
					for _, strict := range []bool{true, false} {
						out = append(out, c10Cfg{cdp, bg, sg, disk, strict})
					}
				}
			}
		}
	}
	return out
}

// c10LoadFaults: single-fault enumeration over the first load of a distribution-point CRL. For every effect point of
// the load (file and database operations of download, staging and activation) one run injects an error exactly
// there; afterwards - fault gone - a certificate which no CRL lists is presented twice. With crl_cdp_strict off the
// failed attempt to obtain or use the CRL must not deny it; nothing may panic.
func c10LoadFaults(chk *fw.Check) (evals int) {
	c := newC10Cast()
	loc := &core.CRLLocations{CRLDistributionPoints: c10CDPSets[0]}
	url := c10CDPSets[0][0]
	for _, mode := range []struct{ disk, bg bool }{{false, false}, {true, false}, {false, true}, {true, true}} {
		disk, bg := mode.disk, mode.bg
		var by []string
		count := func(dieAt int) (n int, v1, v2 Verdict, fired string) {
			by = nil
			res := seqWorld(func() {
				w := NewCW(CWOpt{Disk: disk, SigMode: config.SignatureValidationModeVerify, Background: bg})
				defer os.RemoveAll(w.Dir)
				if err := w.Provision(); err != nil {
					panic(err)
				}
				vsched.Drain()
				w.Net.Serve(url, "good", c.good)
				vsched.EffectHook = func(kind, arg string) error {
					n++
					if n == dieAt {
						fired = kind
						return errors.New("injected: " + kind + " failed")
					}
					return nil
				}
				chains := core.NewCertificateChains(world.Chain(c.clean[0], c.p.CA, c.p.Root), nil)
				func() {
					defer func() { recover() }()
					w.Repo().AddCRL(loc, chains)
					if bg {
						w.Chk.VerifUpdateCRLs(true) // what the handshake starts in the background for a new location
					}
				}()
				vsched.EffectHook = nil
				// fault gone. First the bystanders - a certificate which names no distribution point at all and one which
				// names another, healthy one - then the certificate of the faulted set, twice
				noCDP := world.Leaf(c.p.CA, bi(103), nil, nil)
				otherURL := "http://crl.test/bystander.crl"
				w.Net.Serve(otherURL, "good", c.good)
				other := world.Leaf(c.p.CA, bi(104), []string{otherURL}, nil)
				for _, l := range []*world.Ident{noCDP, other} {
					if v := w.Lookup(l, world.Chain(l, c.p.CA, c.p.Root)); v.Err != "" || v.Panic != "" || v.Revoked {
						by = append(by, fmt.Sprintf("certificate %s (CDP %v): %s %s%s", l.Cert.SerialNumber, l.Cert.CRLDistributionPoints, v, v.Err, v.Panic))
					}
					vsched.Drain()
				}
				v1 = w.Lookup(c.clean[0], world.Chain(c.clean[0], c.p.CA, c.p.Root))
				v2 = w.Lookup(c.clean[0], world.Chain(c.clean[0], c.p.CA, c.p.Root))
				w.Chk.Cleanup()
			})
			vsched.EffectHook = nil
			if res.Verdict != vsched.OK {
				v1.Panic = res.Verdict.String() + ": " + firstLines(res.Detail, 3)
			}
			return
		}
		total, _, _, _ := count(0)
		for k := 1; k <= total; k++ {
			_, v1, v2, kind := count(k)
			evals++
			if len(by) > 0 {
				chk.Violation("C10|lenient-bystander-denied-after-load-fault|"+kind+"|"+be(disk)+fmt.Sprintf(" background=%v", bg),
					fmt.Sprintf("crl_cdp_strict off, %s backend: the first load of a distribution-point CRL hit an injected %s error (effect point %d of %d); afterwards (fault gone) certificates which have nothing to do with that distribution point and which no CRL lists are not accepted: %v", be(disk), kind, k, total, by), nil)
			}
			for i, v := range []Verdict{v1, v2} {
				switch {
				case v.Panic != "":
					chk.Violation("C10|panic-after-load-fault|"+kind+"|"+be(disk)+fmt.Sprintf(" background=%v", bg), fmt.Sprintf("first load with an injected %s error (effect point %d of %d, %s backend): %s", kind, k, total, be(disk), v.Panic), nil)
				case v.Err != "":
					chk.Violation("C10|lenient-denied-after-load-fault|"+kind+"|"+be(disk)+fmt.Sprintf(" background=%v", bg),
						fmt.Sprintf("crl_cdp_strict off, %s backend: the first load of the distribution-point CRL hit an injected %s error (effect point %d of %d); handshake %d afterwards (fault gone, certificate not listed anywhere) is denied: %s", be(disk), kind, k, total, i+1, v.Err), nil)
				}
			}
		}
	}
	return
}

// c10RefreshFaults: the same single-fault enumeration over a refresh of a list in force: whatever operation of the
// refresh fails, nothing panics, the refresh ends, and afterwards (fault gone) the list is still answered from - the
// listed certificate is rejected, the clean one accepted (crl_cdp_strict on: a list is in force) - and the next refresh
// works.
func c10RefreshFaults(chk *fw.Check) (evals int) {
	c := newC10Cast()
	url := c10CDPSets[0][0]
	for _, disk := range []bool{false, true} {
		run := func(dieAt int) (n int, fired, panicked string, vl, vc, vl2 Verdict) {
			res := seqWorld(func() {
				w := NewCW(CWOpt{Disk: disk, SigMode: config.SignatureValidationModeVerify, Strict: true})
				defer os.RemoveAll(w.Dir)
				if err := w.Provision(); err != nil {
					panic(err)
				}
				vsched.Drain()
				w.Net.Serve(url, "good", c.good)
				if v := w.Lookup(c.listed[0], world.Chain(c.listed[0], c.p.CA, c.p.Root)); !v.Revoked {
					panic("c10 refresh faults: setup " + v.String() + v.Err)
				}
				vsched.EffectHook = func(kind, arg string) error {
					n++
					if n == dieAt {
						fired = kind
						return errors.New("injected: " + kind + " failed")
					}
					return nil
				}
				func() {
					defer func() {
						if r := recover(); r != nil {
							if fmt.Sprintf("%T", r) == "vsched.abortSentinel" {
								panic(r)
							}
							panicked = fmt.Sprint(r)
						}
					}()
					w.Chk.VerifUpdateCRLs(true)
				}()
				vsched.EffectHook = nil
				vsched.Drain()
				vl = w.Lookup(c.listed[0], world.Chain(c.listed[0], c.p.CA, c.p.Root))
				vc = w.Lookup(c.clean[0], world.Chain(c.clean[0], c.p.CA, c.p.Root))
				w.Chk.VerifUpdateCRLs(true)
				vsched.Drain()
				vl2 = w.Lookup(c.listed[0], world.Chain(c.listed[0], c.p.CA, c.p.Root))
				w.Chk.Cleanup()
			})
			vsched.EffectHook = nil
			if res.Verdict != vsched.OK && panicked == "" {
				panicked = res.Verdict.String() + ": " + firstLines(res.Detail, 3)
			}
			return
		}
		total, _, _, _, _, _ := run(0)
		for k := 1; k <= total; k++ {
			_, kind, panicked, vl, vc, vl2 := run(k)
			evals++
			label := fmt.Sprintf("refresh of a list in force with an injected %s error (effect point %d of %d, %s backend)", kind, k, total, be(disk))
			switch {
			case panicked != "":
				chk.Violation("C10|panic-in-refresh-fault|"+kind+"|"+be(disk), label+": "+panicked, nil)
			case vl.Panic != "" || vc.Panic != "" || vl2.Panic != "":
				chk.Violation("C10|panic-after-refresh-fault|"+kind+"|"+be(disk), label+": "+vl.Panic+vc.Panic+vl2.Panic, nil)
			case !vl.Rejected():
				chk.Violation("C10|listed-accepted-after-refresh-fault|"+kind+"|"+be(disk), label+": afterwards the listed certificate is accepted (crl_cdp_strict on)", nil)
			case !vl2.Rejected():
				chk.Violation("C10|listed-accepted-after-refresh-fault|"+kind+"|"+be(disk), label+": after one more (fault-free) refresh the listed certificate is accepted", nil)
			}
			_ = vc // whether the clean certificate is still accepted depends on whether the implementation could keep the list (C08 / C09 judge that)
		}
	}
	return
}

// RunC10 is the entry point of the C10 check.
func RunC10(tier string, args []string) int {
	if len(args) > 0 && args[0] == "hworker" {
		wtier := args[1]
		shard, _ := strconv.Atoi(args[2])
		n, _ := strconv.Atoi(args[3])
		c := newC10Cast()
		depth := 4
		if wtier == "thorough" {
			depth = 6
		}
		out := hWorkerOut{Outcomes: map[string]int{}}
		vs := newViolSet()
		deadline := time.Now().Add(30 * time.Minute)
		for i, cfg := range c10Configs(wtier) {
			if i%n != shard {
				continue
			}
			cfg := cfg
			events := c10EventNames(cfg)
			d := depth
			if len(events) > 10 && wtier != "thorough" {
				d = depth // two-URL sets have 13 events; still depth 3
			}
			st := fw.BFS(len(events), d, 0, deadline, func(hist []int) (string, bool) {
				r := c.run(cfg, hist)
				if r.key == "" && len(r.viols) == 0 {
					return "", false
				}
				for _, v := range r.viols {
					names := make([]string, len(hist))
					for k, e := range hist {
						names[k] = events[e]
					}
					feature := fmt.Sprintf("|fetch=%v sig=%d backend=%s cdp=%d", map[bool]string{false: "actively", true: "background"}[cfg.Background], cfg.Sig, be(cfg.Disk), cfg.CDP)
					if strings.Contains(v.Sig, "no-suitable-loader") {
						feature = "" // independent of the rest of the configuration
					}
					vs.add(v.Sig+feature, fmt.Sprintf("[%s] %s; history: %s; trace: %s", cfg, v.What, strings.Join(names, " ; "), strings.Join(r.trace, " ")),
						map[string]interface{}{"driver": "C10", "config": cfg, "history": hist, "events": names})
				}
				return r.key, len(r.viols) == 0
			})
			out.Stats.States += st.States
			out.Stats.Transitions += st.Transitions
			out.Stats.Pruned += st.Pruned
			if st.MaxDepth > out.Stats.MaxDepth {
				out.Stats.MaxDepth = st.MaxDepth
			}
			out.Stats.Capped = out.Stats.Capped || st.Capped
			out.Configs++
		}
		out.Violations = vs.list()
		b, _ := json.Marshal(out)
		fmt.Println(string(b))
		return 0
	}
	chk := fw.NewCheck("C10", tier, "model_checking")
	chk.Assumptions = []string{
		"reference model per distribution-point set: known / in-force / pending background fetch / accepted-on-disk; a load attempt obtains the document of the first reachable http(s) URL in CDP order and is accepted iff it parses and (mode != verify or the signature is right)",
		"background fetch threads are held pending and released by the explicit event bgfetch-completes; restart = Cleanup + fresh process state + Provision over the same work_dir",
		"all served CRL variants list the same serials, so only 'is a CRL in force' and 'is the serial listed' enter the oracle",
	}
	total := runHWorkers(chk, "C10", tier, 16)
	faultRuns := c10LoadFaults(chk) + c10RefreshFaults(chk)
	// all schedules (<= 2 preemptions) of a first-use fetch with crl_cdp_strict off next to the handshake of a certificate
	// which names no distribution point and is on no list: the pending fetch of somebody else's list never denies it
	c13c := newC13cast()
	bystander := world.Leaf(c13c.p.CA, bi(150), nil, nil)
	var sreps []schedReport
	for _, bg := range []bool{false, true} {
		bg := bg
		sc := &schedScenario{Name: fmt.Sprintf("lenient-bystander-during-first-fetch/background=%v", bg), NoSerialOracle: true,
			Setup: func(x *schedCtx) {
				w := c13c.mkWorld(x, CWOpt{SigMode: config.SignatureValidationModeVerify, Background: bg})
				w.Net.Serve(urlA, "v1", c13c.v1)
			},
			Ops: []schedOp{c13c.hs(0, c13c.L1), {Name: "hs(no distribution point, unlisted)", Fn: func(x *schedCtx) string {
				return x.W[0].Lookup(bystander, world.Chain(bystander, c13c.p.CA, c13c.p.Root)).String()
			}}},
			Judge: func(obs []string) (string, string) {
				if obs[1] != "OK" {
					return "C10|lenient-denied|bystander-during-a-pending-fetch", "crl_cdp_strict off: a certificate which names no distribution point and is on no list reads " + obs[1] + " while the list of another certificate's distribution point is fetched for the first time"
				}
				return "", ""
			},
		}
		rep := exploreInProcess(chk, "C10", sc, 2)
		sreps = append(sreps, rep)
		fmt.Printf("  S %-40s execs=%d per-bound=%v outcomes=%v\n", rep.Scenario, rep.Executions, rep.PerBound, rep.Outcomes)
	}
	cov := fw.Coverage{
		"schedule_scenarios":            sreps,
		"states":                        total.Stats.States + faultRuns,
		"transitions":                   total.Stats.Transitions + 3*faultRuns,
		"traces_validated_against_impl": total.Stats.Transitions + faultRuns,
		"load_fault_runs":               faultRuns,
		"configurations":                total.Configs,
		"max_depth":                     total.Stats.MaxDepth,
		"merged_transitions":            total.Stats.Pruned,
		"samples":                       []interface{}{[]string{"set(http://crl.test/a.crl,badsig)", "hs(listed)", "restart", "hs(clean)"}, []string{"hs(clean)", "set(http://crl.test/a.crl,good)", "bgfetch-completes", "hs(listed)"}},
		"exhaustive":                    !total.Stats.Capped,
	}
	return chk.Finish(cov)
}

func init() { registry["C10"] = RunC10 }
