package drivers

import (
	"crypto/x509"
	"crypto/x509/pkix"
	"fmt"
	"math/big"
	"os"
	"path/filepath"
	"strings"

	"github.com/gr33nbl00d/caddy-revocation-validator/config"
	"github.com/gr33nbl00d/caddy-revocation-validator/crl"

	"verif/h/fw"
	"verif/h/rt/vsched"
	"verif/h/world"
)

// C16: the signature validation mode means the same on every intake path.

var c16Modes = []string{"", "verify", "verify_log", "none"}

// the last two: genuinely signed by the issuing CA, but the CRL's authority key identifier cannot be evaluated (an empty
// SEQUENCE; only authorityCertIssuer without a serial number). Whether such a CRL "fails verification" is the
// implementation's call, so 'verify' is not judged for them; verify_log and none accept every parseable CRL.
// "resolvable-no-aki": signed by the issuing CA, no authority key identifier - the signer is found by name, and a
// certificate of the re-keyed CA (same name, other key) is configured as trusted signer in front of everything else.
// "resolvable-renewed-CA-certificate": the CA renewed its certificate with the same key. The clients' verified chains
// come in both variants - through the old certificate (keyCertSign only) and through the renewed one (which may sign
// CRLs) -, both match the CRL's key identifier, only the second one is entitled. The CRL is accepted and, as every
// accepted CRL, keeps being refreshed.
var c16Signers = []string{"resolvable", "unknown", "wrong-signature", "unevaluable-aki-empty", "unevaluable-aki-issuer-only", "resolvable-no-aki", "resolvable-renewed-CA-certificate"}
var c16Paths = []string{"provision-crl_file", "provision-crl_url", "first-cdp-fetch-actively", "first-cdp-fetch-background", "periodic-refresh", "refresh-after-restart",
	// a first run under signature_validation_mode none takes the configured CRL in; the process restarts on the same
	// work_dir with the mode of the cell (the policy of the current configuration decides, not what the disk remembers)
	"reprovision-crl_file-after-run-under-none", "reprovision-crl_url-after-run-under-none",
	// the same for a list which came in through a certificate's distribution point during the run under none; the
	// origin is down when the process restarts with the mode of the cell
	"restart-after-first-cdp-fetch-under-none",
	// the file named by trusted_signature_certs_files is replaced by another CA's certificate between two runs of the
	// same process: the second run trusts what the file holds now
	"reprovision-crl_url-after-trusted-cert-file-replaced",
	// the trusted_signature_certs_files option is removed between two runs: the second run trusts nobody beyond the chains
	"reprovision-crl_url-after-trusted-cert-removed", "reprovision-crl_file-after-trusted-cert-removed"}

type c16Cell struct {
	Mode, Signer, Path string
	Disk               bool
	// ExtraTrusted: an unrelated CA certificate is configured as trusted signature certificate in addition
	ExtraTrusted bool
}

func (c c16Cell) String() string {
	m := c.Mode
	if m == "" {
		m = "(unset)"
	}
	x := ""
	if c.ExtraTrusted {
		x = " trusted+=unrelated-CA"
	}
	return fmt.Sprintf("mode=%s signer=%s path=%s backend=%s%s", m, c.Signer, c.Path, be(c.Disk), x)
}

const c16URL = "http://crl.test/c16.crl"

type c16Cast struct {
	p                 *world.PKI
	ca, unknownCA     *world.Ident
	p1, p2, clean     *world.Ident // p1 listed from version 1 on, p2 only from version 2 on
	pc1, pc2, pcclean *world.Ident // same serials without CDP (config CRL paths)
	// the issuing CA's previous certificate: same name, same key, key usage keyCertSign only
	oldCA             *world.Ident
	oldCACertInChains bool
	// sendUnknownCAAlong: with the signer variant "unknown" every client sends the unknown CA's certificate along
	sendUnknownCAAlong bool
}

func newC16Cast() *c16Cast {
	p := world.Std()
	c := &c16Cast{p: p, ca: p.CA}
	c.unknownCA = world.Issue(nil, world.CertOpt{CN: "unknown crl signer", IsCA: true, KeyKind: "ec", KeyIdx: 4, Serial: big.NewInt(81)})
	c.oldCA = world.Issue(p.Root, world.CertOpt{Subject: &p.CA.Cert.Subject, IsCA: true, KeyKind: "ec", KeyIdx: 1, Serial: big.NewInt(82), KeyUsage: x509.KeyUsageCertSign})
	if string(c.oldCA.Cert.SubjectKeyId) != string(p.CA.Cert.SubjectKeyId) || string(c.oldCA.Cert.RawSubject) != string(p.CA.Cert.RawSubject) {
		panic("c16 cast: the old CA certificate is expected to share name and key identifier with the renewed one")
	}
	c.p1 = world.Leaf(p.CA, bi(301), []string{c16URL}, nil)
	c.p2 = world.Leaf(p.CA, bi(302), []string{c16URL}, nil)
	c.clean = world.Leaf(p.CA, bi(303), []string{c16URL}, nil)
	c.pc1 = world.Leaf(p.CA, bi(301), nil, nil)
	c.pc2 = world.Leaf(p.CA, bi(302), nil, nil)
	c.pcclean = world.Leaf(p.CA, bi(303), nil, nil)
	return c
}

// doc builds version v (1 lists 301; 2 lists 301,302) with the signer variant.
func (c *c16Cast) doc(signer string, v int) []byte {
	serials := []int64{301}
	if v >= 2 {
		serials = append(serials, 302)
	}
	switch signer {
	case "resolvable", "resolvable-renewed-CA-certificate":
		return world.SimpleCRL(c.ca, int64(v), serials...).DER()
	case "wrong-signature":
		s := world.SimpleCRL(c.ca, int64(v), serials...)
		s.BadSig = true
		return s.DER()
	case "resolvable-no-aki":
		s := world.SimpleCRL(c.ca, int64(v), serials...)
		s.Exts = []pkix.Extension{world.CRLNumberExt(int64(v))}
		return s.DER()
	case "unevaluable-aki-empty":
		s := world.SimpleCRL(c.ca, int64(v), serials...)
		s.Exts = []pkix.Extension{world.AKIExt(nil, nil, nil), world.CRLNumberExt(int64(v))}
		return s.DER()
	case "unevaluable-aki-issuer-only":
		s := world.SimpleCRL(c.ca, int64(v), serials...)
		s.Exts = []pkix.Extension{world.AKIExt(nil, c.ca.Cert.RawIssuer, nil), world.CRLNumberExt(int64(v))}
		return s.DER()
	default: // unknown: signed by a CA that is neither in the chain nor configured, under the issuing CA's name
		s := world.SimpleCRL(c.unknownCA, int64(v), serials...)
		s.IssuerRaw = c.ca.Cert.RawSubject
		return s.DER()
	}
}

type c16Obs struct {
	ProvisionErr string
	Probes       []string // in-force observations: "v0" none, "v1", "v2", or "ERR:..."
}

// observe returns which version is in force according to the probes (strict on for CDP paths).
func (c *c16Cast) observe(w *TW, cdp bool) string {
	l1, l2, cl := c.pc1, c.pc2, c.pcclean
	if cdp {
		l1, l2, cl = c.p1, c.p2, c.clean
	}
	ch := func(l *world.Ident) [][]*x509.Certificate {
		if c.oldCACertInChains {
			// two verified chains: through the CA's old certificate and through its renewed one
			return [][]*x509.Certificate{world.Chain(l, c.oldCA, c.p.Root)[0], world.Chain(l, c.ca, c.p.Root)[0]}
		}
		return world.Chain(l, c.ca, c.p.Root)
	}
	hs := func(l *world.Ident) Verdict {
		chains := ch(l)
		if !c.sendUnknownCAAlong {
			return w.Handshake(chains)
		}
		// the client's Certificate message also carries the certificate of the CA which signed the "unknown" lists - a
		// certificate which is part of no verified chain
		var raw [][]byte
		for _, x := range chains[0] {
			raw = append(raw, x.Raw)
		}
		raw = append(raw, c.unknownCA.Cert.Raw)
		_, fresh := freshHandshake(chains[0][0], chains)
		return w.HandshakeRaw(raw, fresh)
	}
	v1, v2, vc := hs(l1), hs(l2), hs(cl)
	vsched.Drain()
	if v1.Panic != "" || v2.Panic != "" || vc.Panic != "" {
		return "PANIC:" + v1.Panic + v2.Panic + vc.Panic
	}
	switch {
	case vc.Err != "":
		return "v0" // strict: nothing in force for the CDP (or lookup error)
	case vc.Revoked:
		return "BOGUS:clean-revoked"
	case v1.Revoked && v2.Revoked:
		return "v2"
	case v1.Revoked:
		return "v1"
	case !v1.Revoked && !v2.Revoked && v1.Err == "" && v2.Err == "":
		if cdp {
			return "loaded-but-empty?"
		}
		return "v0"
	}
	return fmt.Sprintf("?%s/%s/%s", v1, v2, vc)
}

func (c *c16Cast) runCell(cell c16Cell) (obs c16Obs, want []string) {
	accept := func(signer string) bool { // does the mode accept a CRL of this signer variant?
		if cell.Mode == "" || cell.Mode == "verify" {
			return signer == "resolvable" || signer == "resolvable-no-aki" || signer == "resolvable-renewed-CA-certificate"
		}
		return true
	}
	c.oldCACertInChains = cell.Signer == "resolvable-renewed-CA-certificate"
	c.sendUnknownCAAlong = cell.Signer == "unknown"
	defer func() { c.oldCACertInChains, c.sendUnknownCAAlong = false, false }()
	seqWorld(func() {
		net := world.NewNet()
		dir := FreshDir("c16")
		defer os.RemoveAll(dir)
		filesDir := FreshDir("c16f")
		defer os.RemoveAll(filesDir)
		crlFile := filepath.Join(filesDir, "configured.crl")
		storage := "memory"
		if cell.Disk {
			storage = "disk"
		}
		cdp := !strings.HasPrefix(cell.Path, "provision-") && !strings.HasPrefix(cell.Path, "reprovision-")
		modeNow := cell.Mode
		trustedNow := c.ca
		mkCfg := func() *config.CRLConfig {
			cfg := &config.CRLConfig{WorkDir: dir, StorageType: storage, SignatureValidationMode: modeNow, UpdateInterval: "30m",
				CDPConfig: &config.CDPConfig{CRLCDPStrict: true}}
			switch cell.Path {
			case "reprovision-crl_file-after-run-under-none":
				cfg.CRLFiles = []string{crlFile}
				cfg.TrustedSignatureCertsFiles = []string{WritePEM(filesDir, "ca.pem", c.ca.Cert)}
			case "reprovision-crl_url-after-run-under-none":
				cfg.CRLUrls = []string{c16URL}
				cfg.TrustedSignatureCertsFiles = []string{WritePEM(filesDir, "ca.pem", c.ca.Cert)}
			case "reprovision-crl_url-after-trusted-cert-removed", "reprovision-crl_file-after-trusted-cert-removed":
				if strings.Contains(cell.Path, "crl_url") {
					cfg.CRLUrls = []string{c16URL}
				} else {
					cfg.CRLFiles = []string{crlFile}
				}
				if trustedNow != nil {
					cfg.TrustedSignatureCertsFiles = []string{WritePEM(filesDir, "ca.pem", trustedNow.Cert)}
				}
			case "reprovision-crl_url-after-trusted-cert-file-replaced":
				cfg.CRLUrls = []string{c16URL}
				// (size and modification time of the file are the same before and after the replacement)
				cfg.TrustedSignatureCertsFiles = []string{WritePEMSameStat(filesDir, "ca.pem", trustedNow.Cert)}
			case "provision-crl_file":
				cfg.CRLFiles = []string{crlFile}
				cfg.TrustedSignatureCertsFiles = []string{WritePEM(filesDir, "ca.pem", c.ca.Cert)}
			case "provision-crl_url":
				cfg.CRLUrls = []string{c16URL}
				cfg.TrustedSignatureCertsFiles = []string{WritePEM(filesDir, "ca.pem", c.ca.Cert)}
			case "first-cdp-fetch-background":
				cfg.CDPConfig.CRLFetchMode = "fetch_background"
			}
			if cell.ExtraTrusted {
				// a trusted signer which has nothing to do with this CRL changes nothing about the policy
				cfg.TrustedSignatureCertsFiles = append([]string{WritePEM(filesDir, "unrelated.pem", c.p.CARSA.Cert)}, cfg.TrustedSignatureCertsFiles...)
			}
			if cell.Signer == "resolvable-renewed-CA-certificate" && len(cfg.TrustedSignatureCertsFiles) > 0 {
				// where signers are configured both certificates of the CA are, the old one first
				cfg.TrustedSignatureCertsFiles = append([]string{WritePEM(filesDir, "old-ca.pem", c.oldCA.Cert)}, cfg.TrustedSignatureCertsFiles...)
			}
			if cell.Signer == "resolvable-no-aki" {
				// the re-keyed CA's certificate (same name, other key) comes first among the trusted signers
				cfg.TrustedSignatureCertsFiles = append([]string{WritePEM(filesDir, "rekeyed.pem", c.p.Sibling.Cert)}, cfg.TrustedSignatureCertsFiles...)
			}
			return cfg
		}
		publish := func(signer string, v int) {
			d := c.doc(signer, v)
			net.Serve(c16URL, fmt.Sprintf("%s-v%d", signer, v), d)
			os.WriteFile(crlFile, d, 0644)
		}
		var w *TW
		start := func() error {
			w = NewTW(TWOpt{Mode: "crl_only", CRL: mkCfg(), Net: net})
			err := w.Provision()
			vsched.Drain()
			return err
		}
		tick := func() {
			vsched.Advance(30 * 60 * 1e9)
			vsched.Drain()
		}
		restart := func() error {
			w.Cleanup()
			vsched.Drain()
			crl.VerifReset()
			return start()
		}
		inForce := 0
		expect := func() { want = append(want, fmt.Sprintf("v%d", inForce)) }
		look := func() { obs.Probes = append(obs.Probes, c.observe(w, cdp)) }
		switch cell.Path {
		case "reprovision-crl_url-after-trusted-cert-removed", "reprovision-crl_file-after-trusted-cert-removed":
			if cell.Signer != "resolvable" || cell.ExtraTrusted {
				want, obs.Probes = nil, nil
				return
			}
			publish("resolvable", 1)
			if err := start(); err != nil {
				obs.ProvisionErr = "first run: " + err.Error()
				want = append(want, "provision-must-succeed")
				return
			}
			look()
			inForce = 1
			expect()
			publish("resolvable", 2)
			trustedNow = nil // nobody is configured as trusted signer any more: the CRL's signer is unknown to this run
			if err := restart(); err != nil {
				obs.ProvisionErr = err.Error()
				if accept("unknown") {
					want = append(want, "provision-must-succeed")
				}
				return
			}
			inForce = 0
			if accept("unknown") {
				inForce = 2
			}
			look()
			expect()
			w.Cleanup()
			return
		case "reprovision-crl_url-after-trusted-cert-file-replaced":
			if cell.Signer != "resolvable" {
				want, obs.Probes = nil, nil // the other signer kinds are not resolvable before the replacement either
				return
			}
			publish("resolvable", 1)
			if err := start(); err != nil {
				obs.ProvisionErr = "first run: " + err.Error()
				want = append(want, "provision-must-succeed")
				return
			}
			look()
			inForce = 1
			expect()
			publish("resolvable", 2)
			trustedNow = c.p.CARSA // the same file name now holds an unrelated CA: the CRL's signer is unknown to this run
			if err := restart(); err != nil {
				obs.ProvisionErr = err.Error()
				if accept("unknown") {
					want = append(want, "provision-must-succeed")
				}
				return
			}
			inForce = 0
			if accept("unknown") {
				inForce = 2
			}
			look()
			expect()
			w.Cleanup()
			return
		case "restart-after-first-cdp-fetch-under-none":
			modeNow = "none"
			publish(cell.Signer, 1)
			if err := start(); err != nil {
				obs.ProvisionErr = "first run under none: " + err.Error()
				want = append(want, "provision-must-succeed")
				return
			}
			look()
			inForce = 1
			expect()
			net.Down(c16URL)
			modeNow = cell.Mode
			if err := restart(); err != nil {
				obs.ProvisionErr = err.Error()
				want = append(want, "provision-must-succeed")
				return
			}
			inForce = 0
			if cell.Disk && accept(cell.Signer) {
				inForce = 1 // what the disk holds is a list this mode accepts
			}
			look()
			expect()
			w.Cleanup()
			return
		case "reprovision-crl_file-after-run-under-none", "reprovision-crl_url-after-run-under-none":
			modeNow = "none"
			publish(cell.Signer, 1)
			if err := start(); err != nil {
				obs.ProvisionErr = "first run under none: " + err.Error()
				want = append(want, "provision-must-succeed")
				return
			}
			look()
			inForce = 1
			expect()
			publish(cell.Signer, 2)
			modeNow = cell.Mode
			if err := restart(); err != nil {
				obs.ProvisionErr = err.Error()
				if accept(cell.Signer) {
					want = append(want, "provision-must-succeed")
				}
				return
			}
			inForce = 0
			if accept(cell.Signer) {
				inForce = 2
			}
			look()
			expect()
			w.Cleanup()
			return
		case "provision-crl_file", "provision-crl_url":
			publish(cell.Signer, 1)
			if err := start(); err != nil {
				obs.ProvisionErr = err.Error()
				if accept(cell.Signer) {
					want = append(want, "provision-must-succeed")
				}
				return
			}
			if accept(cell.Signer) {
				inForce = 1
			}
			look()
			expect()
			publish(cell.Signer, 2)
			tick()
			if accept(cell.Signer) {
				inForce = 2
			}
			look()
			expect()
		case "first-cdp-fetch-actively", "first-cdp-fetch-background":
			publish(cell.Signer, 1)
			if err := start(); err != nil {
				obs.ProvisionErr = err.Error()
				want = append(want, "provision-must-succeed")
				return
			}
			look() // first use: active loads now, background spawns the fetch (completed by Drain)
			if cell.Path == "first-cdp-fetch-background" {
				look()
				obs.Probes = obs.Probes[1:]
			}
			if accept(cell.Signer) {
				inForce = 1
			}
			expect()
			publish(cell.Signer, 2)
			tick()
			if accept(cell.Signer) {
				inForce = 2
			}
			look()
			expect()
		case "periodic-refresh", "refresh-after-restart":
			publish("resolvable", 1)
			if err := start(); err != nil {
				obs.ProvisionErr = err.Error()
				want = append(want, "provision-must-succeed")
				return
			}
			look()
			inForce = 1
			expect()
			if cell.Path == "refresh-after-restart" {
				if !cell.Disk {
					// memory storage forgets; the location is loaded again on first use: same as first fetch, not this cell's subject
					want = nil
					obs.Probes = nil
					return
				}
				net.Down(c16URL)
				if err := restart(); err != nil {
					obs.ProvisionErr = err.Error()
					want = append(want, "provision-must-succeed")
					return
				}
				look()
				expect()
			}
			publish(cell.Signer, 2)
			tick()
			if accept(cell.Signer) {
				inForce = 2
			}
			look()
			expect()
			// a further refresh (the issuer publishes a list which no longer contains the second serial): being refreshed
			// is not a one-time thing
			publish(cell.Signer, 1)
			tick()
			if accept(cell.Signer) {
				inForce = 1
			}
			look()
			expect()
		}
		// restart with the origin down: what was in force must still be (disk) / nothing (memory)
		net.Down(c16URL)
		os.Remove(crlFile)
		if cell.Disk && cdp {
			if err := restart(); err != nil {
				obs.ProvisionErr = "restart: " + err.Error()
				want = append(want, "provision-must-succeed")
				return
			}
			look()
			expect()
		}
		w.Cleanup()
	})
	return
}

// RunC16 is the entry point of the C16 check.
func RunC16(tier string, args []string) int {
	chk := fw.NewCheck("C16", tier, "model_checking")
	chk.Assumptions = []string{
		"exhaustive matrix mode(4) x signer(3) x intake path(6) x backend(2) x trusted signers {as needed, plus an unrelated CA}; each cell is a short history on the real CertRevocationValidator (Provision -> handshakes -> publish v2 -> tick -> handshakes -> restart -> handshakes) under the virtual clock",
		"in force is observed through strict-mode handshakes for three probes (listed since v1, listed since v2, never listed); reference: verify/unset accept only a resolvable signer with a right signature, verify_log/none accept every parseable CRL",
	}
	SilenceStderr()
	c := newC16Cast()
	cells, transitions := 0, 0
	outcomes := fw.NewDistinct()
	var samples []interface{}
	for _, mode := range c16Modes {
		for _, signer := range c16Signers {
			for _, path := range c16Paths {
				for _, disk := range []bool{false, true} {
					for _, extra := range []bool{false, true} {
						cell := c16Cell{mode, signer, path, disk, extra}
						if strings.HasPrefix(signer, "unevaluable") && (mode == "" || mode == "verify") {
							continue
						}
						obs, want := c.runCell(cell)
						if want == nil && obs.Probes == nil && obs.ProvisionErr == "" {
							continue
						}
						cells++
						transitions += len(obs.Probes) + 1
						got := strings.Join(obs.Probes, ",")
						exp := strings.Join(want, ",")
						outcomes.Add(fmt.Sprintf("%s|%s|%v", got, exp, obs.ProvisionErr != ""))
						if len(samples) < 4 && cells%53 == 0 {
							samples = append(samples, map[string]interface{}{"cell": cell.String(), "observed": obs.Probes, "expected": want})
						}
						modeClass := cell.Mode
						if modeClass == "" {
							modeClass = "unset"
						}
						sig := fmt.Sprintf("mode=%s signer=%s path=%s", modeClass, cell.Signer, cell.Path)
						if cell.ExtraTrusted {
							sig += " trusted+=unrelated-CA"
						}
						switch {
						case strings.Contains(got, "PANIC"):
							chk.Violation("C16|panic|"+sig, fmt.Sprintf("panic in cell %s: %s", cell, got), cell)
						case obs.ProvisionErr != "" && strings.Contains(exp, "provision-must-succeed"):
							chk.Violation("C16|provision-fails|"+sig, fmt.Sprintf("cell %s: Provision fails although the configured mode accepts this CRL: %s", cell, obs.ProvisionErr), cell)
						case obs.ProvisionErr != "":
							// verify + unacceptable configured CRL: failing to provision is allowed
						case got != exp:
							chk.Violation("C16|policy-mismatch|"+sig, fmt.Sprintf("cell %s: versions in force at the probes were [%s], the policy demands [%s]", cell, got, exp), cell)
						}
					}
				}
			}
		}
	}
	// unset == verify, cell by cell, is implied by both being compared with the same reference.
	cov := fw.Coverage{
		"states":                        cells,
		"transitions":                   transitions,
		"traces_validated_against_impl": cells,
		"cells":                         cells,
		"distinct_outcomes":             outcomes.N(),
		"samples":                       append(samples, "mode=none signer=unknown path=provision-crl_url backend=mem"),
		"exhaustive":                    true,
	}
	return chk.Finish(cov)
}

func init() { registry["C16"] = RunC16 }

var _ = config.Memory
