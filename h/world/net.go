package world

import (
	"context"
	"bytes"
	"crypto"
	"crypto/x509"
	"errors"
	"fmt"
	"io"
	"math/big"
	"net/http"
	"time"

	"golang.org/x/crypto/ocsp"

	"verif/h/rt/vsched"
)

// Hit is one request seen by the scripted transport.
type Hit struct {
	URL    string
	Method string
	At     time.Time
	Served string // label of the behaviour that answered
}

// Behaviour answers one request.
type Behaviour struct {
	Label  string
	Status int
	Body   []byte
	Err    error // transport-level failure (connection refused)
	Delay  time.Duration // virtual time the request takes
	Fn     func(req *http.Request, body []byte) (int, []byte, error) // dynamic answer
	Stream func() io.ReadCloser // lazily produced body (C17)
	// ContentLength: what the answer's Content-Length header announces (0 = nothing announced). Nothing makes the
	// origin send that many bytes.
	ContentLength int64
	// Redirect: answer with this status (307, 308, 301 ...) and a Location header naming RedirectTo
	Redirect   int
	RedirectTo string
}

// Net is the scripted origin: URL -> behaviour. Installed as http.DefaultTransport.
type Net struct {
	Routes map[string]*Behaviour
	Hits   []Hit
	// Headers are sent with every answer (what a responder, a proxy or a CDN in front of it may add: none of it is
	// signed, none of it is configuration)
	Headers http.Header
	// Unclosed counts the answers whose body the client has not closed yet (a body which is never closed keeps its
	// connection and the transport's goroutines for good)
	Unclosed      int
	UnclosedFirst string
}

type trackedBody struct {
	io.ReadCloser
	n      *Net
	url    string
	closed bool
}

func (t *trackedBody) Close() error {
	if !t.closed {
		t.closed = true
		t.n.Unclosed--
	}
	return t.ReadCloser.Close()
}

var ErrRefused = errors.New("dial tcp: connection refused (scripted)")

func NewNet() *Net {
	n := &Net{Routes: map[string]*Behaviour{}, Headers: http.Header{
		"Cache-Control": {"max-age=86400, public, no-transform, must-revalidate"},
		"Expires":       {"Fri, 01 Jan 2100 00:00:00 GMT"},
		"Last-Modified": {"Mon, 01 Jan 2001 00:00:00 GMT"},
		"Etag":          {"\"0123456789abcdef\""},
		"Age":           {"4000"},
	}}
	http.DefaultTransport = n
	http.DefaultClient = &http.Client{Transport: n}
	return n
}

func (n *Net) RoundTrip(req *http.Request) (*http.Response, error) {
	url := req.URL.String()
	var body []byte
	if req.Body != nil {
		body, _ = io.ReadAll(req.Body)
		req.Body.Close()
	}
	b := n.Routes[url]
	if b == nil {
		b = n.Routes["*"] // wildcard route
	}
	label := "unrouted"
	if b != nil {
		label = b.Label
	}
	n.Hits = append(n.Hits, Hit{URL: url, Method: req.Method, At: vsched.Now(), Served: label})
	if b == nil {
		return nil, ErrRefused
	}
	if b.Delay > 0 {
		// a request which carries a deadline (on the virtual clock) is given up when the deadline passes
		if dl, ok := req.Context().Deadline(); ok && vsched.Active() && dl.Before(vsched.Now().Add(b.Delay)) {
			if wait := dl.Sub(vsched.Now()); wait > 0 {
				vsched.Sleep(wait)
			}
			return nil, fmt.Errorf("%s %q: %w", req.Method, url, context.DeadlineExceeded)
		}
		vsched.Sleep(b.Delay)
	}
	if err := req.Context().Err(); err != nil {
		return nil, fmt.Errorf("%s %q: %w", req.Method, url, err)
	}
	status, out, err := b.Status, b.Body, b.Err
	if b.Fn != nil {
		status, out, err = b.Fn(req, body)
	}
	// the origin has answered (what it had at request time); when the answer reaches the client is up to the scheduler:
	// everything another thread does may happen while the answer is on the wire
	if vsched.Active() {
		vsched.Point("net.response", n, nil)
	}
	if err != nil {
		return nil, err
	}
	if b.Redirect != 0 {
		status, out = b.Redirect, []byte("<html>moved</html>")
	}
	if status == 0 {
		status = 200
	}
	var rc io.ReadCloser = io.NopCloser(bytes.NewReader(out))
	if b.Stream != nil {
		rc = b.Stream()
	}
	n.Unclosed++
	if n.UnclosedFirst == "" {
		n.UnclosedFirst = url
	}
	rc = &trackedBody{ReadCloser: rc, n: n, url: url}
	return &http.Response{
		Status:     fmt.Sprintf("%d scripted", status),
		StatusCode: status,
		Proto:      "HTTP/1.1", ProtoMajor: 1, ProtoMinor: 1,
		Header:        n.headersFor(b),
		Body:          rc,
		ContentLength: announced(b),
		Request:       req,
	}, nil
}

func (n *Net) headersFor(b *Behaviour) http.Header {
	h := n.headers()
	if b.Redirect != 0 {
		h.Set("Location", b.RedirectTo)
	}
	return h
}

func announced(b *Behaviour) int64 {
	if b.ContentLength != 0 {
		return b.ContentLength
	}
	return -1
}

func (n *Net) headers() http.Header {
	h := http.Header{}
	for k, v := range n.Headers {
		h[k] = append([]string{}, v...)
	}
	return h
}

func (n *Net) Serve(url string, label string, body []byte) {
	n.Routes[url] = &Behaviour{Label: label, Body: body}
}

func (n *Net) Down(url string) { n.Routes[url] = &Behaviour{Label: "down", Err: ErrRefused} }

func (n *Net) HitsFor(url string) int {
	c := 0
	for _, h := range n.Hits {
		if h.URL == url {
			c++
		}
	}
	return c
}

func (n *Net) ResetHits() { n.Hits = nil }

// ---------------------------------------------------------------- OCSP responder

type OCSPAnswer struct {
	Status      int       // ocsp.Good / Revoked / Unknown
	Serial      *big.Int  // serial the response talks about
	Issuer      *Ident    // CA whose name/key hash identify the cert (CertID)
	Signer      *Ident    // who signs the response
	EmbedCert   bool      // embed Signer's certificate in the response
	ThisUpdate  time.Time
	NextUpdate  time.Time // zero = absent
	RevokedAt   time.Time
}

var ocspCache = map[string][]byte{}

// BuildOCSP creates a DER OCSPResponse (memoised).
func BuildOCSP(a OCSPAnswer) []byte {
	key := fmt.Sprintf("%d|%v|%p|%p|%v|%v|%v|%v", a.Status, a.Serial, a.Issuer, a.Signer, a.EmbedCert, a.ThisUpdate.Unix(), a.NextUpdate.Unix(), a.RevokedAt.Unix())
	certMu.Lock()
	if b, ok := ocspCache[key]; ok {
		certMu.Unlock()
		return b
	}
	certMu.Unlock()
	tpl := ocsp.Response{
		Status:       a.Status,
		SerialNumber: a.Serial,
		ThisUpdate:   a.ThisUpdate,
		NextUpdate:   a.NextUpdate,
		IssuerHash:   crypto.SHA1,
	}
	if a.Status == ocsp.Revoked {
		tpl.RevokedAt = a.RevokedAt
		if tpl.RevokedAt.IsZero() {
			tpl.RevokedAt = a.ThisUpdate.Add(-time.Hour)
		}
		tpl.RevocationReason = ocsp.KeyCompromise
	}
	var responder *x509.Certificate = a.Signer.Cert
	if a.EmbedCert {
		tpl.Certificate = a.Signer.Cert
	}
	der, err := ocsp.CreateResponse(a.Issuer.Cert, responder, tpl, a.Signer.Key)
	if err != nil {
		panic(fmt.Sprintf("BuildOCSP: %v", err))
	}
	certMu.Lock()
	ocspCache[key] = der
	certMu.Unlock()
	return der
}

// OCSPErrorResponse is an OCSPResponse with a non-successful status and no body.
func OCSPErrorResponse(status int) []byte {
	// OCSPResponse ::= SEQUENCE { responseStatus ENUMERATED }
	return []byte{0x30, 0x03, 0x0a, 0x01, byte(status)}
}
