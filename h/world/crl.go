package world

import (
	"bytes"
	"crypto"
	"crypto/ecdsa"
	"crypto/rsa"
	"crypto/x509/pkix"
	"encoding/asn1"
	"encoding/base64"
	"encoding/pem"
	"fmt"
	"math/big"
	"time"

	"golang.org/x/crypto/cryptobyte"
	cbasn1 "golang.org/x/crypto/cryptobyte/asn1"

	"verif/h/rt/vsched"
)

// SigAlg names a CRL signature algorithm.
type SigAlg struct {
	Name    string
	OID     asn1.ObjectIdentifier
	Hash    crypto.Hash
	KeyKind string // "rsa", "ec", "" (unsupported by the validator)
	PSS     bool
	NoNullParams bool
}

var (
	SHA1RSA   = SigAlg{"sha1WithRSA", asn1.ObjectIdentifier{1, 2, 840, 113549, 1, 1, 5}, crypto.SHA1, "rsa", false, false}
	SHA224RSA = SigAlg{"sha224WithRSA", asn1.ObjectIdentifier{1, 2, 840, 113549, 1, 1, 14}, crypto.SHA224, "rsa", false, false}
	SHA256RSA = SigAlg{"sha256WithRSA", asn1.ObjectIdentifier{1, 2, 840, 113549, 1, 1, 11}, crypto.SHA256, "rsa", false, false}
	SHA384RSA = SigAlg{"sha384WithRSA", asn1.ObjectIdentifier{1, 2, 840, 113549, 1, 1, 12}, crypto.SHA384, "rsa", false, false}
	SHA512RSA = SigAlg{"sha512WithRSA", asn1.ObjectIdentifier{1, 2, 840, 113549, 1, 1, 13}, crypto.SHA512, "rsa", false, false}
	SHA1EC    = SigAlg{"ecdsaWithSHA1", asn1.ObjectIdentifier{1, 2, 840, 10045, 4, 1}, crypto.SHA1, "ec", false, true}
	SHA224EC  = SigAlg{"ecdsaWithSHA224", asn1.ObjectIdentifier{1, 2, 840, 10045, 4, 3, 1}, crypto.SHA224, "ec", false, true}
	SHA256EC  = SigAlg{"ecdsaWithSHA256", asn1.ObjectIdentifier{1, 2, 840, 10045, 4, 3, 2}, crypto.SHA256, "ec", false, true}
	SHA384EC  = SigAlg{"ecdsaWithSHA384", asn1.ObjectIdentifier{1, 2, 840, 10045, 4, 3, 3}, crypto.SHA384, "ec", false, true}
	SHA512EC  = SigAlg{"ecdsaWithSHA512", asn1.ObjectIdentifier{1, 2, 840, 10045, 4, 3, 4}, crypto.SHA512, "ec", false, true}
	// unsupported by the validator
	RSAPSS   = SigAlg{"rsassaPss", asn1.ObjectIdentifier{1, 2, 840, 113549, 1, 1, 10}, crypto.SHA256, "rsa", true, true}
	ED25519  = SigAlg{"ed25519", asn1.ObjectIdentifier{1, 3, 101, 112}, crypto.SHA512, "", false, true}
	BogusAlg = SigAlg{"bogus", asn1.ObjectIdentifier{1, 2, 3, 4, 5}, crypto.SHA256, "", false, true}
)

// OtherAlgOIDs: signature algorithm identifiers of the PKI world which this validator does not implement (legacy
// digests, DSA, PSS, EdDSA, SHA-3, RIPEMD, BSI plain ECDSA, GOST, SM2, OIW aliases). A CRL naming one of them must be
// refused - with an error, whatever a lookup table says about the digest.
var OtherAlgOIDs = []asn1.ObjectIdentifier{
	{1, 2, 840, 113549, 1, 1, 2}, {1, 2, 840, 113549, 1, 1, 3}, {1, 2, 840, 113549, 1, 1, 4}, {1, 2, 840, 113549, 1, 1, 10}, {1, 2, 840, 113549, 1, 1, 15}, {1, 2, 840, 113549, 1, 1, 16},
	{1, 2, 840, 113549, 1, 1, 1}, {1, 2, 840, 10045, 2, 1}, {1, 2, 840, 10045, 4, 2}, {1, 2, 840, 10045, 4, 3},
	{1, 2, 840, 10040, 4, 3}, {2, 16, 840, 1, 101, 3, 4, 3, 1}, {2, 16, 840, 1, 101, 3, 4, 3, 2}, {2, 16, 840, 1, 101, 3, 4, 3, 3}, {2, 16, 840, 1, 101, 3, 4, 3, 4},
	{2, 16, 840, 1, 101, 3, 4, 3, 9}, {2, 16, 840, 1, 101, 3, 4, 3, 10}, {2, 16, 840, 1, 101, 3, 4, 3, 11}, {2, 16, 840, 1, 101, 3, 4, 3, 12},
	{2, 16, 840, 1, 101, 3, 4, 3, 13}, {2, 16, 840, 1, 101, 3, 4, 3, 14}, {2, 16, 840, 1, 101, 3, 4, 3, 15}, {2, 16, 840, 1, 101, 3, 4, 3, 16},
	{1, 3, 101, 112}, {1, 3, 101, 113},
	{1, 3, 36, 3, 3, 1, 1}, {1, 3, 36, 3, 3, 1, 2}, {1, 3, 36, 3, 3, 1, 3}, {1, 3, 36, 3, 3, 1, 4},
	{0, 4, 0, 127, 0, 7, 1, 1, 4, 1, 1}, {0, 4, 0, 127, 0, 7, 1, 1, 4, 1, 2}, {0, 4, 0, 127, 0, 7, 1, 1, 4, 1, 3}, {0, 4, 0, 127, 0, 7, 1, 1, 4, 1, 4}, {0, 4, 0, 127, 0, 7, 1, 1, 4, 1, 5}, {0, 4, 0, 127, 0, 7, 1, 1, 4, 1, 6},
	{1, 2, 643, 2, 2, 3}, {1, 2, 643, 7, 1, 1, 3, 2}, {1, 2, 643, 7, 1, 1, 3, 3}, {1, 2, 156, 10197, 1, 501},
	{1, 3, 14, 3, 2, 29}, {1, 3, 14, 3, 2, 3}, {1, 3, 14, 3, 2, 15}, {1, 3, 14, 3, 2, 27}, {1, 3, 14, 3, 2, 13},
	{1, 2, 840, 113549, 2, 5}, {1, 3, 14, 3, 2, 26}, {2, 16, 840, 1, 101, 3, 4, 2, 1}, // bare digest identifiers (md5, sha1, sha256)
}

var SupportedAlgs = []SigAlg{SHA1RSA, SHA224RSA, SHA256RSA, SHA384RSA, SHA512RSA, SHA1EC, SHA224EC, SHA256EC, SHA384EC, SHA512EC}

func DefaultAlg(kind string) SigAlg {
	if kind == "rsa" {
		return SHA256RSA
	}
	return SHA256EC
}

type RevEntry struct {
	Serial    *big.Int
	RawSerial []byte // overrides Serial: raw INTEGER content octets
	Date      time.Time
	GenTime   bool // GeneralizedTime instead of UTCTime
	Exts      []pkix.Extension
}

type CRLSpec struct {
	Version          int // 0 = field absent (v1), 2 = v2 (encoded 1), 3 = v3 (encoded 2, must be rejected)
	RawVersion       *byte // overrides Version: the version field is an INTEGER of this one content octet
	Alg              SigAlg
	InnerAlg         *SigAlg // tbs.signature if different from outer
	IssuerRaw        []byte  // DER RDNSequence
	ThisUpdate       time.Time
	ThisGenTime      bool
	NextUpdate       time.Time
	NoNextUpdate     bool
	NextGenTime      bool
	Entries          []RevEntry
	EmptyListPresent bool // encode an empty revokedCertificates SEQUENCE instead of omitting it
	Exts             []pkix.Extension
	Signer           crypto.Signer // nil => zero signature
	BadSig           bool          // flip a bit of the signature value
	// Forge: the signature value is a genuine signature of the signer's key, but not over the tbsCertList:
	// "empty-digest" = over a digest of zero length, "digest-of-nothing" = over the digest of the empty octet string
	Forge string
}

// ReasonExt is the reasonCode entry extension.
func ReasonExt(code int) pkix.Extension {
	b, _ := asn1.Marshal(asn1.Enumerated(code))
	return pkix.Extension{Id: asn1.ObjectIdentifier{2, 5, 29, 21}, Value: b}
}

// CRLNumberBigExt is a cRLNumber of up to 20 octets (RFC 5280 allows that many).
func CRLNumberBigExt(n *big.Int) pkix.Extension {
	b, _ := asn1.Marshal(n)
	return pkix.Extension{Id: asn1.ObjectIdentifier{2, 5, 29, 20}, Value: b}
}

func InvalidityDateExt(t time.Time) pkix.Extension {
	b, _ := asn1.MarshalWithParams(t, "generalized")
	return pkix.Extension{Id: asn1.ObjectIdentifier{2, 5, 29, 24}, Value: b}
}

func CRLNumberExt(n int64) pkix.Extension {
	b, _ := asn1.Marshal(big.NewInt(n))
	return pkix.Extension{Id: asn1.ObjectIdentifier{2, 5, 29, 20}, Value: b}
}

// AKIExt builds an authorityKeyIdentifier with the requested parts.
func AKIExt(keyID []byte, issuerRaw []byte, serial *big.Int) pkix.Extension {
	var b cryptobyte.Builder
	b.AddASN1(cbasn1.SEQUENCE, func(b *cryptobyte.Builder) {
		if keyID != nil {
			b.AddASN1(cbasn1.Tag(0).ContextSpecific(), func(b *cryptobyte.Builder) { b.AddBytes(keyID) })
		}
		if issuerRaw != nil {
			// authorityCertIssuer [1] GeneralNames -> SEQUENCE OF GeneralName; directoryName [4] EXPLICIT Name
			b.AddASN1(cbasn1.Tag(1).ContextSpecific().Constructed(), func(b *cryptobyte.Builder) {
				b.AddASN1(cbasn1.Tag(4).ContextSpecific().Constructed(), func(b *cryptobyte.Builder) { b.AddBytes(issuerRaw) })
			})
		}
		if serial != nil {
			b.AddASN1(cbasn1.Tag(2).ContextSpecific(), func(b *cryptobyte.Builder) { b.AddBytes(intBytes(serial)) })
		}
	})
	return pkix.Extension{Id: asn1.ObjectIdentifier{2, 5, 29, 35}, Value: b.BytesOrPanic()}
}

// AKIExtGeneralName is an authority key identifier whose authorityCertIssuer is a GeneralName other than a
// directoryName (tag 6 = URI, 2 = dNSName, 1 = rfc822Name), together with a certificate serial number.
func AKIExtGeneralName(tag uint8, value string, serial *big.Int) pkix.Extension {
	var b cryptobyte.Builder
	b.AddASN1(cbasn1.SEQUENCE, func(b *cryptobyte.Builder) {
		b.AddASN1(cbasn1.Tag(1).ContextSpecific().Constructed(), func(b *cryptobyte.Builder) {
			b.AddASN1(cbasn1.Tag(tag).ContextSpecific(), func(b *cryptobyte.Builder) { b.AddBytes([]byte(value)) })
		})
		b.AddASN1(cbasn1.Tag(2).ContextSpecific(), func(b *cryptobyte.Builder) { b.AddBytes(intBytes(serial)) })
	})
	return pkix.Extension{Id: asn1.ObjectIdentifier{2, 5, 29, 35}, Value: b.BytesOrPanic()}
}

func UnknownExt(critical bool, size int) pkix.Extension {
	v := bytes.Repeat([]byte{0x5a}, size)
	ov, _ := asn1.Marshal(v)
	return pkix.Extension{Id: asn1.ObjectIdentifier{1, 3, 6, 1, 4, 1, 99999, 1}, Critical: critical, Value: ov}
}

func DeltaCRLIndicatorExt() pkix.Extension {
	b, _ := asn1.Marshal(big.NewInt(1))
	return pkix.Extension{Id: asn1.ObjectIdentifier{2, 5, 29, 27}, Critical: true, Value: b}
}

// StdCriticalExt is one of the standard CRL extensions which this validator does not implement, marked critical.
func StdCriticalExt(name string) pkix.Extension {
	switch name {
	case "idp": // issuingDistributionPoint { indirectCRL TRUE, onlySomeReasons {keyCompromise} }
		return pkix.Extension{Id: asn1.ObjectIdentifier{2, 5, 29, 28}, Critical: true, Value: []byte{0x30, 0x07, 0x83, 0x02, 0x06, 0x40, 0x84, 0x01, 0xff}}
	case "ian": // issuerAltName { dNSName "ca.test" }
		return pkix.Extension{Id: asn1.ObjectIdentifier{2, 5, 29, 18}, Critical: true, Value: append([]byte{0x30, 0x09, 0x82, 0x07}, "ca.test"...)}
	case "freshest": // freshestCRL { fullName URI "http://d" }
		return pkix.Extension{Id: asn1.ObjectIdentifier{2, 5, 29, 46}, Critical: true, Value: append([]byte{0x30, 0x10, 0x30, 0x0e, 0xa0, 0x0c, 0xa0, 0x0a, 0x86, 0x08}, "http://d"...)}
	case "aia": // authorityInfoAccess { caIssuers URI "http://i" }
		return pkix.Extension{Id: asn1.ObjectIdentifier{1, 3, 6, 1, 5, 5, 7, 1, 1}, Critical: true, Value: append([]byte{0x30, 0x14, 0x30, 0x12, 0x06, 0x08, 0x2b, 0x06, 0x01, 0x05, 0x05, 0x07, 0x30, 0x02, 0x86, 0x06}, "http:i"...)}
	}
	panic("world.StdCriticalExt: " + name)
}

func intBytes(n *big.Int) []byte {
	b, _ := asn1.Marshal(n)
	// strip tag + length
	var s cryptobyte.String = b
	var out cryptobyte.String
	s.ReadASN1(&out, cbasn1.INTEGER)
	return out
}

func addTime(b *cryptobyte.Builder, t time.Time, gen bool) {
	if gen {
		b.AddASN1GeneralizedTime(t)
	} else {
		b.AddASN1UTCTime(t)
	}
}

func addExts(b *cryptobyte.Builder, exts []pkix.Extension) {
	b.AddASN1(cbasn1.SEQUENCE, func(b *cryptobyte.Builder) {
		for _, e := range exts {
			b.AddASN1(cbasn1.SEQUENCE, func(b *cryptobyte.Builder) {
				b.AddASN1ObjectIdentifier(e.Id)
				if e.Critical {
					b.AddASN1Boolean(true)
				}
				b.AddASN1OctetString(e.Value)
			})
		}
	})
}

func addAlg(b *cryptobyte.Builder, a SigAlg) {
	b.AddASN1(cbasn1.SEQUENCE, func(b *cryptobyte.Builder) {
		b.AddASN1ObjectIdentifier(a.OID)
		if a.PSS {
			// RSASSA-PSS-params with SHA-256 / MGF1-SHA-256 / salt 32
			params, _ := base64.StdEncoding.DecodeString("MDSgDzANBglghkgBZQMEAgEFAKEcMBoGCSqGSIb3DQEBCDANBglghkgBZQMEAgEFAKIDAgEg")
			b.AddBytes(params)
		} else if !a.NoNullParams {
			b.AddASN1NULL()
		}
	})
}

// TBS returns the DER tbsCertList.
func (s *CRLSpec) TBS() []byte {
	var b cryptobyte.Builder
	b.AddASN1(cbasn1.SEQUENCE, func(b *cryptobyte.Builder) {
		if s.RawVersion != nil {
			b.AddASN1(cbasn1.INTEGER, func(b *cryptobyte.Builder) { b.AddBytes([]byte{*s.RawVersion}) })
		} else if s.Version > 0 {
			b.AddASN1Int64(int64(s.Version - 1))
		}
		inner := s.Alg
		if s.InnerAlg != nil {
			inner = *s.InnerAlg
		}
		addAlg(b, inner)
		b.AddBytes(s.IssuerRaw)
		addTime(b, s.ThisUpdate, s.ThisGenTime)
		if !s.NoNextUpdate {
			addTime(b, s.NextUpdate, s.NextGenTime)
		}
		if len(s.Entries) > 0 || s.EmptyListPresent {
			b.AddASN1(cbasn1.SEQUENCE, func(b *cryptobyte.Builder) {
				for _, e := range s.Entries {
					b.AddASN1(cbasn1.SEQUENCE, func(b *cryptobyte.Builder) {
						if e.RawSerial != nil {
							b.AddASN1(cbasn1.INTEGER, func(b *cryptobyte.Builder) { b.AddBytes(e.RawSerial) })
						} else {
							b.AddASN1BigInt(e.Serial)
						}
						addTime(b, e.Date, e.GenTime)
						if len(e.Exts) > 0 {
							addExts(b, e.Exts)
						}
					})
				}
			})
		}
		if len(s.Exts) > 0 {
			b.AddASN1(cbasn1.Tag(0).ContextSpecific().Constructed(), func(b *cryptobyte.Builder) { addExts(b, s.Exts) })
		}
	})
	return b.BytesOrPanic()
}

// Sign signs tbs with the spec's algorithm and signer.
func (s *CRLSpec) sign(tbs []byte) []byte {
	if s.Signer == nil {
		return []byte{0}
	}
	var sig []byte
	var err error
	if s.Alg.Name == "ed25519" {
		sig, err = s.Signer.Sign(DetRand, tbs, crypto.Hash(0))
	} else {
		h := s.Alg.Hash.New()
		h.Write(tbs)
		digest := h.Sum(nil)
		switch s.Forge {
		case "empty-digest":
			digest = []byte{}
		case "digest-of-nothing":
			digest = s.Alg.Hash.New().Sum(nil)
		}
		switch k := s.Signer.(type) {
		case *rsa.PrivateKey:
			if s.Alg.PSS {
				sig, err = rsa.SignPSS(DetRand, k, s.Alg.Hash, digest, &rsa.PSSOptions{SaltLength: 32})
			} else if len(digest) == 0 {
				sig, err = rsa.SignPKCS1v15(DetRand, k, crypto.Hash(0), digest)
			} else {
				sig, err = rsa.SignPKCS1v15(DetRand, k, s.Alg.Hash, digest)
			}
		case *ecdsa.PrivateKey:
			sig, err = ecdsa.SignASN1(DetRand, k, digest)
		default:
			sig, err = s.Signer.Sign(DetRand, digest, s.Alg.Hash)
		}
	}
	if err != nil {
		panic(fmt.Sprintf("sign CRL (%s): %v", s.Alg.Name, err))
	}
	if s.BadSig {
		sig = append([]byte{}, sig...)
		sig[len(sig)/2] ^= 0x01
	}
	return sig
}

var crlCache = map[string][]byte{}

// DER returns the complete signed CertificateList. Results are memoised on
// the spec's printed form so that repeated executions see identical bytes
// (ECDSA signatures are randomised).
func (s *CRLSpec) DER() []byte {
	key := s.cacheKey()
	certMu.Lock()
	if b, ok := crlCache[key]; ok {
		certMu.Unlock()
		return b
	}
	certMu.Unlock()
	tbs := s.TBS()
	sig := s.sign(tbs)
	var b cryptobyte.Builder
	b.AddASN1(cbasn1.SEQUENCE, func(b *cryptobyte.Builder) {
		b.AddBytes(tbs)
		addAlg(b, s.Alg)
		b.AddASN1BitString(sig)
	})
	out := b.BytesOrPanic()
	certMu.Lock()
	if len(crlCache) > 20000 {
		crlCache = map[string][]byte{}
	}
	crlCache[key] = out
	certMu.Unlock()
	return out
}

func (s *CRLSpec) cacheKey() string {
	signer := "nil"
	if s.Signer != nil {
		signer = fmt.Sprintf("%p", s.Signer)
	}
	tbs := s.TBS()
	return fmt.Sprintf("%x|%s|%s|%v|%s", sha(tbs), s.Alg.Name, signer, s.BadSig, s.Forge)
}

func sha(b []byte) []byte {
	h := crypto.SHA256.New()
	h.Write(b)
	return h.Sum(nil)
}

// PEM armours der in 64-column lines with the chosen line ending.
func PEM(der []byte, crlf bool) []byte {
	p := pem.EncodeToMemory(&pem.Block{Type: "X509 CRL", Bytes: der})
	if crlf {
		p = bytes.ReplaceAll(p, []byte("\n"), []byte("\r\n"))
	}
	return p
}

// SimpleCRL is the common case: v2, AKI + number, signed by ca, listing serials.
func SimpleCRL(ca *Ident, number int64, serials ...int64) *CRLSpec {
	// as with a real CA, a list with a higher number was issued later (thisUpdate one minute apart)
	later := number
	if later < 0 {
		later = 0
	}
	if later > 50 {
		later = 50
	}
	s := &CRLSpec{
		Version:    2,
		Alg:        DefaultAlg(ca.Kind),
		IssuerRaw:  ca.Cert.RawSubject,
		ThisUpdate: vsched.Epoch.Add(-time.Hour + time.Duration(later)*time.Minute),
		NextUpdate: vsched.Epoch.Add(24 * time.Hour * 30),
		Exts:       []pkix.Extension{AKIExt(ca.Cert.SubjectKeyId, nil, nil), CRLNumberExt(number)},
		Signer:     ca.Key,
	}
	for _, n := range serials {
		s.Entries = append(s.Entries, RevEntry{Serial: big.NewInt(n), Date: vsched.Epoch.Add(-2 * time.Hour)})
	}
	return s
}

// ---------------------------------------------------------------- reference decoder

// RefCRL is what the boring whole-document decoder yields.
type RefCRL struct {
	Raw     pkix.CertificateList
	TBSRaw  []byte
	Version int // 1, 2, 3...
	Number  *big.Int
}

// DecodeCRL decodes DER or PEM with encoding/asn1 (whole document).
func DecodeCRL(data []byte) (*RefCRL, error) {
	if bytes.HasPrefix(bytes.TrimLeft(data, " \r\n\t"), []byte("-----BEGIN")) {
		blk, _ := pem.Decode(data)
		if blk == nil {
			return nil, fmt.Errorf("ref: no PEM block")
		}
		data = blk.Bytes
	}
	r := &RefCRL{}
	rest, err := asn1.Unmarshal(data, &r.Raw)
	if err != nil {
		return nil, err
	}
	if len(rest) != 0 {
		return nil, fmt.Errorf("ref: trailing data")
	}
	r.TBSRaw = r.Raw.TBSCertList.Raw
	r.Version = r.Raw.TBSCertList.Version + 1
	for _, e := range r.Raw.TBSCertList.Extensions {
		if e.Id.Equal(asn1.ObjectIdentifier{2, 5, 29, 20}) {
			n := new(big.Int)
			if _, err := asn1.Unmarshal(e.Value, &n); err == nil {
				r.Number = n
			}
		}
	}
	return r, nil
}
