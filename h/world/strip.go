package world

import (
	"crypto"
	"crypto/ecdsa"
	"crypto/rsa"
	"crypto/x509"
	"crypto/x509/pkix"
	"encoding/asn1"
	"fmt"
	"math/big"
)

type tbsCertificate struct {
	Raw                asn1.RawContent
	Version            int `asn1:"optional,explicit,default:0,tag:0"`
	SerialNumber       *big.Int
	SignatureAlgorithm pkix.AlgorithmIdentifier
	Issuer             asn1.RawValue
	Validity           asn1.RawValue
	Subject            asn1.RawValue
	PublicKey          asn1.RawValue
	UniqueId           asn1.BitString   `asn1:"optional,tag:1"`
	SubjectUniqueId    asn1.BitString   `asn1:"optional,tag:2"`
	Extensions         []pkix.Extension `asn1:"omitempty,optional,explicit,tag:3"`
}

type certificateASN1 struct {
	TBS                tbsCertificate
	SignatureAlgorithm pkix.AlgorithmIdentifier
	SignatureValue     asn1.BitString
}

var stripCache = map[string]*Ident{}

// WithoutExtension re-issues id's certificate without the extension oid
// (x509.CreateCertificate cannot omit AKI/SKI), signed again by signer.
func WithoutExtension(id *Ident, signer *Ident, oid asn1.ObjectIdentifier) *Ident {
	key := fmt.Sprintf("%p|%p|%v", id, signer, oid)
	certMu.Lock()
	if r, ok := stripCache[key]; ok {
		certMu.Unlock()
		return r
	}
	certMu.Unlock()
	var c certificateASN1
	if _, err := asn1.Unmarshal(id.Cert.Raw, &c); err != nil {
		panic(err)
	}
	var exts []pkix.Extension
	for _, e := range c.TBS.Extensions {
		if !e.Id.Equal(oid) {
			exts = append(exts, e)
		}
	}
	c.TBS.Extensions = exts
	c.TBS.Raw = nil
	tbs, err := asn1.Marshal(c.TBS)
	if err != nil {
		panic(err)
	}
	var h crypto.Hash = crypto.SHA256
	d := h.New()
	d.Write(tbs)
	var sig []byte
	switch k := signer.Key.(type) {
	case *rsa.PrivateKey:
		sig, err = rsa.SignPKCS1v15(DetRand, k, h, d.Sum(nil))
	case *ecdsa.PrivateKey:
		sig, err = ecdsa.SignASN1(DetRand, k, d.Sum(nil))
	}
	if err != nil {
		panic(err)
	}
	out, err := asn1.Marshal(struct {
		TBS asn1.RawValue
		Alg pkix.AlgorithmIdentifier
		Sig asn1.BitString
	}{asn1.RawValue{FullBytes: tbs}, c.SignatureAlgorithm, asn1.BitString{Bytes: sig, BitLength: len(sig) * 8}})
	if err != nil {
		panic(err)
	}
	cert, err := x509.ParseCertificate(out)
	if err != nil {
		panic(err)
	}
	r := &Ident{Cert: cert, Key: id.Key, Kind: id.Kind}
	certMu.Lock()
	stripCache[key] = r
	certMu.Unlock()
	return r
}

var OIDAKI = asn1.ObjectIdentifier{2, 5, 29, 35}
var OIDSKI = asn1.ObjectIdentifier{2, 5, 29, 14}
