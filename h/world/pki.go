// Package world is the closed environment of every driver: a fixed PKI, a CRL
// builder able to produce hostile shapes, an OCSP responder script and a
// scripted http.RoundTripper installed as http.DefaultTransport.
package world

import (
	"crypto"
	"crypto/ecdsa"
	"crypto/rsa"
	"crypto/sha1"
	"crypto/x509"
	"crypto/x509/pkix"
	"encoding/asn1"
	"encoding/base64"
	"fmt"
	"math/big"
	"sync"
	"time"

	"verif/h/rt/vsched"
)

var (
	keyOnce sync.Once
	rsaKeys []*rsa.PrivateKey
	ecKeys  []*ecdsa.PrivateKey
)

func loadKeys() {
	keyOnce.Do(func() {
		for _, s := range rsaKeysB64 {
			b, _ := base64.StdEncoding.DecodeString(s)
			k, err := x509.ParsePKCS1PrivateKey(b)
			if err != nil {
				panic(err)
			}
			rsaKeys = append(rsaKeys, k)
		}
		for _, s := range ecKeysB64 {
			b, _ := base64.StdEncoding.DecodeString(s)
			k, err := x509.ParseECPrivateKey(b)
			if err != nil {
				panic(err)
			}
			ecKeys = append(ecKeys, k)
		}
	})
}

// Key returns fixed key #i of the given kind ("rsa" or "ec").
func Key(kind string, i int) crypto.Signer {
	loadKeys()
	if kind == "rsa" {
		return rsaKeys[i%len(rsaKeys)]
	}
	return ecKeys[i%len(ecKeys)]
}

// Ident is a certificate plus its private key.
type Ident struct {
	Cert *x509.Certificate
	Key  crypto.Signer
	Kind string
}

type CertOpt struct {
	CN         string
	Subject    *pkix.Name // overrides CN
	RawSubject []byte
	Serial     *big.Int
	IsCA       bool
	KeyKind    string // "rsa"/"ec"
	KeyIdx     int
	KeyUsage   x509.KeyUsage // 0 with NoKeyUsage=false => default for role
	NoKeyUsage bool
	NoBC       bool // omit basicConstraints
	ExtKeyUsage []x509.ExtKeyUsage
	NoSKI      bool
	NoAKI      bool
	SKI        []byte // override
	CDP        []string
	OCSP       []string
	IssuerURL  []string // authorityInfoAccess caIssuers
	NotBefore, NotAfter time.Time
	ExtraExt   []pkix.Extension
}

var certCache = map[string]*Ident{}
var certMu sync.Mutex

// Issue creates (memoised on the option tuple) a certificate signed by parent
// (nil = self-signed).
func Issue(parent *Ident, o CertOpt) *Ident {
	key := fmt.Sprintf("%p|%+v", parent, o)
	certMu.Lock()
	if id, ok := certCache[key]; ok {
		certMu.Unlock()
		return id
	}
	certMu.Unlock()
	if o.KeyKind == "" {
		o.KeyKind = "ec"
	}
	k := Key(o.KeyKind, o.KeyIdx)
	if o.Serial == nil {
		o.Serial = big.NewInt(1000)
	}
	nb, na := o.NotBefore, o.NotAfter
	if nb.IsZero() {
		nb = vsched.Epoch.Add(-24 * time.Hour * 365)
	}
	if na.IsZero() {
		na = vsched.Epoch.Add(24 * time.Hour * 365 * 5)
	}
	subj := pkix.Name{CommonName: o.CN, Organization: []string{"verif"}}
	if o.Subject != nil {
		subj = *o.Subject
	}
	tpl := &x509.Certificate{
		SerialNumber:          o.Serial,
		Subject:               subj,
		RawSubject:            o.RawSubject,
		NotBefore:             nb,
		NotAfter:              na,
		IsCA:                  o.IsCA,
		BasicConstraintsValid: !o.NoBC,
		CRLDistributionPoints: o.CDP,
		OCSPServer:            o.OCSP,
		IssuingCertificateURL: o.IssuerURL,
		ExtKeyUsage:           o.ExtKeyUsage,
		ExtraExtensions:       o.ExtraExt,
	}
	if !o.NoKeyUsage {
		tpl.KeyUsage = o.KeyUsage
		if tpl.KeyUsage == 0 {
			if o.IsCA {
				tpl.KeyUsage = x509.KeyUsageCertSign | x509.KeyUsageCRLSign | x509.KeyUsageDigitalSignature
			} else {
				tpl.KeyUsage = x509.KeyUsageDigitalSignature
			}
		}
	}
	if !o.NoSKI {
		tpl.SubjectKeyId = o.SKI
		if tpl.SubjectKeyId == nil {
			tpl.SubjectKeyId = SKIOf(k.Public())
		}
	}
	signer := k
	parentCert := tpl
	if parent != nil {
		signer = parent.Key
		parentCert = parent.Cert
		if !o.NoAKI {
			tpl.AuthorityKeyId = parent.Cert.SubjectKeyId
		}
	}
	der, err := x509.CreateCertificate(DetRand, tpl, parentCert, k.Public(), signer)
	if err != nil {
		panic(fmt.Sprintf("world.Issue %+v: %v", o, err))
	}
	c, err := x509.ParseCertificate(der)
	if err != nil {
		panic(err)
	}
	id := &Ident{Cert: c, Key: k, Kind: o.KeyKind}
	certMu.Lock()
	certCache[key] = id
	certMu.Unlock()
	return id
}

// zeroReader makes ECDSA signing deterministic (Go derives the nonce from the key, the digest and
// this "entropy"): the same case produces byte-identical documents in every process and run.
type zeroReader struct{}

func (zeroReader) Read(p []byte) (int, error) {
	for i := range p {
		p[i] = 0
	}
	return len(p), nil
}

// DetRand is the deterministic entropy source used for every signature of the harness PKI.
var DetRand zeroReader

func SKIOf(pub crypto.PublicKey) []byte {
	b, _ := x509.MarshalPKIXPublicKey(pub)
	var spki struct {
		Alg pkix.AlgorithmIdentifier
		Key asn1.BitString
	}
	asn1.Unmarshal(b, &spki)
	h := sha1.Sum(spki.Key.Bytes)
	return h[:]
}

// PKI is the standard cast used by most drivers.
type PKI struct {
	Root      *Ident // self-signed root, EC
	CA        *Ident // issuing CA (EC key 1), signed by Root
	CARSA     *Ident // issuing CA with RSA key
	Sibling   *Ident // same subject DN as CA, other key, signed by Root
	OtherCA   *Ident // unrelated CA (other DN, other key), self-signed
	Stranger  *Ident // self-signed end-entity, unrelated
}

var stdPKI *PKI
var pkiOnce sync.Once

func Std() *PKI {
	pkiOnce.Do(func() {
		p := &PKI{}
		p.Root = Issue(nil, CertOpt{CN: "verif root", IsCA: true, KeyKind: "ec", KeyIdx: 0, Serial: big.NewInt(1)})
		p.CA = Issue(p.Root, CertOpt{CN: "verif issuing CA", IsCA: true, KeyKind: "ec", KeyIdx: 1, Serial: big.NewInt(2)})
		p.CARSA = Issue(p.Root, CertOpt{CN: "verif issuing CA rsa", IsCA: true, KeyKind: "rsa", KeyIdx: 0, Serial: big.NewInt(3)})
		p.Sibling = Issue(p.Root, CertOpt{CN: "verif issuing CA", IsCA: true, KeyKind: "ec", KeyIdx: 2, Serial: big.NewInt(4)})
		p.OtherCA = Issue(nil, CertOpt{CN: "other CA", IsCA: true, KeyKind: "ec", KeyIdx: 3, Serial: big.NewInt(5)})
		p.Stranger = Issue(nil, CertOpt{CN: "stranger", KeyKind: "ec", KeyIdx: 4, Serial: big.NewInt(6)})
		stdPKI = p
	})
	return stdPKI
}

// Leaf issues an end-entity certificate under ca.
func Leaf(ca *Ident, serial *big.Int, cdp, ocsp []string) *Ident {
	return Issue(ca, CertOpt{CN: "client " + serial.String(), Serial: serial, KeyKind: "ec", KeyIdx: 5, CDP: cdp, OCSP: ocsp})
}

// Chain builds the verified-chains argument [[leaf, ca..., root]].
func Chain(certs ...*Ident) [][]*x509.Certificate {
	var c []*x509.Certificate
	for _, id := range certs {
		c = append(c, id.Cert)
	}
	return [][]*x509.Certificate{c}
}

// RawDN encodes a distinguished name with exactly the given attributes in the given order, one
// attribute per RDN: RawDN("CN", "x", "O", "verif"). Used for names which are distinct on the wire
// but collide under lossy renderings (attribute order, repeated CN, letter case).
// RawDNT61 is RawDN with every value encoded as TeletexString (T61String, tag 20), the bytes of the value taken as they
// are (Latin-1 names of old CAs: not valid UTF-8).
func RawDNT61(pairs ...string) []byte {
	oid := map[string]asn1.ObjectIdentifier{"O": {2, 5, 4, 10}, "CN": {2, 5, 4, 3}}
	var rdns []byte
	for i := 0; i+1 < len(pairs); i += 2 {
		o, _ := asn1.Marshal(oid[pairs[i]])
		v := append([]byte{20, byte(len(pairs[i+1]))}, pairs[i+1]...)
		atv := append([]byte{0x30, byte(len(o) + len(v))}, append(o, v...)...)
		set := append([]byte{0x31, byte(len(atv))}, atv...)
		rdns = append(rdns, set...)
	}
	return append([]byte{0x30, byte(len(rdns))}, rdns...)
}

func RawDN(pairs ...string) []byte {
	oid := map[string]asn1.ObjectIdentifier{"C": {2, 5, 4, 6}, "O": {2, 5, 4, 10}, "OU": {2, 5, 4, 11}, "CN": {2, 5, 4, 3}, "L": {2, 5, 4, 7}, "SERIALNUMBER": {2, 5, 4, 5}}
	var seq pkix.RDNSequence
	for i := 0; i+1 < len(pairs); i += 2 {
		o, ok := oid[pairs[i]]
		if !ok {
			panic("world.RawDN: unknown attribute " + pairs[i])
		}
		seq = append(seq, pkix.RelativeDistinguishedNameSET{{Type: o, Value: pairs[i+1]}})
	}
	b, err := asn1.Marshal(seq)
	if err != nil {
		panic(err)
	}
	return b
}
