// racepass: the free-running complement of the C13 schedule exploration.
//
// The cooperative scheduler of vsched only sees accesses the instrumenter hooked
// (fields of repository structs, package variables) and its hand-offs are
// happens-before edges for Go's own race detector. This program therefore runs
// the same kind of scenario bodies (handshakes || ticker refresh || background
// fetch || Cleanup, OCSP lookups || Cleanup, two validator instances) on the
// UNINSTRUMENTED repository code with real goroutines, real sync and the real
// clock, built with -race. It decides nothing by itself (the schedules it sees
// are whatever the runtime produces); what it contributes is the detector's
// happens-before analysis of every memory access of the executed paths,
// including bytes and third-party structures the hooks cannot see.
//
// Output: one JSON line {"scenarios":…, "lookups":…, "panics":[…]}; the race
// reports are written by the runtime to $GORACE log_path files.
package main

import (
	"bytes"
	"context"
	"crypto/x509"
	"encoding/json"
	"encoding/pem"
	"errors"
	"fmt"
	"io"
	"math/big"
	"net/http"
	"os"
	"path/filepath"
	"sync"
	"sync/atomic"
	"time"

	"github.com/caddyserver/caddy/v2"
	"go.uber.org/zap"
	xocsp "golang.org/x/crypto/ocsp"

	revocation "github.com/gr33nbl00d/caddy-revocation-validator"
	"github.com/gr33nbl00d/caddy-revocation-validator/config"
	"github.com/gr33nbl00d/caddy-revocation-validator/crl"
	"github.com/gr33nbl00d/caddy-revocation-validator/ocsp"

	"verif/h/world"
)

// origin is a goroutine-safe scripted transport.
type origin struct {
	mu     sync.Mutex
	routes map[string]func(req *http.Request, body []byte) (int, []byte, error)
	hits   int64
}

var errRefused = errors.New("dial tcp: connection refused (scripted)")

func (o *origin) set(url string, f func(req *http.Request, body []byte) (int, []byte, error)) {
	o.mu.Lock()
	o.routes[url] = f
	o.mu.Unlock()
}

func (o *origin) serve(url string, doc []byte) {
	o.set(url, func(*http.Request, []byte) (int, []byte, error) { return 200, doc, nil })
}

func (o *origin) RoundTrip(req *http.Request) (*http.Response, error) {
	var body []byte
	if req.Body != nil {
		body, _ = io.ReadAll(req.Body)
		req.Body.Close()
	}
	o.mu.Lock()
	f := o.routes[req.URL.String()]
	o.mu.Unlock()
	atomic.AddInt64(&o.hits, 1)
	if f == nil {
		return nil, errRefused
	}
	status, out, err := f(req, body)
	if err != nil {
		return nil, err
	}
	return &http.Response{Status: fmt.Sprintf("%d scripted", status), StatusCode: status, Proto: "HTTP/1.1", ProtoMajor: 1, ProtoMinor: 1,
		Header: http.Header{}, Body: io.NopCloser(bytes.NewReader(out)), ContentLength: -1, Request: req}, nil
}

var (
	lookups int64
	panicMu sync.Mutex
	panics  []string
)

func guard(where string, f func()) {
	defer func() {
		if r := recover(); r != nil {
			panicMu.Lock()
			panics = append(panics, fmt.Sprintf("%s: %v", where, r))
			panicMu.Unlock()
		}
	}()
	f()
}

const (
	urlA    = "http://crl.test/a.crl"
	urlB    = "http://crl.test/b.crl"
	urlCfg  = "http://crl.test/configured.crl"
	ocspURL = "http://ocsp.test/r"
)

func bi(n int64) *big.Int { return big.NewInt(n) }

// crlScenario: handshakes || ticker refreshes (origin flips between two versions) || Cleanup.
func crlScenario(o *origin, dir string, disk, background, configured bool, d time.Duration) {
	p := world.Std()
	v1 := world.SimpleCRL(p.CA, 1, 101, 105).DER()
	v2 := world.SimpleCRL(p.CA, 2, 101, 102).DER()
	vb := world.SimpleCRL(p.CA, 1, 201).DER()
	o.serve(urlA, v1)
	o.serve(urlB, vb)
	o.serve(urlCfg, world.SimpleCRL(p.CA, 1, 301).DER())
	st := config.Memory
	if disk {
		st = config.Disk
	}
	fetch := config.CRLFetchModeActively
	if background {
		fetch = config.CRLFetchModeBackground
	}
	cfg := &config.CRLConfig{WorkDir: dir, CDPConfig: &config.CDPConfig{CRLFetchModeParsed: fetch}, SignatureValidationModeParsed: config.SignatureValidationModeVerify,
		StorageTypeParsed: st, UpdateIntervalParsed: 15 * time.Millisecond,
		// three trusted signers besides the CA itself (four: a list with spare capacity if somebody appends to it)
		TrustedSignatureCerts: []*x509.Certificate{p.CA.Cert, p.OtherCA.Cert, p.CARSA.Cert}}
	if configured {
		cfg.CRLUrls = []string{urlCfg}
	}
	chk := &crl.CRLRevocationChecker{}
	if err := chk.Provision(cfg, zap.NewNop()); err != nil {
		panicMu.Lock()
		panics = append(panics, "crl scenario: Provision: "+err.Error())
		panicMu.Unlock()
		return
	}
	leaves := []*world.Ident{
		world.Leaf(p.CA, bi(101), []string{urlA}, nil), world.Leaf(p.CA, bi(105), []string{urlA}, nil), world.Leaf(p.CA, bi(102), []string{urlA}, nil),
		world.Leaf(p.CA, bi(109), []string{urlA}, nil), world.Leaf(p.CA, bi(201), []string{urlB}, nil), world.Leaf(p.CA, bi(301), nil, nil),
	}
	stop := make(chan struct{})
	var wg sync.WaitGroup
	for g := 0; g < 4; g++ {
		wg.Add(1)
		go func(g int) {
			defer wg.Done()
			for i := 0; ; i++ {
				select {
				case <-stop:
					return
				default:
				}
				l := leaves[(i+g)%len(leaves)]
				guard("CRLRevocationChecker.IsRevoked", func() { chk.IsRevoked(l.Cert, world.Chain(l, p.CA, p.Root)) })
				atomic.AddInt64(&lookups, 1)
			}
		}(g)
	}
	wg.Add(1)
	go func() { // the publisher: the origin alternates between the two versions, sometimes garbage, sometimes down
		defer wg.Done()
		for i := 0; ; i++ {
			select {
			case <-stop:
				return
			case <-time.After(7 * time.Millisecond):
			}
			switch i % 5 {
			case 0, 2:
				o.serve(urlA, v2)
			case 1, 4:
				o.serve(urlA, v1)
			case 3:
				o.serve(urlA, []byte{0x30, 0x82, 0xff, 0xff, 1, 2, 3})
			}
		}
	}()
	time.Sleep(d)
	guard("CRLRevocationChecker.Cleanup", func() { chk.Cleanup() }) // while the handshakes are still running
	time.Sleep(d / 6)
	close(stop)
	wg.Wait()
}

// ocspScenario: lookups of several certificates on two checkers sharing the process-wide cache || Cleanup of one.
func ocspScenario(o *origin, d time.Duration) {
	p := world.Std()
	leaves := []*world.Ident{world.Leaf(p.CA, bi(5000), nil, []string{ocspURL}), world.Leaf(p.CA, bi(5001), nil, []string{ocspURL}), world.Leaf(p.CA, bi(5002), nil, []string{ocspURL})}
	o.set(ocspURL, func(req *http.Request, body []byte) (int, []byte, error) {
		r, err := xocsp.ParseRequest(body)
		if err != nil {
			return 400, []byte("bad request"), nil
		}
		st := xocsp.Good
		if r.SerialNumber.Int64() == 5000 {
			st = xocsp.Revoked
		}
		return 200, world.BuildOCSP(world.OCSPAnswer{Status: st, Serial: r.SerialNumber, Issuer: p.CA, Signer: p.CA, ThisUpdate: time.Now().Add(-time.Minute)}), nil
	})
	mk := func() *ocsp.OCSPRevocationChecker {
		c := &ocsp.OCSPRevocationChecker{}
		if err := c.Provision(&config.OCSPConfig{DefaultCacheDurationParsed: 20 * time.Millisecond, TrustedResponderCerts: []*x509.Certificate{}}, zap.NewNop()); err != nil {
			panic(err)
		}
		return c
	}
	a, b := mk(), mk()
	stop := make(chan struct{})
	var wg sync.WaitGroup
	for g := 0; g < 6; g++ {
		wg.Add(1)
		go func(g int) {
			defer wg.Done()
			c := a
			if g%3 == 2 {
				c = b
			}
			for i := 0; ; i++ {
				select {
				case <-stop:
					return
				default:
				}
				l := leaves[(i+g)%len(leaves)]
				var st string
				guard("OCSPRevocationChecker.IsRevoked", func() {
					s, err := c.IsRevoked(l.Cert, world.Chain(l, p.CA, p.Root))
					if err == nil && s != nil {
						st = fmt.Sprint(s.Revoked)
					}
				})
				// a responder which always answers: the verdict of a lookup on the live instance is fixed per certificate
				if c == a && st != "" && st != fmt.Sprint(l.Cert.SerialNumber.Int64() == 5000) {
					panicMu.Lock()
					panics = append(panics, fmt.Sprintf("OCSP verdict for serial %s was revoked=%s", l.Cert.SerialNumber, st))
					panicMu.Unlock()
				}
				atomic.AddInt64(&lookups, 1)
			}
		}(g)
	}
	time.Sleep(d)
	guard("OCSPRevocationChecker.Cleanup", func() { b.Cleanup() })
	time.Sleep(d / 4)
	close(stop)
	wg.Wait()
	a.Cleanup()
}

// moduleScenario: two instances of the caddy module (own work_dirs), handshakes on both || Cleanup of one.
func moduleScenario(o *origin, base string, d time.Duration) {
	p := world.Std()
	o.serve(urlA, world.SimpleCRL(p.CA, 1, 101).DER())
	caFile := filepath.Join(base, "ca.pem")
	os.WriteFile(caFile, pem.EncodeToMemory(&pem.Block{Type: "CERTIFICATE", Bytes: p.CA.Cert.Raw}), 0644)
	mk := func(name string, storage string) (*revocation.CertRevocationValidator, context.CancelFunc) {
		dir := filepath.Join(base, name)
		os.MkdirAll(dir, 0755)
		v := &revocation.CertRevocationValidator{Mode: "prefer_ocsp",
			CRLConfig:  &config.CRLConfig{WorkDir: dir, StorageType: storage, UpdateInterval: "20ms", TrustedSignatureCertsFiles: []string{caFile}},
			OCSPConfig: &config.OCSPConfig{DefaultCacheDuration: "20ms"}}
		ctx, cancel := caddy.NewContext(caddy.Context{Context: context.Background()})
		if err := v.Provision(ctx); err != nil {
			panic("module Provision: " + err.Error())
		}
		return v, cancel
	}
	v1, c1 := mk("one", "memory")
	v2, c2 := mk("two", "disk")
	defer c1()
	defer c2()
	leaves := []*world.Ident{world.Leaf(p.CA, bi(101), []string{urlA}, []string{ocspURL}), world.Leaf(p.CA, bi(5001), []string{urlA}, []string{ocspURL})}
	stop := make(chan struct{})
	var wg sync.WaitGroup
	for g := 0; g < 4; g++ {
		wg.Add(1)
		go func(g int) {
			defer wg.Done()
			v := v1
			if g%2 == 1 {
				v = v2
			}
			for i := 0; ; i++ {
				select {
				case <-stop:
					return
				default:
				}
				l := leaves[(i+g)%len(leaves)]
				guard("VerifyClientCertificate", func() { v.VerifyClientCertificate([][]byte{l.Cert.Raw}, world.Chain(l, p.CA, p.Root)) })
				atomic.AddInt64(&lookups, 1)
			}
		}(g)
	}
	time.Sleep(d)
	guard("CertRevocationValidator.Cleanup", func() { v2.Cleanup() })
	time.Sleep(d / 4)
	close(stop)
	wg.Wait()
	v1.Cleanup()
}

func main() {
	base := os.Args[1]
	d := 250 * time.Millisecond
	if len(os.Args) > 2 && os.Args[2] == "thorough" {
		d = 1500 * time.Millisecond
	}
	o := &origin{routes: map[string]func(*http.Request, []byte) (int, []byte, error){}}
	http.DefaultTransport = o
	http.DefaultClient = &http.Client{Transport: o}
	n := 0
	for _, disk := range []bool{false, true} {
		for _, background := range []bool{false, true} {
			for _, configured := range []bool{false, true} {
				dir := filepath.Join(base, fmt.Sprintf("crl-%v-%v-%v", disk, background, configured))
				os.MkdirAll(dir, 0755)
				crlScenario(o, dir, disk, background, configured, d)
				n++
			}
		}
	}
	ocspScenario(o, d)
	n++
	moduleScenario(o, base, d)
	n++
	b, _ := json.Marshal(map[string]interface{}{"scenarios": n, "lookups": atomic.LoadInt64(&lookups), "origin_requests": atomic.LoadInt64(&o.hits), "panics": panics})
	fmt.Println(string(b))
}
