// vcheck: one binary, one sub-command per property.
package main

import (
	"flag"
	"fmt"
	"os"
	"runtime"
	"runtime/pprof"

	"verif/h/drivers"
)

func main() {
	if len(os.Args) < 2 {
		fmt.Fprintln(os.Stderr, "usage: check <Cxx> [--tier quick|thorough] [--replay file]")
		os.Exit(2)
	}
	id := os.Args[1]
	fs := flag.NewFlagSet("check", flag.ExitOnError)
	tier := fs.String("tier", "", "quick|thorough")
	replay := fs.String("replay", "", "replay file")
	fs.Parse(os.Args[2:])
	if *tier == "" {
		*tier = os.Getenv("VERIF_TIER")
	}
	if *tier == "" {
		*tier = "quick"
	}
	defer drivers.CleanupScratch()
	code := drivers.Dispatch(id, *tier, *replay, fs.Args())
	if p := os.Getenv("VERIF_HEAPPROF"); p != "" {
		// diagnosis of the harness itself: what is still reachable when a driver has finished
		if f, err := os.Create(p); err == nil {
			runtime.GC()
			pprof.WriteHeapProfile(f)
			f.Close()
		}
	}
	drivers.CleanupScratch()
	os.Exit(code)
}
