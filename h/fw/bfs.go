package fw

import "time"

// HStats are the counters of an explicit-state history exploration.
type HStats struct {
	States      int
	Transitions int
	MaxDepth    int
	Pruned      int // transitions that led to an already known state
	Capped      bool
	DepthDone   int
}

// BFS explores event histories breadth first. A state is identified by the
// canonical key returned by run; run(hist) must build a FRESH world, replay the
// whole history through the real code, evaluate the invariants (reporting
// violations itself) and return the canonical key of the reached state.
// expand=false stops expansion below that state (e.g. after a violation or a
// terminal event). Successors of a state are hist+[e] for e in 0..alpha-1.
func BFS(alpha, maxDepth, maxStates int, deadline time.Time, run func(hist []int) (key string, expand bool)) HStats {
	st := HStats{}
	seen := map[string]bool{}
	k0, exp0 := run(nil)
	seen[k0] = true
	st.States = 1
	frontier := [][]int{}
	if exp0 {
		frontier = append(frontier, nil)
	}
	for depth := 1; depth <= maxDepth && len(frontier) > 0; depth++ {
		var next [][]int
		for _, h := range frontier {
			for e := 0; e < alpha; e++ {
				if (maxStates > 0 && st.States >= maxStates) || (!deadline.IsZero() && time.Now().After(deadline)) {
					st.Capped = true
					return st
				}
				nh := append(append(make([]int, 0, len(h)+1), h...), e)
				key, expand := run(nh)
				st.Transitions++
				if key == "" {
					continue // event not enabled in this state
				}
				if seen[key] {
					st.Pruned++
					continue
				}
				seen[key] = true
				st.States++
				if depth > st.MaxDepth {
					st.MaxDepth = depth
				}
				if expand {
					next = append(next, nh)
				}
			}
		}
		frontier = next
		st.DepthDone = depth
	}
	return st
}
