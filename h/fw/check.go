package fw

import (
	"bufio"
	"crypto/sha256"
	"encoding/hex"
	"encoding/json"
	"fmt"
	"os"
	"path/filepath"
	"sort"
	"strconv"
	"strings"
	"time"
)

// VerifDir is where evidence, replays and known_findings.jsonl live (VERIF_HOME lets a snapshot of /verif run on its own).
var VerifDir = func() string {
	if d := os.Getenv("VERIF_HOME"); d != "" {
		return d
	}
	return "/verif"
}()

type Finding struct {
	Kind      string `json:"kind"` // "known" | "fixed"
	Property  string `json:"property"`
	Signature string `json:"signature"`
	What      string `json:"what"`
	Commit    string `json:"commit,omitempty"`
	Line      string `json:"line,omitempty"`
}

type violation struct {
	Sig    string
	What   string
	Replay interface{}
	Count  int
}

// Check is the per-run bookkeeping of one property check.
type Check struct {
	ID          string
	Tier        string
	Seed        int
	Level       string
	Start       time.Time
	viol        map[string]*violation
	order       []string
	known       map[string]Finding
	Assumptions []string
	Notes       []string
}

func NewCheck(id, tier, level string) *Check {
	seed := 0
	if s := os.Getenv("VERIF_SEED"); s != "" {
		seed, _ = strconv.Atoi(s)
	}
	c := &Check{ID: id, Tier: tier, Seed: seed, Level: level, Start: time.Now(), viol: map[string]*violation{}, known: map[string]Finding{}}
	f, err := os.Open(filepath.Join(VerifDir, "known_findings.jsonl"))
	if err == nil {
		defer f.Close()
		sc := bufio.NewScanner(f)
		sc.Buffer(make([]byte, 1<<20), 1<<20)
		for sc.Scan() {
			line := strings.TrimSpace(sc.Text())
			if line == "" || strings.HasPrefix(line, "#") {
				continue
			}
			var fd Finding
			if json.Unmarshal([]byte(line), &fd) == nil && fd.Kind == "known" && fd.Property == id {
				c.known[fd.Signature] = fd
			}
		}
	}
	return c
}

// Violation records a property violation. sig identifies the defect (stable
// coordinates: class + call sites / minimal failing features), what is the
// human description, replay any JSON-able value that reproduces it.
func (c *Check) Violation(sig, what string, replay interface{}) {
	if v, ok := c.viol[sig]; ok {
		v.Count++
		return
	}
	c.viol[sig] = &violation{Sig: sig, What: what, Replay: replay, Count: 1}
	c.order = append(c.order, sig)
}

func (c *Check) HasViolation(sig string) bool { _, ok := c.viol[sig]; return ok }

func (c *Check) NumViolations() int { return len(c.viol) }

type Coverage map[string]interface{}

// Finish writes the evidence file, prints KNOWN-FINDING / VIOLATION lines and
// returns the process exit code.
func (c *Check) Finish(cov Coverage) int {
	unknown := 0
	sort.Strings(c.order)
	var knownSeen []string
	for _, sig := range c.order {
		v := c.viol[sig]
		if k, ok := c.known[sig]; ok {
			fmt.Printf("KNOWN-FINDING: property=%s %s [%s] (seen %d times)\n", c.ID, k.What, sig, v.Count)
			knownSeen = append(knownSeen, sig)
			continue
		}
		unknown++
		path := c.writeReplay(v)
		fmt.Printf("VIOLATION property=%s replay=%s\n", c.ID, path)
		fmt.Printf("  signature: %s\n  what: %s\n  occurrences: %d\n", sig, v.What, v.Count)
	}
	var stale []string
	for sig := range c.known {
		if _, ok := c.viol[sig]; !ok {
			stale = append(stale, sig)
		}
	}
	sort.Strings(stale)
	for _, s := range stale {
		fmt.Printf("note: listed known finding not observed in this run (%s tier): %s\n", c.Tier, s)
	}
	cov["known_findings_observed"] = knownSeen
	cov["known_findings_not_observed"] = stale
	ev := map[string]interface{}{
		"property_id": c.ID,
		"tier":        c.Tier,
		"seed":        c.Seed,
		"level":       c.Level,
		"coverage":    cov,
		"assumptions": c.Assumptions,
		"wall_s":      time.Since(c.Start).Seconds(),
		"violations":  unknown,
	}
	if c.Assumptions == nil {
		ev["assumptions"] = []string{}
	}
	b, _ := json.MarshalIndent(ev, "", " ")
	evDir := filepath.Join(VerifDir, "evidence")
	if d := os.Getenv("VERIF_EVIDENCE_DIR"); d != "" {
		evDir = d // trials of seeded changes must not overwrite the evidence of the real tree
	}
	os.MkdirAll(evDir, 0755)
	if err := os.WriteFile(filepath.Join(evDir, c.ID+".json"), b, 0644); err != nil {
		fmt.Fprintln(os.Stderr, "cannot write evidence:", err)
		return 2
	}
	fmt.Printf("%s %s: %s wall=%.1fs violations=%d known=%d\n", c.ID, c.Tier, summary(cov), time.Since(c.Start).Seconds(), unknown, len(knownSeen))
	if unknown > 0 {
		return 1
	}
	return 0
}

func summary(cov Coverage) string {
	var parts []string
	for _, k := range []string{"states", "transitions", "evaluations", "distinct_nontrivial", "executions", "exhaustive"} {
		if v, ok := cov[k]; ok {
			parts = append(parts, fmt.Sprintf("%s=%v", k, v))
		}
	}
	return strings.Join(parts, " ")
}

func (c *Check) writeReplay(v *violation) string {
	h := sha256.Sum256([]byte(v.Sig))
	name := fmt.Sprintf("%s-%s.json", c.ID, hex.EncodeToString(h[:6]))
	dir := filepath.Join(VerifDir, "replays")
	if d := os.Getenv("VERIF_EVIDENCE_DIR"); d != "" {
		dir = filepath.Join(d, "replays")
	}
	os.MkdirAll(dir, 0755)
	path := filepath.Join(dir, name)
	b, _ := json.MarshalIndent(map[string]interface{}{
		"property":  c.ID,
		"signature": v.Sig,
		"what":      v.What,
		"replay":    v.Replay,
	}, "", " ")
	os.WriteFile(path, b, 0644)
	return path
}

// Distinct counts distinct strings (used for distinct_nontrivial style counters).
type Distinct struct{ m map[string]int }

func NewDistinct() *Distinct     { return &Distinct{m: map[string]int{}} }
func (d *Distinct) Add(s string) { d.m[s]++ }
func (d *Distinct) N() int       { return len(d.m) }
func (d *Distinct) Keys() []string {
	var k []string
	for s := range d.m {
		k = append(k, s)
	}
	sort.Strings(k)
	return k
}
func (d *Distinct) Counts() map[string]int { return d.m }

// Drain hands every recorded violation to f (count times) and forgets them.
func (c *Check) Drain(f func(sig, what string, replay interface{})) {
	for _, sig := range c.order {
		v := c.viol[sig]
		for i := 0; i < v.Count; i++ {
			f(v.Sig, v.What, v.Replay)
		}
	}
	c.viol = map[string]*violation{}
	c.order = nil
}
