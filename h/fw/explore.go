// Package fw holds what every driver shares: the schedule explorer (DFS with
// iterative preemption bounding), the violation / known-finding bookkeeping
// and the evidence writer.
package fw

import (
	"fmt"
	"time"

	"verif/h/rt/vsched"
)

// replayChooser replays a prefix of choices and then always picks 0.
type replayChooser struct {
	prefix   []int
	expN     []int // expected branching factor per prefix position (0 = unknown)
	pos      int
	diverged string
}

func (r *replayChooser) Choose(n int, curFirst bool) int {
	i := r.pos
	r.pos++
	if i < len(r.prefix) {
		if i < len(r.expN) && r.expN[i] != 0 && r.expN[i] != n {
			if r.diverged == "" {
				r.diverged = fmt.Sprintf("choice point %d: expected %d enabled, saw %d", i, r.expN[i], n)
			}
		}
		c := r.prefix[i]
		if c >= n {
			if r.diverged == "" {
				r.diverged = fmt.Sprintf("choice point %d: recorded choice %d out of range %d", i, c, n)
			}
			return 0
		}
		return c
	}
	return 0
}

// Exec is one complete execution of a scenario.
type Exec struct {
	Res     *vsched.Result
	Choices []int
	Obs     interface{} // driver observation (must be comparable via fmt %v for the determinism check)
}

type ExploreStats struct {
	Executions int
	Points     int // total choice points seen
	MaxDepth   int
	BoundDone  int  // largest preemption bound completed (-1 none)
	Capped     bool // MaxExec or deadline hit
	Diverged   int
	PerBound   []int
}

// Explorer enumerates all schedules of Run with at most Bound preemptions.
type Explorer struct {
	Bound    int
	MaxExec  int
	Deadline time.Time
	// Run executes the scenario once under the given chooser and returns the observation.
	Run func(ch vsched.Chooser) (*vsched.Result, interface{})
	// OnExec is called for every execution; return false to stop exploring.
	OnExec func(x *Exec) bool
	// SwitchAt, when set, restricts alternatives to choice points for which it
	// returns true (used for the coarse-grained "sequential orderings" reference:
	// switches only where a thread ends, blocks or spawns).
	SwitchAt func(p vsched.PointRec) bool
	// Shard/NShards: the tree is split below its second level. Every process runs the root and all level-1
	// executions (they are needed to enumerate the level-2 subtrees) but reports the root only in shard 0 and the
	// level-1 execution k only in shard k mod NShards; the level-2 subtree j below k belongs to shard (k*7919+j) mod NShards.
	Shard, NShards int
	// SinglePass explores everything (no preemption bound, no iteration).
	SinglePass bool
}

type frame struct {
	prefix []int
	expN   []int
	level  int // 0 = the root execution, 1 = its alternatives, ...
	k      int // index among the alternatives of the root (level 1 only)
}

// Explore runs iterative bounding 0..Bound. Each bound b explores exactly the
// executions with <= b preemptions (re-exploring lower bounds is avoided by
// only counting executions whose cost == b when b > 0).
func (e *Explorer) Explore() ExploreStats {
	st := ExploreStats{BoundDone: -1}
	if e.SinglePass {
		n, ok := e.exploreBound(-1, &st)
		st.PerBound = append(st.PerBound, n)
		st.Capped = !ok
		if ok {
			st.BoundDone = e.Bound
		}
		return st
	}
	for b := 0; b <= e.Bound; b++ {
		n, ok := e.exploreBound(b, &st)
		st.PerBound = append(st.PerBound, n)
		if !ok {
			st.Capped = true
			return st
		}
		st.BoundDone = b
	}
	return st
}

func cost(points []vsched.PointRec, upto int) int {
	c := 0
	for i := 0; i < upto && i < len(points); i++ {
		if points[i].CurFirst && points[i].Chosen != 0 {
			c++
		}
	}
	return c
}

// exploreBound explores all executions with exactly... at most b preemptions;
// executions with fewer than b are revisited (cheap) but only reported once
// (when their own cost equals b) so counts are exact per bound.
func (e *Explorer) exploreBound(b int, st *ExploreStats) (int, bool) {
	count := 0
	stack := []frame{{}}
	root := true
	for len(stack) > 0 {
		f := stack[len(stack)-1]
		stack = stack[:len(stack)-1]
		if e.MaxExec > 0 && st.Executions >= e.MaxExec {
			return count, false
		}
		if !e.Deadline.IsZero() && time.Now().After(e.Deadline) {
			return count, false
		}
		ch := &replayChooser{prefix: f.prefix, expN: f.expN}
		res, obs := e.Run(ch)
		if ch.diverged != "" {
			st.Diverged++
			panic("fw: nondeterministic replay: " + ch.diverged)
		}
		total := cost(res.Points, len(res.Points))
		isRoot := root
		root = false
		mine := true
		if e.NShards > 1 {
			switch f.level {
			case 0:
				mine = e.Shard == 0
			case 1:
				mine = f.k%e.NShards == e.Shard
			}
		}
		if (total == b || b <= 0) && mine {
			st.Executions++
			count++
			st.Points += len(res.Points)
			if len(res.Points) > st.MaxDepth {
				st.MaxDepth = len(res.Points)
			}
			if e.OnExec != nil {
				if !e.OnExec(&Exec{Res: res, Choices: res.Choices, Obs: obs}) {
					return count, false
				}
			}
		}
		// children: alternatives at points beyond the prefix
		expN := make([]int, len(res.Points))
		for i, p := range res.Points {
			expN[i] = p.N
		}
		var kids []frame
		for i := len(res.Points) - 1; i >= len(f.prefix); i-- {
			p := res.Points[i]
			if e.SwitchAt != nil && !e.SwitchAt(p) {
				continue
			}
			c := cost(res.Points, i)
			for alt := p.N - 1; alt >= 1; alt-- {
				cc := c
				if p.CurFirst {
					cc++
				}
				if b >= 0 && cc > b {
					continue
				}
				np := make([]int, i+1)
				copy(np, res.Choices[:i])
				np[i] = alt
				kids = append(kids, frame{prefix: np, expN: expN[:i+1]})
			}
		}
		_ = isRoot
		for k, fr := range kids {
			fr.level = f.level + 1
			if e.NShards > 1 {
				switch fr.level {
				case 1:
					fr.k = k
				case 2:
					if (f.k*7919+k)%e.NShards != e.Shard {
						continue
					}
				}
			}
			stack = append(stack, fr)
		}
	}
	return count, true
}

// Replay runs one recorded choice sequence.
func Replay(choices []int, run func(ch vsched.Chooser) (*vsched.Result, interface{})) (*vsched.Result, interface{}, string) {
	ch := &replayChooser{prefix: choices}
	res, obs := run(ch)
	return res, obs, ch.diverged
}
