module verif/h

go 1.22

require (
	github.com/gr33nbl00d/caddy-revocation-validator v0.0.0
	github.com/syndtr/goleveldb v1.0.0
	go.uber.org/zap v1.27.0
	golang.org/x/crypto v0.23.0
)

require (
	github.com/golang/snappy v0.0.4 // indirect
	github.com/google/uuid v1.6.0 // indirect
	github.com/muesli/cache2go v0.0.0-20221011235721-518229cd8021 // indirect
	go.uber.org/multierr v1.11.0 // indirect
)

replace github.com/gr33nbl00d/caddy-revocation-validator => /repo

replace github.com/muesli/cache2go => ./third_party/cache2go
