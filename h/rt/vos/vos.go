// Package vos replaces "os" in instrumented code. Every mutating file-system
// call is an *effect point* (schedule point on request, fault / crash
// injection point, and an entry in the touched-path log); everything else
// forwards to the real package (forward_gen.go).
package vos

import (
	"io/fs"
	real "os"

	"verif/h/rt/vsched"
)

// Touched is the log of (kind, path) of every file-system call made through
// this shim since the last ResetTouched.
type Touch struct{ Kind, Path string }

var Touched []Touch
var LogTouches bool

func ResetTouched() { Touched = nil }

func touch(kind, path string) {
	if LogTouches {
		Touched = append(Touched, Touch{kind, path})
	}
}

func eff(kind, path string) error {
	touch(kind, path)
	return vsched.Effect(kind, path)
}

func Rename(oldpath, newpath string) error {
	touch("rename-to", newpath)
	if err := eff("rename", oldpath); err != nil {
		return err
	}
	err := real.Rename(oldpath, newpath)
	if e := vsched.Effect("rename.done", oldpath); e != nil && err == nil {
		return e
	}
	return err
}

func Remove(name string) error {
	if err := eff("remove", name); err != nil {
		return err
	}
	return real.Remove(name)
}

func RemoveAll(path string) error {
	if err := eff("removeall", path); err != nil {
		return err
	}
	err := real.RemoveAll(path)
	if e := vsched.Effect("removeall.done", path); e != nil && err == nil {
		return e
	}
	return err
}

func Mkdir(name string, perm FileMode) error {
	if err := eff("mkdir", name); err != nil {
		return err
	}
	return real.Mkdir(name, perm)
}

func MkdirAll(path string, perm FileMode) error {
	if err := eff("mkdirall", path); err != nil {
		return err
	}
	return real.MkdirAll(path, perm)
}

func MkdirTemp(dir, pattern string) (string, error) {
	if err := eff("mkdirtemp", dir); err != nil {
		return "", err
	}
	return real.MkdirTemp(dir, pattern)
}

func CreateTemp(dir, pattern string) (*File, error) {
	if err := eff("createtemp", dir); err != nil {
		return nil, err
	}
	f, err := real.CreateTemp(dir, pattern)
	if err == nil {
		touch("createtemp-name", f.Name())
	}
	return f, err
}

func Create(name string) (*File, error) {
	if err := eff("create", name); err != nil {
		return nil, err
	}
	return real.Create(name)
}

func OpenFile(name string, flag int, perm FileMode) (*File, error) {
	if flag&(real.O_WRONLY|real.O_RDWR|real.O_CREATE|real.O_TRUNC|real.O_APPEND) != 0 {
		if err := eff("openfile-w", name); err != nil {
			return nil, err
		}
	} else {
		touch("openfile-r", name)
	}
	return real.OpenFile(name, flag, perm)
}

func Open(name string) (*File, error) {
	touch("open", name)
	return real.Open(name)
}

func ReadFile(name string) ([]byte, error) {
	touch("readfile", name)
	return real.ReadFile(name)
}

func WriteFile(name string, data []byte, perm FileMode) error {
	if err := eff("writefile", name); err != nil {
		return err
	}
	return real.WriteFile(name, data, perm)
}

func Stat(name string) (FileInfo, error) {
	touch("stat", name)
	return real.Stat(name)
}

func Lstat(name string) (FileInfo, error) {
	touch("lstat", name)
	return real.Lstat(name)
}

func ReadDir(name string) ([]DirEntry, error) {
	touch("readdir", name)
	return real.ReadDir(name)
}

func Truncate(name string, size int64) error {
	if err := eff("truncate", name); err != nil {
		return err
	}
	return real.Truncate(name, size)
}

func Symlink(oldname, newname string) error {
	if err := eff("symlink", newname); err != nil {
		return err
	}
	return real.Symlink(oldname, newname)
}

func Link(oldname, newname string) error {
	if err := eff("link", newname); err != nil {
		return err
	}
	return real.Link(oldname, newname)
}

func Chmod(name string, mode FileMode) error {
	if err := eff("chmod", name); err != nil {
		return err
	}
	return real.Chmod(name, mode)
}

var _ fs.FileMode
