// Package vsync replaces "sync" in instrumented code. Mutex, RWMutex, WaitGroup
// and Once are modelled by the scheduler (blocking = not enabled); everything
// else forwards to the real package.
package vsync

import (
	"fmt"
	"sync"

	"verif/h/rt/vsched"
)

type (
	Map    = sync.Map
	Locker = sync.Locker
	Cond   = sync.Cond
)

func NewCond(l Locker) *Cond { return sync.NewCond(l) }

func OnceFunc(f func()) func() { return sync.OnceFunc(f) }

// ---------------------------------------------------------------- Pool

// Pool is a deterministic sync.Pool: Get hands out the object Put last, by whichever thread (a legal
// behaviour of the real pool, and the adversarial one for code which keeps using an object after
// putting it back); Get and Put are scheduling points.
type Pool struct {
	New   func() any
	items []any
	sv    vsched.SyncVar
}

func (p *Pool) Describe() string { return fmt.Sprintf("Pool(%d free)", len(p.items)) }

func (p *Pool) Get() any {
	if vsched.Active() {
		vsched.Point("Pool.Get", p, nil)
	}
	if n := len(p.items); n > 0 {
		x := p.items[n-1]
		p.items = p.items[:n-1]
		if vsched.Active() {
			p.sv.Acquire()
		}
		return x
	}
	if p.New != nil {
		return p.New()
	}
	return nil
}

func (p *Pool) Put(x any) {
	if x == nil {
		return
	}
	if vsched.Active() {
		vsched.Point("Pool.Put", p, nil)
		p.sv.ReleaseStore()
	}
	p.items = append(p.items, x)
	if vsched.Active() {
		// code which goes on using x after Put races with the next Get: give the other threads a turn right here
		vsched.Point("Pool.Put.done", p, nil)
	}
}

// ---------------------------------------------------------------- Mutex

type Mutex struct {
	sv     vsched.SyncVar
	locked bool
	holder int
}

func (m *Mutex) Describe() string { return fmt.Sprintf("Mutex(held by T%d)", m.holder) }

func (m *Mutex) Lock() {
	if !vsched.Active() {
		m.locked = true
		return
	}
	vsched.Point("Lock", m, func() bool { return !m.locked })
	m.locked = true
	m.holder = vsched.CurrentThread()
	m.sv.Acquire()
}

func (m *Mutex) TryLock() bool {
	if !vsched.Active() {
		if m.locked {
			return false
		}
		m.locked = true
		return true
	}
	vsched.Point("TryLock", m, nil)
	if m.locked {
		return false
	}
	m.locked = true
	m.holder = vsched.CurrentThread()
	m.sv.Acquire()
	return true
}

func (m *Mutex) Unlock() {
	if !vsched.Active() {
		m.locked = false
		return
	}
	if !m.locked {
		panic("sync: unlock of unlocked mutex")
	}
	m.sv.ReleaseStore()
	m.locked = false
}

// ---------------------------------------------------------------- RWMutex

// RWMutex follows Go's writer preference: once a writer is waiting, new
// readers block (this is what makes recursive read locking deadlock).
type RWMutex struct {
	wsv, rsv       vsched.SyncVar
	writer         bool
	holder         int
	readers        int
	readerIDs      []int
	waitingWriters int
}

func (m *RWMutex) Describe() string {
	if m.writer {
		return fmt.Sprintf("RWMutex(write-held by T%d)", m.holder)
	}
	return fmt.Sprintf("RWMutex(%d readers %v, %d writers waiting)", m.readers, m.readerIDs, m.waitingWriters)
}

func (m *RWMutex) Lock() {
	if !vsched.Active() {
		m.writer = true
		return
	}
	// Two steps, as in the real thing: arriving at the call is a scheduling point at which nothing is announced yet (a
	// thread can be preempted right before it calls Lock); only a call which finds the lock taken announces a waiting
	// writer - from then on new readers block - and waits.
	vsched.Point("Lock", m, nil)
	if m.writer || m.readers > 0 {
		m.waitingWriters++
		vsched.Point("Lock.wait", m, func() bool { return !m.writer && m.readers == 0 })
		m.waitingWriters--
	}
	m.writer = true
	m.holder = vsched.CurrentThread()
	m.wsv.Acquire()
	m.rsv.Acquire()
}

func (m *RWMutex) TryLock() bool {
	if !vsched.Active() {
		if m.writer || m.readers > 0 {
			return false
		}
		m.writer = true
		return true
	}
	vsched.Point("TryLock", m, nil)
	if m.writer || m.readers > 0 {
		return false
	}
	m.writer = true
	m.holder = vsched.CurrentThread()
	m.wsv.Acquire()
	m.rsv.Acquire()
	return true
}

func (m *RWMutex) Unlock() {
	if !vsched.Active() {
		m.writer = false
		return
	}
	if !m.writer {
		panic("sync: Unlock of unlocked RWMutex")
	}
	m.wsv.ReleaseStore()
	m.writer = false
}

func (m *RWMutex) RLock() {
	if !vsched.Active() {
		m.readers++
		return
	}
	vsched.Point("RLock", m, func() bool { return !m.writer && m.waitingWriters == 0 })
	m.readers++
	m.readerIDs = append(m.readerIDs, vsched.CurrentThread())
	m.wsv.Acquire()
}

func (m *RWMutex) TryRLock() bool {
	if !vsched.Active() {
		if m.writer {
			return false
		}
		m.readers++
		return true
	}
	vsched.Point("TryRLock", m, nil)
	if m.writer || m.waitingWriters > 0 {
		return false
	}
	m.readers++
	m.readerIDs = append(m.readerIDs, vsched.CurrentThread())
	m.wsv.Acquire()
	return true
}

func (m *RWMutex) RUnlock() {
	if !vsched.Active() {
		if m.readers > 0 {
			m.readers--
		}
		return
	}
	if m.readers <= 0 {
		panic("sync: RUnlock of unlocked RWMutex")
	}
	m.rsv.Release()
	m.readers--
	me := vsched.CurrentThread()
	for i, id := range m.readerIDs {
		if id == me {
			m.readerIDs = append(m.readerIDs[:i], m.readerIDs[i+1:]...)
			break
		}
	}
}

func (m *RWMutex) RLocker() Locker { return (*rlocker)(m) }

type rlocker RWMutex

func (r *rlocker) Lock()   { (*RWMutex)(r).RLock() }
func (r *rlocker) Unlock() { (*RWMutex)(r).RUnlock() }

// ---------------------------------------------------------------- WaitGroup

type WaitGroup struct {
	sv vsched.SyncVar
	n  int
}

func (g *WaitGroup) Describe() string { return fmt.Sprintf("WaitGroup(%d)", g.n) }

func (g *WaitGroup) Add(d int) {
	if d < 0 {
		g.sv.Release()
	}
	g.n += d
	if g.n < 0 {
		panic("sync: negative WaitGroup counter")
	}
}

func (g *WaitGroup) Done() { g.Add(-1) }

func (g *WaitGroup) Wait() {
	if !vsched.Active() {
		return
	}
	vsched.Point("Wait", g, func() bool { return g.n == 0 })
	g.sv.Acquire()
}

// ---------------------------------------------------------------- Once

type Once struct {
	m    Mutex
	done bool
}

func (o *Once) Do(f func()) {
	o.m.Lock()
	defer o.m.Unlock()
	if !o.done {
		defer func() { o.done = true }()
		f()
	}
}
