// Package vtime replaces "time" in instrumented code: the clock is the
// scheduler's virtual clock; everything that does not depend on the wall
// clock forwards to the real package (forward_gen.go).
package vtime

import (
	real "time"

	"verif/h/rt/vsched"
)

func Now() Time { return vsched.Now() }

func Since(t Time) Duration { return vsched.Now().Sub(t) }

func Until(t Time) Duration { return t.Sub(vsched.Now()) }

func Sleep(d Duration) {
	if !vsched.Active() {
		return
	}
	vsched.Sleep(d)
}

type Timer struct {
	C <-chan Time
	c chan Time
	h vsched.TimerHandle
}

func (t *Timer) Stop() bool { return t.h.Stop() }

func (t *Timer) Reset(d Duration) bool { return t.h.Reset(d) }

func NewTimer(d Duration) *Timer {
	c := make(chan Time, 1)
	t := &Timer{C: c, c: c}
	t.h = vsched.AddTimer(d, 0, func() {
		select {
		case c <- vsched.Now():
		default:
		}
	})
	return t
}

func After(d Duration) <-chan Time { return NewTimer(d).C }

// AfterFunc runs f in its own scheduled thread once the virtual clock reaches
// the deadline.
func AfterFunc(d Duration, f func()) *Timer {
	t := &Timer{}
	t.h = vsched.AddTimer(d, 0, func() {
		vsched.Go(f)
	})
	return t
}

type Ticker struct {
	C <-chan Time
	c chan Time
	h vsched.TimerHandle
}

func NewTicker(d Duration) *Ticker {
	if d <= 0 {
		panic("non-positive interval for NewTicker")
	}
	c := make(chan Time, 1)
	t := &Ticker{C: c, c: c}
	t.h = vsched.AddTimer(d, d, func() {
		select {
		case c <- vsched.Now():
		default: // drop the tick like the real ticker does
		}
	})
	return t
}

func (t *Ticker) Stop() { t.h.Stop() }

func (t *Ticker) Reset(d Duration) {
	if d <= 0 {
		panic("non-positive interval for Ticker.Reset") // as the real ticker does
	}
	t.h.Reset(d)
}

func Tick(d Duration) <-chan Time {
	if d <= 0 {
		return nil
	}
	return NewTicker(d).C
}

var _ = real.Second
