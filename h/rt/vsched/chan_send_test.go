package vsched

import "testing"

func TestUnbufferedRendezvous(t *testing.T) {
	var got []int
	res := Run(Config{Chooser: SeqChooser{}}, func() {
		ch := make(chan int)
		done := make(chan struct{})
		Go(func() {
			for {
				v, ok := Recv2(ch)
				if !ok {
					break
				}
				got = append(got, v)
			}
			Close(done)
		})
		for i := 0; i < 5; i++ {
			SendT(ch, i)
		}
		Close(ch)
		Select(false, done)
	})
	if res.Verdict != OK || len(got) != 5 || got[4] != 4 {
		t.Fatalf("verdict %v got %v detail %s", res.Verdict, got, res.Detail)
	}
}

func TestSelectDefaultSend(t *testing.T) {
	sent, dropped := 0, 0
	var got []int
	res := Run(Config{Chooser: SeqChooser{}}, func() {
		ch := make(chan int)
		Go(func() {
			for {
				v, ok := Recv2(ch)
				if !ok {
					return
				}
				got = append(got, v)
			}
		})
		for i := 0; i < 4; i++ {
			if idx, _, _ := Select(true, SendCase{Ch: ch, V: i}); idx == 0 {
				sent++
			} else {
				dropped++
			}
		}
		SendT(ch, 99)
		Close(ch)
		Drain()
	})
	if res.Verdict != OK || sent+dropped != 4 || len(got) != sent+1 || got[len(got)-1] != 99 {
		t.Fatalf("verdict %v sent %d dropped %d got %v %s", res.Verdict, sent, dropped, got, res.Detail)
	}
}

func TestBufferedSendBlocksWhenFull(t *testing.T) {
	res := Run(Config{Chooser: SeqChooser{}}, func() {
		ch := make(chan int, 1)
		SendT(ch, 1)
		SendT(ch, 2) // nobody receives: deadlock
	})
	if res.Verdict != Deadlock {
		t.Fatalf("verdict %v %s", res.Verdict, res.Detail)
	}
}
