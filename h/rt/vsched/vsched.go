// Package vsched is the cooperative scheduler under which the instrumented
// repository code runs. Exactly one "thread" (a real goroutine) runs at a time;
// every hooked synchronisation operation is a scheduling point at which a
// Chooser decides who continues. It also hosts the virtual clock and the
// happens-before (vector clock) race detector fed by the access hooks R/W.
//
// With no world active (code running outside Run) every primitive degrades to
// its plain sequential meaning, so instrumented code stays usable in helpers.
package vsched

import (
	"fmt"
	"runtime"
	"sort"
	"strings"
	"time"
)

// Epoch is the instant at which every world's virtual clock starts.
var Epoch = time.Date(2030, 1, 1, 0, 0, 0, 0, time.UTC)

// Chooser decides which of n enabled threads runs next. Index 0 is the
// running thread if it is still enabled (curFirst), the rest ascending by id.
type Chooser interface {
	Choose(n int, curFirst bool) int
}

// PointRec describes one recorded choice point (n > 1).
type PointRec struct {
	N        int
	CurFirst bool
	Chosen   int
	Op       string // pending op of the thread that was running
}

type Verdict int

const (
	OK Verdict = iota
	Deadlock
	Panic
	Horizon
)

func (v Verdict) String() string {
	return [...]string{"ok", "deadlock", "panic", "horizon"}[v]
}

type Race struct {
	Loc   string // field / variable name
	SiteA string
	SiteB string
	Kinds string // "W/W", "R/W", "W/R"
}

type Result struct {
	Verdict    Verdict
	Detail     string // deadlock description or panic value + stack
	PanicSite  string
	Points     []PointRec
	Choices    []int
	Steps      int
	Races      []Race
	Threads    int
	Leaked     int
	Unrecov    []string // spawn sites of repository goroutines that died of an unrecovered panic
	SpawnSites map[string]int
	Trace      []string // only when Config.Trace
}

type Config struct {
	Chooser          Chooser
	MaxSteps         int             // horizon (scheduling steps); 0 = 200000
	Trace            bool            // record a human readable trace
	EffectsArePoints bool            // vos / vleveldb effects are scheduling points
	RacyPoints       map[string]bool // access sites that are scheduling points (2nd pass)
	NoRace           bool            // disable the race detector (faster)
	HoldSpawns       bool            // sequential drivers: spawned threads stay pending until released
	LogSites         bool            // record "op@function" of every scheduling point per thread (see PassedSite)
	NoExplore        bool            // choice points are not offered to the chooser (always index 0); see SetExploring
}

type thread struct {
	id        int
	name      string
	wake      chan struct{}
	exited    chan struct{}
	done      bool
	started   bool
	held      bool // pending (HoldSpawns) and not yet released
	op        string
	obj       interface{}
	enabled   func() bool
	wakeAt    time.Time // for sleepers
	sleeping  bool
	lowPrio   bool // Drain: only enabled when nobody else is
	vc        vclock
	site      string
	spawnSite string
	recvStash interface{}
	sites     []string
}

type timer struct {
	at     time.Time
	seq    int
	fire   func() // runs in scheduler context (must not block)
	period time.Duration
	dead   bool
}

type world struct {
	cfg        Config
	threads    []*thread
	running    *thread
	now        time.Time
	timers     []*timer
	tseq       int
	res        *Result
	doneCh     chan struct{}
	finished   bool
	steps      int
	maxSteps   int
	objSeq     int
	shadow     map[uintptr]*shadowCell
	raceSeen   map[string]bool
	nextChoice int
}

var cur *world

// Active reports whether code is running under a scheduler world.
func Active() bool { return cur != nil && !cur.finished }

// Run executes main as thread 0 under the scheduler until every thread has
// finished (or is parked forever on a ticker/timer), a deadlock, a panic or the
// horizon. It must not be called re-entrantly.
func Run(cfg Config, main func()) *Result {
	if cur != nil && !cur.finished {
		panic("vsched: nested Run")
	}
	w := &world{cfg: cfg, now: Epoch, doneCh: make(chan struct{}), res: &Result{SpawnSites: map[string]int{}}}
	w.maxSteps = cfg.MaxSteps
	if w.maxSteps == 0 {
		w.maxSteps = 200000
	}
	if !cfg.NoRace {
		w.shadow = map[uintptr]*shadowCell{}
		w.raceSeen = map[string]bool{}
	}
	cur = w
	resetChanClocks()
	effectCount = 0
	t := w.newThread("main", "")
	t.started = true
	w.running = t
	go w.threadBody(t, main)
	<-w.doneCh
	w.res.Steps = w.steps
	w.res.Threads = len(w.threads)
	// unwind parked threads one at a time so that nothing of this world keeps
	// running (or stays parked) once Run returns
	for _, th := range w.threads {
		if th.done {
			select {
			case <-th.exited:
			case <-time.After(2 * time.Second):
				w.res.Leaked++
			}
			continue
		}
		th.wake <- struct{}{}
		select {
		case <-th.exited:
		case <-time.After(2 * time.Second):
			w.res.Leaked++
		}
	}
	cur = nil
	return w.res
}

func (w *world) newThread(name, spawnSite string) *thread {
	t := &thread{id: len(w.threads), name: name, wake: make(chan struct{}, 1), exited: make(chan struct{}), spawnSite: spawnSite}
	t.vc = newVC(t.id)
	w.threads = append(w.threads, t)
	return t
}

type abortSentinel struct{}

func (w *world) threadBody(t *thread, fn func()) {
	defer func() {
		r := recover()
		if _, ok := r.(abortSentinel); ok {
			t.done = true
			close(t.exited)
			return
		}
		if w.finished {
			t.done = true
			close(t.exited)
			return
		}
		defer close(t.exited)
		if r != nil {
			buf := make([]byte, 16384)
			buf = buf[:runtime.Stack(buf, false)]
			if w.res.Verdict == OK {
				w.res.Verdict = Panic
				w.res.Detail = fmt.Sprintf("thread %d(%s) panicked: %v\n%s", t.id, t.name, r, trimStack(string(buf)))
				w.res.PanicSite = panicSite(string(buf))
				if t.id != 0 {
					w.res.Unrecov = append(w.res.Unrecov, t.spawnSite)
				}
			}
			t.done = true
			w.finish()
			return
		}
		t.done = true
		w.tracef("T%d exit", t.id)
		w.reschedule(t)
	}()
	fn()
}

func trimStack(s string) string {
	lines := strings.Split(s, "\n")
	var out []string
	for i := 0; i < len(lines); i++ {
		l := lines[i]
		if strings.Contains(l, "runtime/panic.go") || strings.HasPrefix(l, "panic(") || strings.Contains(l, "runtime/debug") {
			continue
		}
		out = append(out, l)
		if len(out) > 40 {
			break
		}
	}
	return strings.Join(out, "\n")
}

// panicSite extracts the first repository function in a panic stack.
func panicSite(s string) string {
	for _, l := range strings.Split(s, "\n") {
		if strings.HasPrefix(l, "github.com/gr33nbl00d/caddy-revocation-validator") {
			if i := strings.Index(l, "("); i > 0 {
				// keep the function name up to the argument list
				j := strings.LastIndex(l, "(")
				return strings.TrimPrefix(l[:j], "github.com/gr33nbl00d/caddy-revocation-validator/")
			}
		}
	}
	return "?"
}

func (w *world) finish() {
	if w.finished {
		return
	}
	w.finished = true
	close(w.doneCh)
}

func (w *world) tracef(format string, a ...interface{}) {
	if w.cfg.Trace {
		w.res.Trace = append(w.res.Trace, fmt.Sprintf(format, a...))
	}
}

func (w *world) enabledList(from *thread) []*thread {
	var en []*thread
	var low []*thread
	for _, t := range w.threads {
		if t.done || t.held {
			continue
		}
		if t.sleeping {
			continue
		}
		if t.enabled != nil && !t.enabled() {
			continue
		}
		if t.lowPrio {
			low = append(low, t)
			continue
		}
		en = append(en, t)
	}
	if len(en) == 0 && len(low) > 0 {
		// a draining thread only continues when nobody else can ever continue without it:
		// sleepers will (the clock advances for them first)
		sleepers := false
		for _, t := range w.threads {
			if !t.done && !t.held && t.sleeping {
				sleepers = true
			}
		}
		if !sleepers {
			en = low
		}
	}
	// canonical order: running thread first if enabled, then ascending id
	if from != nil {
		for i, t := range en {
			if t == from {
				copy(en[1:i+1], en[0:i])
				en[0] = from
				break
			}
		}
	}
	return en
}

// reschedule is called by the running thread `from` at a scheduling point (its
// pending op already recorded) or when it exits. It returns when `from` is
// chosen to continue; if `from` is done it returns immediately after the hand-off.
func (w *world) reschedule(from *thread) {
	for {
		if w.finished {
			if from.done {
				return
			}
			w.parkAborted(from)
		}
		w.steps++
		if w.steps > w.maxSteps {
			w.res.Verdict = Horizon
			w.res.Detail = "step horizon reached"
			w.finish()
			if from.done {
				return
			}
			w.parkAborted(from)
		}
		en := w.enabledList(from)
		if len(en) == 0 {
			if w.advanceForSleepers() {
				continue
			}
			// nothing can run: either everything is finished / parked on timers, or deadlock
			blocked := w.blockedThreads()
			if len(blocked) > 0 {
				w.res.Verdict = Deadlock
				w.res.Detail = w.describeDeadlock(blocked)
			}
			w.finish()
			if from.done {
				return
			}
			w.parkAborted(from)
		}
		idx := 0
		if len(en) > 1 && !w.cfg.NoExplore {
			curFirst := en[0] == from && !from.done
			idx = w.cfg.Chooser.Choose(len(en), curFirst)
			if idx < 0 || idx >= len(en) {
				panic(fmt.Sprintf("vsched: chooser returned %d of %d", idx, len(en)))
			}
			w.res.Points = append(w.res.Points, PointRec{N: len(en), CurFirst: curFirst, Chosen: idx, Op: from.op})
			w.res.Choices = append(w.res.Choices, idx)
		}
		next := en[idx]
		if w.cfg.Trace && next != from {
			w.tracef("switch T%d -> T%d (%s %v)", from.id, next.id, next.op, next.site)
		}
		if next == from {
			return
		}
		w.running = next
		next.wake <- struct{}{}
		if from.done {
			return
		}
		<-from.wake
		if w.finished {
			panic(abortSentinel{})
		}
		return
	}
}

// parkAborted parks a thread of a finished world until Run unwinds it.
func (w *world) parkAborted(t *thread) {
	<-t.wake
	panic(abortSentinel{})
}

// blockedThreads lists unfinished threads that are blocked on something only
// another thread can provide (locks, joins). Threads parked on channels fed
// by timers (ticker loops) or held pending are not a deadlock.
func (w *world) blockedThreads() []*thread {
	var b []*thread
	for _, t := range w.threads {
		if t.done || t.held {
			continue
		}
		switch t.op {
		case "recv", "select", "drain":
			continue
		}
		b = append(b, t)
	}
	return b
}

func (w *world) describeDeadlock(b []*thread) string {
	var sb strings.Builder
	for _, t := range b {
		fmt.Fprintf(&sb, "T%d(%s) blocked in %s at %s", t.id, t.name, t.op, t.site)
		if d, ok := t.obj.(interface{ Describe() string }); ok {
			fmt.Fprintf(&sb, " on %s", d.Describe())
		}
		sb.WriteString("; ")
	}
	return sb.String()
}

// Point is a scheduling point of the running thread. enabled==nil means the
// operation can always proceed.
func Point(op string, obj interface{}, enabled func() bool) {
	w := cur
	if w == nil || w.finished {
		return
	}
	t := w.running
	t.op, t.obj, t.enabled = op, obj, enabled
	if w.cfg.Trace || enabled != nil || w.cfg.LogSites {
		t.site = callerSite(3)
	}
	if w.cfg.LogSites {
		t.sites = append(t.sites, op+"@"+t.site)
	}
	w.reschedule(t)
	t.op, t.obj, t.enabled = "", nil, nil
}

func callerSite(skip int) string {
	pcs := make([]uintptr, 12)
	n := runtime.Callers(skip, pcs)
	frames := runtime.CallersFrames(pcs[:n])
	for {
		f, more := frames.Next()
		if !strings.Contains(f.Function, "verif/h/rt/") {
			fn := f.Function
			if i := strings.LastIndex(fn, "/"); i >= 0 {
				fn = fn[i+1:]
			}
			return fn
		}
		if !more {
			break
		}
	}
	return "?"
}

// Go spawns fn as a new scheduled thread.
func Go(fn func()) {
	w := cur
	if w == nil || w.finished {
		go fn()
		return
	}
	site := callerSite(2)
	parent := w.running
	t := w.newThread(site, site)
	w.res.SpawnSites[site]++
	t.held = w.cfg.HoldSpawns
	// happens-before: spawn
	t.vc.join(parent.vc)
	parent.vc.tick(parent.id)
	t.started = true
	go func() {
		<-t.wake
		if w.finished {
			t.done = true
			close(t.exited)
			return
		}
		w.threadBody(t, fn)
	}()
	w.tracef("T%d spawn T%d (%s)", parent.id, t.id, site)
	if !w.cfg.HoldSpawns {
		Point("spawn", nil, nil)
	}
}

// Spawn creates a held thread without a scheduling point; StartAll makes every
// held thread runnable. Drivers use the pair to start N workers "at once".
func Spawn(name string, fn func()) int {
	w := cur
	if w == nil || w.finished {
		panic("vsched.Spawn outside a world")
	}
	parent := w.running
	t := w.newThread(name, name)
	t.held = true
	t.vc.join(parent.vc)
	parent.vc.tick(parent.id)
	t.started = true
	go func() {
		<-t.wake
		if w.finished {
			t.done = true
			close(t.exited)
			return
		}
		w.threadBody(t, fn)
	}()
	return t.id
}

func StartAll() {
	if cur == nil {
		return
	}
	for _, t := range cur.threads {
		t.held = false
	}
}

// Join adds the happens-before edges from every finished thread into the caller
// (used by drivers after Drain so that post-run inspection is not a "race").
func JoinAll() {
	w := cur
	if w == nil || w.running == nil {
		return
	}
	for _, t := range w.threads {
		if t.done {
			w.running.vc.join(t.vc)
		}
	}
}

// SeqChooser always lets the running thread continue (else the lowest id).
type SeqChooser struct{}

func (SeqChooser) Choose(n int, curFirst bool) int { return 0 }

// Held returns the ids of pending (held) threads.
func Held() []int {
	var ids []int
	if cur == nil {
		return nil
	}
	for _, t := range cur.threads {
		if t.held && !t.done {
			ids = append(ids, t.id)
		}
	}
	return ids
}

// HeldSites returns the spawn sites of pending threads.
func HeldSites() []string {
	var s []string
	if cur == nil {
		return nil
	}
	for _, t := range cur.threads {
		if t.held && !t.done {
			s = append(s, t.spawnSite)
		}
	}
	return s
}

// Release makes a held thread runnable and runs everything to quiescence.
func Release(id int) {
	w := cur
	if w == nil {
		return
	}
	for _, t := range w.threads {
		if t.id == id {
			t.held = false
		}
	}
	Drain()
}

// ReleaseAll releases every held thread (ascending id) and drains.
func ReleaseAll() {
	w := cur
	if w == nil {
		return
	}
	for _, t := range w.threads {
		t.held = false
	}
	Drain()
}

// Drain blocks the caller until no other thread is enabled (they finished, are
// held, or wait for virtual time / channels).
func Drain() {
	w := cur
	if w == nil || w.finished {
		return
	}
	t := w.running
	t.lowPrio = true
	Point("drain", nil, nil)
	t.lowPrio = false
}

// Live returns the number of unfinished threads other than the caller and how
// many of them are parked on a channel/select (e.g. ticker loops).
func Live() (unfinished int, sites []string) {
	w := cur
	if w == nil {
		return 0, nil
	}
	for _, t := range w.threads {
		if t != w.running && !t.done {
			unfinished++
			sites = append(sites, t.spawnSite+":"+t.op)
		}
	}
	sort.Strings(sites)
	return
}

// ---------------------------------------------------------------- clock

func Now() time.Time {
	if w := cur; w != nil {
		return w.now
	}
	return Epoch
}

// Sleep blocks the calling thread for d of virtual time. If nothing else can
// run the clock jumps to the earliest deadline ("waiting is visible").
func Sleep(d time.Duration) {
	w := cur
	if w == nil || w.finished {
		return
	}
	if d <= 0 {
		return
	}
	t := w.running
	t.wakeAt = w.now.Add(d)
	t.sleeping = true
	Point("sleep", nil, nil)
}

// advanceForSleepers moves the clock to the earliest deadline (sleeper or
// timer) that is not later than the earliest sleeper. Timers alone never
// advance the clock: only a thread that is guaranteed to continue does.
func (w *world) advanceForSleepers() bool {
	var first *thread
	for _, t := range w.threads {
		if !t.done && t.sleeping && !t.held {
			if first == nil || t.wakeAt.Before(first.wakeAt) {
				first = t
			}
		}
	}
	if first == nil {
		return false
	}
	w.advanceTo(first.wakeAt)
	return true
}

// advanceTo fires timers in time order up to and including `to`, then wakes
// sleepers whose deadline has passed. Runs in the context of the running thread.
func (w *world) advanceTo(to time.Time) {
	for {
		var nt *timer
		for _, tm := range w.timers {
			if tm.dead || tm.at.After(to) {
				continue
			}
			if nt == nil || tm.at.Before(nt.at) || (tm.at.Equal(nt.at) && tm.seq < nt.seq) {
				nt = tm
			}
		}
		if nt == nil {
			break
		}
		if nt.at.After(w.now) {
			w.now = nt.at
		}
		w.wakeSleepers()
		if nt.period > 0 {
			nt.at = nt.at.Add(nt.period)
		} else {
			nt.dead = true
		}
		nt.fire()
	}
	if to.After(w.now) {
		w.now = to
	}
	w.wakeSleepers()
	// compact
	live := w.timers[:0]
	for _, tm := range w.timers {
		if !tm.dead {
			live = append(live, tm)
		}
	}
	w.timers = live
}

func (w *world) wakeSleepers() {
	for _, t := range w.threads {
		if t.sleeping && !t.wakeAt.After(w.now) {
			t.sleeping = false
		}
	}
}

// Advance moves the virtual clock forward by d (driver event), firing due
// timers in order, then drains.
func Advance(d time.Duration) {
	w := cur
	if w == nil {
		return
	}
	w.advanceTo(w.now.Add(d))
	Drain()
}

// AdvanceStep moves the clock to the next timer deadline if it lies within
// limit, fires exactly the timers due at that instant and drains. It reports
// whether a timer fired.
func AdvanceStep(limit time.Duration) bool {
	w := cur
	if w == nil {
		return false
	}
	var nt *timer
	for _, tm := range w.timers {
		if tm.dead {
			continue
		}
		if nt == nil || tm.at.Before(nt.at) {
			nt = tm
		}
	}
	if nt == nil || nt.at.After(w.now.Add(limit)) {
		w.advanceTo(w.now.Add(limit))
		Drain()
		return false
	}
	w.advanceTo(nt.at)
	Drain()
	return true
}

// TimerHandle lets vtime stop a timer.
type TimerHandle struct{ t *timer }

func (h TimerHandle) Stop() bool {
	if h.t == nil {
		return false
	}
	was := !h.t.dead
	h.t.dead = true
	return was
}

func (h TimerHandle) Reset(d time.Duration) bool {
	if h.t == nil || cur == nil {
		return false
	}
	was := !h.t.dead
	h.t.dead = false
	h.t.at = cur.now.Add(d)
	found := false
	for _, tm := range cur.timers {
		if tm == h.t {
			found = true
		}
	}
	if !found {
		cur.timers = append(cur.timers, h.t)
	}
	return was
}

// AddTimer registers a one-shot (period 0) or periodic timer. fire runs in
// scheduler context and must not block; use Go inside it to run code.
func AddTimer(d, period time.Duration, fire func()) TimerHandle {
	w := cur
	if w == nil || w.finished {
		return TimerHandle{}
	}
	w.tseq++
	tm := &timer{at: w.now.Add(d), seq: w.tseq, fire: fire, period: period}
	w.timers = append(w.timers, tm)
	return TimerHandle{tm}
}

// PendingTimers returns how many timers are armed.
func PendingTimers() int {
	if cur == nil {
		return 0
	}
	n := 0
	for _, tm := range cur.timers {
		if !tm.dead {
			n++
		}
	}
	return n
}

// ---------------------------------------------------------------- channels

// Recv blocks until a value can be received from one of chans (reflect based,
// see chan.go) and returns the index, the value and ok.
// Implemented in chan.go.

// ---------------------------------------------------------------- effects

// Effect is called by the vos / vleveldb shims before each file-system or
// database effect. Drivers may install a hook (fault / crash injection).
var EffectHook func(kind, arg string) error

var effectCount int

func EffectCount() int  { return effectCount }
func ResetEffectCount() { effectCount = 0 }

func Effect(kind, arg string) error {
	effectCount++
	w := cur
	if w != nil && !w.finished && w.cfg.EffectsArePoints {
		Point("effect:"+kind, nil, nil)
	}
	if EffectHook != nil {
		return EffectHook(kind, arg)
	}
	return nil
}

// CurrentThread returns the id of the running thread (0 outside a world).
func CurrentThread() int {
	if cur == nil || cur.running == nil {
		return 0
	}
	return cur.running.id
}

// SetHoldSpawns switches the "spawned threads stay pending" mode at run time.
func SetHoldSpawns(v bool) {
	if cur != nil {
		cur.cfg.HoldSpawns = v
	}
}

// SetExploring switches between "every choice point goes to the chooser" and
// "deterministic default (index 0), nothing recorded" (setup / teardown phases).
func SetExploring(v bool) {
	if cur != nil {
		cur.cfg.NoExplore = !v
	}
}

// Steps returns the number of scheduling steps taken so far in the current
// world (a logical time stamp for call/return histories).
func Steps() int {
	if cur == nil {
		return 0
	}
	return cur.steps
}

// ReleaseSite releases the held threads whose spawn site contains substr and
// drains; it reports how many were released.
func ReleaseSite(substr string) int {
	w := cur
	if w == nil {
		return 0
	}
	n := 0
	for _, t := range w.threads {
		if t.held && !t.done && strings.Contains(t.spawnSite, substr) {
			t.held = false
			n++
		}
	}
	if n > 0 {
		Drain()
	}
	return n
}

// HeldCount returns how many held threads have a spawn site containing substr.
func HeldCount(substr string) int {
	n := 0
	if cur == nil {
		return 0
	}
	for _, t := range cur.threads {
		if t.held && !t.done && strings.Contains(t.spawnSite, substr) {
			n++
		}
	}
	return n
}

// PassedSite reports whether the running thread has passed a scheduling point
// whose "op@function" contains substr (needs Config.LogSites).
func PassedSite(substr string) bool {
	if cur == nil || cur.running == nil {
		return false
	}
	for _, s := range cur.running.sites {
		if strings.Contains(s, substr) {
			return true
		}
	}
	return false
}

// ---- package-level state of the tree under test

var globalResets []func()
var globalResetNames []string

// RegisterGlobalReset is called from generated init functions of the instrumented tree: f gives the package-level
// variables of one source file their initial values again.
func RegisterGlobalReset(file string, f func()) {
	globalResetNames = append(globalResetNames, file)
	globalResets = append(globalResets, f)
}

// ResetGlobalState puts every package-level variable of the instrumented tree back to its initial value.
func ResetGlobalState() {
	for _, f := range globalResets {
		f()
	}
}

// GlobalResetFiles lists the source files whose package-level variables are reset.
func GlobalResetFiles() []string { return append([]string{}, globalResetNames...) }
