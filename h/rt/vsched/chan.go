package vsched

import (
	"fmt"
	"reflect"
	"sort"
)

// Select implements a receive-only select under the scheduler. chans are
// channel values; hasDefault mirrors a default clause. It returns the index of
// the ready case (or -1 for default), the received value and ok.
//
// A receive is attempted with reflect.TryRecv inside the enabledness test; a
// successfully received value is stashed for the thread until it is scheduled.
// (The repository only receives from a ticker channel and a stop channel, each
// with a single consumer, so taking the value early is unobservable.)
func Select(hasDefault bool, chans ...interface{}) (int, interface{}, bool) {
	w := cur
	if w == nil || w.finished {
		// plain blocking select outside a world
		cases := make([]reflect.SelectCase, 0, len(chans)+1)
		for _, c := range chans {
			cases = append(cases, reflect.SelectCase{Dir: reflect.SelectRecv, Chan: reflect.ValueOf(c)})
		}
		if hasDefault {
			cases = append(cases, reflect.SelectCase{Dir: reflect.SelectDefault})
		}
		i, v, ok := reflect.Select(cases)
		if hasDefault && i == len(chans) {
			return -1, nil, false
		}
		if v.IsValid() {
			return i, v.Interface(), ok
		}
		return i, nil, ok
	}
	type got struct {
		idx int
		v   interface{}
		ok  bool
	}
	var g *got
	try := func() bool {
		if g != nil {
			return true
		}
		for i, c := range chans {
			cv := reflect.ValueOf(c)
			if !cv.IsValid() || cv.IsNil() {
				continue
			}
			v, ok := cv.TryRecv()
			if v.IsValid() || ok {
				// value received (ok) or channel closed (v is zero Value but valid)
				var iv interface{}
				if v.IsValid() && v.CanInterface() {
					iv = v.Interface()
				}
				g = &got{i, iv, ok}
				return true
			}
		}
		return false
	}
	if hasDefault {
		Point("select", nil, nil)
		if try() {
			w.running.vc.join(chanClock(chans[g.idx]))
			return g.idx, g.v, g.ok
		}
		return -1, nil, false
	}
	Point("select", nil, try)
	if g == nil {
		// enabled() is only evaluated for other threads' hand-offs; evaluate now
		if !try() {
			panic("vsched: select resumed without a ready case")
		}
	}
	if !w.cfg.NoRace {
		w.running.vc.join(chanClock(chans[g.idx]))
	}
	return g.idx, g.v, g.ok
}

// channel clocks: release on send/close by scheduler-side senders.
var chanVC = map[uintptr]vclock{}

func chanClock(c interface{}) vclock {
	return chanVC[reflect.ValueOf(c).Pointer()]
}

// NoteSend records a happens-before edge from the running thread into channel c
// (used by Close and by timer deliveries).
func NoteSend(c interface{}) {
	w := cur
	if w == nil || w.finished || w.cfg.NoRace || w.running == nil {
		return
	}
	k := reflect.ValueOf(c).Pointer()
	v := chanVC[k]
	v.join(w.running.vc)
	chanVC[k] = v
	w.running.vc.tick(w.running.id)
}

// Close closes a channel with a release edge.
func Close(c interface{}) {
	NoteSend(c)
	reflect.ValueOf(c).Close()
}

func resetChanClocks() { chanVC = map[uintptr]vclock{} }

// RangeKeys returns the keys of m in a deterministic order (sorted by their
// printed form). Instrumented `range` loops over maps iterate this slice, so
// Go's randomised map order is not a hidden source of nondeterminism.
func RangeKeys[K comparable, V any](m map[K]V) []K {
	keys := make([]K, 0, len(m))
	for k := range m {
		keys = append(keys, k)
	}
	if len(keys) > 1 {
		strs := make(map[K]string, len(keys))
		for _, k := range keys {
			strs[k] = fmt.Sprint(k)
		}
		sort.Slice(keys, func(i, j int) bool { return strs[keys[i]] < strs[keys[j]] })
	}
	return keys
}
