package vsched

import (
	"fmt"
	"reflect"
	"sort"
)

// Select implements a receive-only select under the scheduler. chans are
// channel values; hasDefault mirrors a default clause. It returns the index of
// the ready case (or -1 for default), the received value and ok.
//
// A receive is attempted with reflect.TryRecv inside the enabledness test; a
// successfully received value is stashed for the thread until it is scheduled.
// (The repository only receives from a ticker channel and a stop channel, each
// with a single consumer, so taking the value early is unobservable.)
func Select(hasDefault bool, chans ...interface{}) (int, interface{}, bool) {
	w := cur
	if w == nil || w.finished {
		// plain blocking select outside a world
		cases := make([]reflect.SelectCase, 0, len(chans)+1)
		for _, c := range chans {
			if sc, ok := c.(SendCase); ok {
				cases = append(cases, reflect.SelectCase{Dir: reflect.SelectSend, Chan: reflect.ValueOf(sc.Ch), Send: sendValue(sc)})
				continue
			}
			cases = append(cases, reflect.SelectCase{Dir: reflect.SelectRecv, Chan: reflect.ValueOf(c)})
		}
		if hasDefault {
			cases = append(cases, reflect.SelectCase{Dir: reflect.SelectDefault})
		}
		i, v, ok := reflect.Select(cases)
		if hasDefault && i == len(chans) {
			return -1, nil, false
		}
		if v.IsValid() {
			return i, v.Interface(), ok
		}
		return i, nil, ok
	}
	type got struct {
		idx int
		v   interface{}
		ok  bool
	}
	var g *got
	var mine []*pendingSend // sends of this select which wait for a receiver (no default clause)
	var recvKeys []uintptr  // channels this select waits to receive from (no default clause)
	settled := false
	// settle: the select has its case - it neither waits for a value nor offers one any longer
	settle := func() {
		if settled {
			return
		}
		settled = true
		for _, k := range recvKeys {
			waitingRecv[k]--
		}
		for _, ps := range mine {
			if !ps.taken {
				withdraw(ps)
			}
		}
	}
	var try func() bool
	try0 := func() bool {
		if g != nil {
			return true
		}
		for _, ps := range mine {
			if ps.taken {
				g = &got{ps.idx, nil, false}
				return true
			}
		}
		for i, c := range chans {
			if sc, isSend := c.(SendCase); isSend {
				cv := reflect.ValueOf(sc.Ch)
				if !cv.IsValid() || cv.IsNil() {
					continue
				}
				k := cv.Pointer()
				if cv.Cap() == 0 && len(mine) > 0 {
					continue // offered already: done when a receiver has taken it
				}
				if cv.Cap() > 0 {
					if cv.Len() < cv.Cap() && cv.TrySend(sendValue(sc)) {
						g = &got{i, nil, false}
						return true
					}
					continue
				}
				// unbuffered: a receiver which waits takes the value (the hand-over goes through the scheduler)
				if waitingRecv[k]-untakenHandovers(k) > 0 {
					pendingSends[k] = append(pendingSends[k], &pendingSend{v: sendValue(sc), handover: true})
					g = &got{i, nil, false}
					return true
				}
				continue
			}
			cv := reflect.ValueOf(c)
			if !cv.IsValid() || cv.IsNil() {
				continue
			}
			if q := pendingSends[cv.Pointer()]; len(q) > 0 {
				ps := q[0]
				pendingSends[cv.Pointer()] = q[1:]
				ps.taken = true
				var iv interface{}
				if ps.v.IsValid() && ps.v.CanInterface() {
					iv = ps.v.Interface()
				}
				g = &got{i, iv, true}
				return true
			}
			v, ok := cv.TryRecv()
			if v.IsValid() || ok {
				// value received (ok) or channel closed (v is zero Value but valid)
				var iv interface{}
				if v.IsValid() && v.CanInterface() {
					iv = v.Interface()
				}
				g = &got{i, iv, ok}
				return true
			}
		}
		return false
	}
	try = func() bool {
		if try0() {
			settle()
			return true
		}
		return false
	}
	if hasDefault {
		Point("select", nil, nil)
		if try() {
			if sc, isSend := chans[g.idx].(SendCase); isSend {
				NoteSend(sc.Ch)
			} else {
				w.running.vc.join(chanClock(chans[g.idx]))
			}
			return g.idx, g.v, g.ok
		}
		return -1, nil, false
	}
	// blocking: receives of this select wait (a sender may hand a value over), sends on unbuffered channels are
	// offered to whoever receives next
	for i, c := range chans {
		if sc, isSend := c.(SendCase); isSend {
			cv := reflect.ValueOf(sc.Ch)
			if cv.IsValid() && !cv.IsNil() && cv.Cap() == 0 {
				NoteSend(sc.Ch)
				ps := &pendingSend{v: sendValue(sc), idx: i}
				mine = append(mine, ps)
				pendingSends[cv.Pointer()] = append(pendingSends[cv.Pointer()], ps)
			}
			continue
		}
		cv := reflect.ValueOf(c)
		if cv.IsValid() && !cv.IsNil() {
			recvKeys = append(recvKeys, cv.Pointer())
			waitingRecv[cv.Pointer()]++
		}
	}
	// a thread which waits in a pure send is blocked like one which waits for a lock (nobody but another thread can
	// help it); one which also waits to receive may be a loop fed by a timer
	opName := "send"
	for _, c := range chans {
		if _, isSend := c.(SendCase); !isSend {
			opName = "select"
		}
	}
	Point(opName, nil, try)
	if g == nil {
		// enabled() is only evaluated for other threads' hand-offs; evaluate now
		if !try() {
			settle()
			panic("vsched: select resumed without a ready case")
		}
	}
	settle()
	if _, isSend := chans[g.idx].(SendCase); !isSend && !w.cfg.NoRace {
		w.running.vc.join(chanClock(chans[g.idx]))
	}
	return g.idx, g.v, g.ok
}

// SendCase is a send case of a select (or a send statement): the value v goes to channel Ch.
type SendCase struct {
	Ch interface{}
	V  interface{}
}

func sendValue(sc SendCase) reflect.Value {
	et := reflect.TypeOf(sc.Ch).Elem()
	if sc.V == nil {
		return reflect.Zero(et)
	}
	v := reflect.ValueOf(sc.V)
	if v.Type() != et && v.Type().ConvertibleTo(et) {
		v = v.Convert(et)
	}
	return v
}

// pendingSend: a value on its way through an unbuffered channel. Threads of a world never sit in a real channel
// operation (the scheduler would not know), so the rendezvous goes through this table: a sender which waits leaves its
// value here until a receiver takes it; a sender which found a receiver waiting leaves it as a hand-over.
type pendingSend struct {
	v        reflect.Value
	idx      int
	taken    bool
	handover bool
}

var pendingSends = map[uintptr][]*pendingSend{}
var waitingRecv = map[uintptr]int{}

func untakenHandovers(k uintptr) int {
	n := 0
	for _, ps := range pendingSends[k] {
		if ps.handover && !ps.taken {
			n++
		}
	}
	return n
}

func withdraw(ps *pendingSend) {
	for k, q := range pendingSends {
		for i, x := range q {
			if x == ps {
				pendingSends[k] = append(append([]*pendingSend{}, q[:i]...), q[i+1:]...)
				return
			}
		}
	}
}

// Send is the statement `ch <- v`.
func Send(ch interface{}, v interface{}) {
	Select(false, SendCase{Ch: ch, V: v})
}

// SendT / Recv1 / Recv2 / ValOf: typed wrappers the instrumenter puts in place of channel operations (the element
// type is inferred from the channel).
func SendT[T any](ch chan<- T, v T) { Select(false, SendCase{Ch: ch, V: v}) }

func Recv1[T any](ch <-chan T) T {
	_, v, _ := Select(false, ch)
	return ValOf(ch, v)
}

func Recv2[T any](ch <-chan T) (T, bool) {
	_, v, ok := Select(false, ch)
	return ValOf(ch, v), ok
}

func ValOf[T any](ch <-chan T, v interface{}) T {
	if v == nil {
		var z T
		return z
	}
	return v.(T)
}

// channel clocks: release on send/close by scheduler-side senders.
var chanVC = map[uintptr]vclock{}

func chanClock(c interface{}) vclock {
	return chanVC[reflect.ValueOf(c).Pointer()]
}

// NoteSend records a happens-before edge from the running thread into channel c
// (used by Close and by timer deliveries).
func NoteSend(c interface{}) {
	w := cur
	if w == nil || w.finished || w.cfg.NoRace || w.running == nil {
		return
	}
	k := reflect.ValueOf(c).Pointer()
	v := chanVC[k]
	v.join(w.running.vc)
	chanVC[k] = v
	w.running.vc.tick(w.running.id)
}

// Close closes a channel with a release edge.
func Close(c interface{}) {
	NoteSend(c)
	reflect.ValueOf(c).Close()
}

func resetChanClocks() {
	chanVC = map[uintptr]vclock{}
	pendingSends = map[uintptr][]*pendingSend{}
	waitingRecv = map[uintptr]int{}
}

// RangeKeys returns the keys of m in a deterministic order (sorted by their
// printed form). Instrumented `range` loops over maps iterate this slice, so
// Go's randomised map order is not a hidden source of nondeterminism.
func RangeKeys[K comparable, V any](m map[K]V) []K {
	keys := make([]K, 0, len(m))
	for k := range m {
		keys = append(keys, k)
	}
	if len(keys) > 1 {
		strs := make(map[K]string, len(keys))
		for _, k := range keys {
			strs[k] = fmt.Sprint(k)
		}
		sort.Slice(keys, func(i, j int) bool { return strs[keys[i]] < strs[keys[j]] })
	}
	return keys
}
