package vsched

import (
	"fmt"
	"unsafe"
)

// ---------------------------------------------------------------- vector clocks

type vclock []int32

func newVC(id int) vclock {
	v := make(vclock, id+1)
	v[id] = 1
	return v
}

func (v *vclock) join(o vclock) {
	if len(o) > len(*v) {
		n := make(vclock, len(o))
		copy(n, *v)
		*v = n
	}
	for i, c := range o {
		if c > (*v)[i] {
			(*v)[i] = c
		}
	}
}

func (v *vclock) tick(id int) {
	if id >= len(*v) {
		n := make(vclock, id+1)
		copy(n, *v)
		*v = n
	}
	(*v)[id]++
}

func (v vclock) get(id int) int32 {
	if id < len(v) {
		return v[id]
	}
	return 0
}

func (v vclock) copyOf() vclock {
	n := make(vclock, len(v))
	copy(n, v)
	return n
}

// SyncVar is embedded by the vsync primitives: the clock released into it.
type SyncVar struct {
	vc vclock
}

// Acquire joins the sync variable's clock into the running thread (acquire edge).
func (s *SyncVar) Acquire() {
	w := cur
	if w == nil || w.finished || w.cfg.NoRace {
		return
	}
	w.running.vc.join(s.vc)
}

// Release publishes the running thread's clock into the sync variable (release edge).
func (s *SyncVar) Release() {
	w := cur
	if w == nil || w.finished || w.cfg.NoRace {
		return
	}
	t := w.running
	s.vc.join(t.vc)
	t.vc.tick(t.id)
}

// ReleaseStore overwrites instead of joining (mutex unlock by the sole holder).
func (s *SyncVar) ReleaseStore() {
	w := cur
	if w == nil || w.finished || w.cfg.NoRace {
		return
	}
	t := w.running
	s.vc = t.vc.copyOf()
	t.vc.tick(t.id)
}

// ---------------------------------------------------------------- shadow memory

type access struct {
	tid   int
	clock int32
	site  int32
}

type shadowCell struct {
	keep  unsafe.Pointer // keeps the object alive so the address is not reused within a world
	w     access
	hasW  bool
	reads []access
}

// Sites is filled by the generated site table (vinst emits a file that calls RegisterSites).
var sites []string

func RegisterSites(s []string) { sites = s }

func siteName(i int32) string {
	if int(i) < len(sites) && i >= 0 {
		return sites[i]
	}
	return fmt.Sprintf("site#%d", i)
}

// SiteLoc returns "name" part (field/var) of a site entry "pkg.Func|name|file:line".
func siteField(i int32) string {
	s := siteName(i)
	for k := 0; k < len(s); k++ {
		if s[k] == '|' {
			rest := s[k+1:]
			for j := 0; j < len(rest); j++ {
				if rest[j] == '|' {
					return rest[:j]
				}
			}
			return rest
		}
	}
	return s
}

func siteFunc(i int32) string {
	s := siteName(i)
	for k := 0; k < len(s); k++ {
		if s[k] == '|' {
			return s[:k]
		}
	}
	return s
}

func (w *world) report(kind string, a, b access) {
	key := kind + "|" + siteFunc(a.site) + "|" + siteFunc(b.site) + "|" + siteField(b.site)
	if w.raceSeen[key] {
		return
	}
	w.raceSeen[key] = true
	w.res.Races = append(w.res.Races, Race{Loc: siteField(b.site), SiteA: siteName(a.site), SiteB: siteName(b.site), Kinds: kind})
}

func (w *world) onAccess(p unsafe.Pointer, site int, write bool) {
	t := w.running
	addr := uintptr(p)
	c := w.shadow[addr]
	if c == nil {
		c = &shadowCell{keep: p}
		w.shadow[addr] = c
	}
	me := access{tid: t.id, clock: t.vc.get(t.id), site: int32(site)}
	if c.hasW && c.w.tid != t.id && c.w.clock > t.vc.get(c.w.tid) {
		if write {
			w.report("W/W", c.w, me)
		} else {
			w.report("W/R", c.w, me)
		}
	}
	if write {
		for _, r := range c.reads {
			if r.tid != t.id && r.clock > t.vc.get(r.tid) {
				w.report("R/W", r, me)
			}
		}
		c.w, c.hasW = me, true
		c.reads = c.reads[:0]
	} else {
		for i := range c.reads {
			if c.reads[i].tid == t.id {
				c.reads[i] = me
				return
			}
		}
		c.reads = append(c.reads, me)
	}
}

// R is the read hook: *vsched.R(&x.f, site).
func R[T any](p *T, site int) *T {
	w := cur
	if w == nil || w.finished {
		return p
	}
	if w.cfg.RacyPoints != nil && w.cfg.RacyPoints[siteName(int32(site))] {
		Point("racy-read", nil, nil)
	}
	if !w.cfg.NoRace {
		w.onAccess(unsafe.Pointer(p), site, false)
	}
	return p
}

// W is the write hook: *vsched.W(&x.f, site) = v.
func W[T any](p *T, site int) *T {
	w := cur
	if w == nil || w.finished {
		return p
	}
	if w.cfg.RacyPoints != nil && w.cfg.RacyPoints[siteName(int32(site))] {
		Point("racy-write", nil, nil)
	}
	if !w.cfg.NoRace {
		w.onAccess(unsafe.Pointer(p), site, true)
	}
	return p
}

// RegisterSitesAt installs the site names of one instrumented package.
func RegisterSitesAt(base int, names []string) {
	if len(sites) < base+len(names) {
		n := make([]string, base+len(names))
		copy(n, sites)
		sites = n
	}
	copy(sites[base:], names)
}
