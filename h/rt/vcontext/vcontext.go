// Package vcontext replaces "context" in instrumented code: deadlines and timeouts run on the scheduler's virtual
// clock (a tree under test which gives its requests a timeout must see that timeout pass when the scripted origin takes
// that long); everything else forwards to the real package.
package vcontext

import (
	real "context"
	"sync/atomic"
	"time"

	"verif/h/rt/vsched"
)

type Context = real.Context
type CancelFunc = real.CancelFunc
type CancelCauseFunc = real.CancelCauseFunc

var Canceled = real.Canceled
var DeadlineExceeded = real.DeadlineExceeded

func Background() Context                                       { return real.Background() }
func TODO() Context                                             { return real.TODO() }
func WithCancel(parent Context) (Context, CancelFunc)           { return real.WithCancel(parent) }
func WithValue(parent Context, key, val any) Context            { return real.WithValue(parent, key, val) }
func WithoutCancel(parent Context) Context                      { return real.WithoutCancel(parent) }
func Cause(c Context) error                                     { return real.Cause(c) }
func AfterFunc(ctx Context, f func()) (stop func() bool)        { return real.AfterFunc(ctx, f) }
func WithCancelCause(parent Context) (Context, CancelCauseFunc) { return real.WithCancelCause(parent) }

// deadlineCtx: cancelled by the virtual clock.
type deadlineCtx struct {
	real.Context
	deadline time.Time
	expired  atomic.Bool
}

func (c *deadlineCtx) Deadline() (time.Time, bool) { return c.deadline, true }

func (c *deadlineCtx) Err() error {
	if c.expired.Load() {
		return real.DeadlineExceeded
	}
	return c.Context.Err()
}

func WithDeadline(parent Context, d time.Time) (Context, CancelFunc) {
	if !vsched.Active() {
		return real.WithDeadline(parent, d)
	}
	if cur, ok := parent.Deadline(); ok && cur.Before(d) {
		return real.WithCancel(parent)
	}
	inner, cancel := real.WithCancel(parent)
	c := &deadlineCtx{Context: inner, deadline: d}
	wait := d.Sub(vsched.Now())
	if wait <= 0 {
		c.expired.Store(true)
		cancel()
		return c, func() {}
	}
	h := vsched.AddTimer(wait, 0, func() {
		c.expired.Store(true)
		cancel()
	})
	return c, func() {
		h.Stop()
		cancel()
	}
}

func WithTimeout(parent Context, timeout time.Duration) (Context, CancelFunc) {
	if !vsched.Active() {
		return real.WithTimeout(parent, timeout)
	}
	return WithDeadline(parent, vsched.Now().Add(timeout))
}

func WithDeadlineCause(parent Context, d time.Time, cause error) (Context, CancelFunc) {
	return WithDeadline(parent, d)
}

func WithTimeoutCause(parent Context, timeout time.Duration, cause error) (Context, CancelFunc) {
	return WithTimeout(parent, timeout)
}
