// Package vleveldb replaces github.com/syndtr/goleveldb/leveldb in
// instrumented code. DB wraps the real database; every call is an effect
// point (fault / crash injection, optional schedule point).
package vleveldb

import (
	"sort"
	"sync"

	real "github.com/syndtr/goleveldb/leveldb"
	"github.com/syndtr/goleveldb/leveldb/iterator"
	"github.com/syndtr/goleveldb/leveldb/opt"
	"github.com/syndtr/goleveldb/leveldb/storage"
	"github.com/syndtr/goleveldb/leveldb/util"

	"verif/h/rt/vsched"
)

type (
	Batch                   = real.Batch
	Snapshot                = real.Snapshot
	Transaction             = real.Transaction
	DBStats                 = real.DBStats
	Sizes                   = real.Sizes
	Reader                  = real.Reader
	BatchReplay             = real.BatchReplay
	ErrBatchCorrupted       = real.ErrBatchCorrupted
	ErrInternalKeyCorrupted = real.ErrInternalKeyCorrupted
	ErrManifestCorrupted    = real.ErrManifestCorrupted
)

var (
	ErrNotFound         = real.ErrNotFound
	ErrReadOnly         = real.ErrReadOnly
	ErrSnapshotReleased = real.ErrSnapshotReleased
	ErrIterReleased     = real.ErrIterReleased
	ErrClosed           = real.ErrClosed
)

// ValueHook lets a driver corrupt / replace a value read from the database
// (C09: undecodable records). It receives path, key and value.
var ValueHook func(path string, key, value []byte) []byte

type DB struct {
	real *real.DB
	path string
}

func (db *DB) Real() *real.DB { return db.real }
func (db *DB) Path() string   { return db.path }

// open database handles (a handle leaves the set when Close is called on it, whatever Close returns)
var (
	openMu  sync.Mutex
	openDBs = map[*real.DB]string{}
)

func wrap(db *real.DB, path string, err error) (*DB, error) {
	if err != nil {
		return nil, err
	}
	openMu.Lock()
	openDBs[db] = path
	openMu.Unlock()
	return &DB{real: db, path: path}, nil
}

// OpenPaths lists the databases which were opened and not closed since the last ReapOpen.
func OpenPaths() []string {
	openMu.Lock()
	defer openMu.Unlock()
	var out []string
	for _, p := range openDBs {
		out = append(out, p)
	}
	sort.Strings(out)
	return out
}

// ReapOpen closes the real databases a finished world left open (their background goroutines would keep
// every write buffer alive for the rest of the process) and returns how many there were.
func ReapOpen() int {
	openMu.Lock()
	dbs := openDBs
	openDBs = map[*real.DB]string{}
	openMu.Unlock()
	for db := range dbs {
		db.Close()
	}
	return len(dbs)
}

func OpenFile(path string, o *opt.Options) (*DB, error) {
	if err := vsched.Effect("ldb.open", path); err != nil {
		return nil, err
	}
	db, err := real.OpenFile(path, o)
	return wrap(db, path, err)
}

func RecoverFile(path string, o *opt.Options) (*DB, error) {
	if err := vsched.Effect("ldb.recover", path); err != nil {
		return nil, err
	}
	db, err := real.RecoverFile(path, o)
	return wrap(db, path, err)
}

func Open(stor storage.Storage, o *opt.Options) (*DB, error) {
	db, err := real.Open(stor, o)
	return wrap(db, "", err)
}

func Recover(stor storage.Storage, o *opt.Options) (*DB, error) {
	db, err := real.Recover(stor, o)
	return wrap(db, "", err)
}

func (db *DB) Put(key, value []byte, wo *opt.WriteOptions) error {
	if err := vsched.Effect("ldb.put", db.path); err != nil {
		return err
	}
	return db.real.Put(key, value, wo)
}

func (db *DB) Delete(key []byte, wo *opt.WriteOptions) error {
	if err := vsched.Effect("ldb.delete", db.path); err != nil {
		return err
	}
	return db.real.Delete(key, wo)
}

func (db *DB) Write(batch *Batch, wo *opt.WriteOptions) error {
	if err := vsched.Effect("ldb.write", db.path); err != nil {
		return err
	}
	return db.real.Write(batch, wo)
}

func (db *DB) Get(key []byte, ro *opt.ReadOptions) ([]byte, error) {
	if err := vsched.Effect("ldb.get", db.path); err != nil {
		return nil, err
	}
	v, err := db.real.Get(key, ro)
	if err == nil && ValueHook != nil {
		v = ValueHook(db.path, key, v)
	}
	return v, err
}

func (db *DB) Has(key []byte, ro *opt.ReadOptions) (bool, error) {
	if err := vsched.Effect("ldb.has", db.path); err != nil {
		return false, err
	}
	return db.real.Has(key, ro)
}

func (db *DB) Close() error {
	if err := vsched.Effect("ldb.close", db.path); err != nil {
		return err
	}
	openMu.Lock()
	delete(openDBs, db.real)
	openMu.Unlock()
	return db.real.Close()
}

func (db *DB) NewIterator(slice *util.Range, ro *opt.ReadOptions) iterator.Iterator {
	return db.real.NewIterator(slice, ro)
}
func (db *DB) GetSnapshot() (*Snapshot, error)           { return db.real.GetSnapshot() }
func (db *DB) GetProperty(name string) (string, error)   { return db.real.GetProperty(name) }
func (db *DB) Stats(s *DBStats) error                    { return db.real.Stats(s) }
func (db *DB) SizeOf(ranges []util.Range) (Sizes, error) { return db.real.SizeOf(ranges) }
func (db *DB) CompactRange(r util.Range) error           { return db.real.CompactRange(r) }
func (db *DB) SetReadOnly() error                        { return db.real.SetReadOnly() }
func (db *DB) OpenTransaction() (*Transaction, error)    { return db.real.OpenTransaction() }
