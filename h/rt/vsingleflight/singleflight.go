// Copyright 2013 The Go Authors. All rights reserved.
// Use of this source code is governed by a BSD-style
// license that can be found in the LICENSE file.

// Package singleflight provides a duplicate function call suppression
// mechanism.
package singleflight // import "golang.org/x/sync/singleflight"

import (
	"bytes"
	"errors"
	"fmt"
	"runtime"
	"runtime/debug"
	sync "verif/h/rt/vsync"
	"verif/h/rt/vsched"
)

// errGoexit indicates the runtime.Goexit was called in
// the user given function.
var errGoexit = errors.New("runtime.Goexit was called")

// A panicError is an arbitrary value recovered from a panic
// with the stack trace during the execution of given function.
type panicError struct {
	value interface{}
	stack []byte
}

// Error implements error interface.
func (p *panicError) Error() string {
	return fmt.Sprintf("%v\n\n%s", p.value, p.stack)
}

func (p *panicError) Unwrap() error {
	err, ok := p.value.(error)
	if !ok {
		return nil
	}

	return err
}

func newPanicError(v interface{}) error {
	stack := debug.Stack()

	// The first line of the stack trace is of the form "goroutine N [status]:"
	// but by the time the panic reaches Do the goroutine may no longer exist
	// and its status will have changed. Trim out the misleading line.
	if line := bytes.IndexByte(stack[:], '\n'); line >= 0 {
		stack = stack[line+1:]
	}
	return &panicError{value: v, stack: stack}
}

// call is an in-flight or completed singleflight.Do call
type call struct {
	wg sync.WaitGroup

	// These fields are written once before the WaitGroup is done
	// and are only read after the WaitGroup is done.
	val interface{}
	err error

	// These fields are read and written with the singleflight
	// mutex held before the WaitGroup is done, and are read but
	// not written after the WaitGroup is done.
	dups  int
	chans []chan<- Result
}

// Group represents a class of work and forms a namespace in
// which units of work can be executed with duplicate suppression.
type Group struct {
	mu sync.Mutex       // protects m
	m  map[string]*call // lazily initialized
}

// Result holds the results of Do, so they can be passed
// on a channel.
type Result struct {
	Val    interface{}
	Err    error
	Shared bool
}

// Do executes and returns the results of the given function, making
// sure that only one execution is in-flight for a given key at a
// time. If a duplicate comes in, the duplicate caller waits for the
// original to complete and receives the same results.
// The return value shared indicates whether v was given to multiple callers.
func (g *Group) Do(key string, fn func() (interface{}, error)) (v interface{}, err error, shared bool) {
	g.mu.Lock()
	if g.m == nil {
		g.m = make(map[string]*call)
	}
	if c, ok := g.m[key]; ok {
		c.dups++
		g.mu.Unlock()
		c.wg.Wait()

		if e, ok := c.err.(*panicError); ok {
			panic(e)
		} else if c.err == errGoexit {
			runtime.Goexit()
		}
		return c.val, c.err, true
	}
	c := new(call)
	c.wg.Add(1)
	g.m[key] = c
	g.mu.Unlock()

	g.doCall(c, key, fn)
	return c.val, c.err, c.dups > 0
}

// DoChan is like Do but returns a channel that will receive the
// results when they are ready.
//
// The returned channel will not be closed.
func (g *Group) DoChan(key string, fn func() (interface{}, error)) <-chan Result {
	ch := make(chan Result, 1)
	g.mu.Lock()
	if g.m == nil {
		g.m = make(map[string]*call)
	}
	if c, ok := g.m[key]; ok {
		c.dups++
		c.chans = append(c.chans, ch)
		g.mu.Unlock()
		return ch
	}
	c := &call{chans: []chan<- Result{ch}}
	c.wg.Add(1)
	g.m[key] = c
	g.mu.Unlock()

	vsched.Go(func() { g.doCall(c, key, fn) })

	return ch
}

// doCall handles the single call for a key.
func (g *Group) doCall(c *call, key string, fn func() (interface{}, error)) {
	normalReturn := false
	recovered := false

	// use double-defer to distinguish panic from runtime.Goexit,
	// more details see https://golang.org/cl/134395
	defer func() {
		// the given function invoked runtime.Goexit
		if !normalReturn && !recovered {
			c.err = errGoexit
		}

		g.mu.Lock()
		defer g.mu.Unlock()
		c.wg.Done()
		if g.m[key] == c {
			delete(g.m, key)
		}

		if e, ok := c.err.(*panicError); ok {
			// In order to prevent the waiting channels from being blocked forever,
			// needs to ensure that this panic cannot be recovered.
			if len(c.chans) > 0 {
				go panic(e)
				select {} // Keep this goroutine around so that it will appear in the crash dump.
			} else {
				panic(e)
			}
		} else if c.err == errGoexit {
			// Already in the process of goexit, no need to call again
		} else {
			// Normal return
			for _, ch := range c.chans {
				ch <- Result{c.val, c.err, c.dups > 0}
			}
		}
	}()

	func() {
		defer func() {
			if !normalReturn {
				// Ideally, we would wait to take a stack trace until we've determined
				// whether this is a panic or a runtime.Goexit.
				//
				// Unfortunately, the only way we can distinguish the two is to see
				// whether the recover stopped the goroutine from terminating, and by
				// the time we know that, the part of the stack trace relevant to the
				// panic has been discarded.
				if r := recover(); r != nil {
					c.err = newPanicError(r)
				}
			}
		}()

		c.val, c.err = fn()
		normalReturn = true
	}()

	if !normalReturn {
		recovered = true
	}
}

// Forget tells the singleflight to forget about a key.  Future calls
// to Do for this key will call the function rather than waiting for
// an earlier call to complete.
func (g *Group) Forget(key string) {
	g.mu.Lock()
	delete(g.m, key)
	g.mu.Unlock()
}
