// Copyright 2016 The Go Authors. All rights reserved.
// Use of this source code is governed by a BSD-style
// license that can be found in the LICENSE file.

// Package errgroup provides synchronization, error propagation, and Context
// cancelation for groups of goroutines working on subtasks of a common task.
//
// [errgroup.Group] is related to [sync.WaitGroup] but adds handling of tasks
// returning errors.
package errgroup

import (
	context "verif/h/rt/vcontext"
	"fmt"
	sync "verif/h/rt/vsync"
	"verif/h/rt/vsched"
)

type token struct{}

// A Group is a collection of goroutines working on subtasks that are part of
// the same overall task.
//
// A zero Group is valid, has no limit on the number of active goroutines,
// and does not cancel on error.
type Group struct {
	cancel func(error)

	wg sync.WaitGroup

	sem chan token

	errOnce sync.Once
	err     error
}

func (g *Group) done() {
	if g.sem != nil {
		<-g.sem
	}
	g.wg.Done()
}

// WithContext returns a new Group and an associated Context derived from ctx.
//
// The derived Context is canceled the first time a function passed to Go
// returns a non-nil error or the first time Wait returns, whichever occurs
// first.
func WithContext(ctx context.Context) (*Group, context.Context) {
	ctx, cancel := withCancelCause(ctx)
	return &Group{cancel: cancel}, ctx
}

// Wait blocks until all function calls from the Go method have returned, then
// returns the first non-nil error (if any) from them.
func (g *Group) Wait() error {
	g.wg.Wait()
	if g.cancel != nil {
		g.cancel(g.err)
	}
	return g.err
}

// Go calls the given function in a new goroutine.
// It blocks until the new goroutine can be added without the number of
// active goroutines in the group exceeding the configured limit.
//
// The first call to return a non-nil error cancels the group's context, if the
// group was created by calling WithContext. The error will be returned by Wait.
func (g *Group) Go(f func() error) {
	if g.sem != nil {
		g.sem <- token{}
	}

	g.wg.Add(1)
	vsched.Go(func() {
		defer g.done()

		if err := f(); err != nil {
			g.errOnce.Do(func() {
				g.err = err
				if g.cancel != nil {
					g.cancel(g.err)
				}
			})
		}
	})
}

// TryGo calls the given function in a new goroutine only if the number of
// active goroutines in the group is currently below the configured limit.
//
// The return value reports whether the goroutine was started.
func (g *Group) TryGo(f func() error) bool {
	if g.sem != nil {
		select {
		case g.sem <- token{}:
			// Note: this allows barging iff channels in general allow barging.
		default:
			return false
		}
	}

	g.wg.Add(1)
	vsched.Go(func() {
		defer g.done()

		if err := f(); err != nil {
			g.errOnce.Do(func() {
				g.err = err
				if g.cancel != nil {
					g.cancel(g.err)
				}
			})
		}
	})
	return true
}

// SetLimit limits the number of active goroutines in this group to at most n.
// A negative value indicates no limit.
//
// Any subsequent call to the Go method will block until it can add an active
// goroutine without exceeding the configured limit.
//
// The limit must not be modified while any goroutines in the group are active.
func (g *Group) SetLimit(n int) {
	if n < 0 {
		g.sem = nil
		return
	}
	if len(g.sem) != 0 {
		panic(fmt.Errorf("errgroup: modify limit while %v goroutines in the group are still active", len(g.sem)))
	}
	g.sem = make(chan token, n)
}
