// Copyright 2023 The Go Authors. All rights reserved.
// Use of this source code is governed by a BSD-style
// license that can be found in the LICENSE file.

//go:build go1.20

package errgroup

import "context"

func withCancelCause(parent context.Context) (context.Context, func(error)) {
	return context.WithCancelCause(parent)
}
