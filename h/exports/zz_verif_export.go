//go:build verif

package revocation

import (
	"github.com/gr33nbl00d/caddy-revocation-validator/crl"
	"github.com/gr33nbl00d/caddy-revocation-validator/ocsp"
)

// Accessors for the verification harness (present only in the overlay build).

func (c *CertRevocationValidator) VerifCRLChecker() *crl.CRLRevocationChecker { return c.crlRevocationChecker }

func (c *CertRevocationValidator) VerifOCSPChecker() *ocsp.OCSPRevocationChecker {
	return c.ocspRevocationChecker
}
