//go:build verif

package crlrepository

import (
	"sort"

	"github.com/gr33nbl00d/caddy-revocation-validator/crl/crlloader"
	"github.com/gr33nbl00d/caddy-revocation-validator/crl/crlreader"
	"github.com/gr33nbl00d/caddy-revocation-validator/crl/crlstore"
)

type VerifEntryInfo struct {
	ID                              string
	Present                         bool
	Loaded                          bool
	LastUpdateSignatureVerifyFailed bool
	StoreNil                        bool
	Store                           crlstore.CRLStore
}

// VerifEntries is a read-only snapshot of the repository map (sorted by id).
func (R *Repository) VerifEntries() []VerifEntryInfo {
	var out []VerifEntryInfo
	for id, e := range R.crlRepository {
		info := VerifEntryInfo{ID: id}
		if e != nil {
			info.Present = true
			info.Loaded = e.Loaded
			info.LastUpdateSignatureVerifyFailed = e.LastUpdateSignatureVerifyFailed
			info.StoreNil = e.CRLStore == nil
			info.Store = e.CRLStore
		}
		out = append(out, info)
	}
	sort.Slice(out, func(i, j int) bool { return out[i].ID < out[j].ID })
	return out
}

func (R *Repository) VerifSetReader(r crlreader.CRLReader) { R.crlReader = r }

func (R *Repository) VerifSetLoaderFactory(f crlloader.CRLLoaderFactory) { R.crlLoaderFactory = f }
