//go:build verif

package crl

import (
	"github.com/gr33nbl00d/caddy-revocation-validator/crl/crlrepository"
	sync "verif/h/rt/vsync"
)

// VerifReset puts the package-level state back to its initial value (fresh world).
func VerifReset() {
	workDirsInUse = make(map[string]int)
	workDirInUseMutex = sync.Mutex{}
	crlUpdateMutex = sync.Mutex{}
}

func (c *CRLRevocationChecker) VerifUpdateCRLs(force bool) { c.updateCRLs(force) }

func (c *CRLRevocationChecker) VerifRepository() *crlrepository.Repository { return c.crlRepository }

func VerifWorkDirsInUse() map[string]int {
	m := map[string]int{}
	for k, v := range workDirsInUse {
		m[k] = v
	}
	return m
}
