//go:build verif

package ocsp

import "github.com/muesli/cache2go"

// VerifReset empties the process-global OCSP cache table (fresh world).
func VerifReset() {
	cache2go.VerifReset()
}
